#!/usr/bin/env python3
"""Witness on a real TCP loopback connection for the finding 'a transport closed while unsent data is buffered never reports the loss'
(DESIGN section 6, item 25).  Not a registered check - the checks reproduce the same history on the simulated transport, whose
behaviour in this situation is compared with asyncio's in `./check SELFTEST`.

  PYTHONPATH=<tree> /venv/bin/python demos/stalled_close_real_tcp.py      exit 0: the loss is noticed; exit 1: the connection looks alive

The 'accessory' accepts the connection, never reads, and half-closes (FIN) while a large request is still in the controller's
transport buffer."""
import asyncio
import socket
import sys

from aiohomekit.controller.ip.connection import HomeKitConnection, InsecureHomeKitProtocol


async def main():
    loop = asyncio.get_running_loop()
    srv = socket.socket()
    srv.setsockopt(socket.SOL_SOCKET, socket.SO_RCVBUF, 4096)
    srv.bind(("127.0.0.1", 0))
    srv.listen(1)
    cli = socket.socket()
    cli.setsockopt(socket.SOL_SOCKET, socket.SO_SNDBUF, 4096)
    cli.setblocking(False)
    await loop.sock_connect(cli, srv.getsockname())
    peer, _ = srv.accept()
    conn = HomeKitConnection(None, ["127.0.0.1"], srv.getsockname()[1])
    started = []
    conn._start_connector = lambda: started.append(loop.time())          # observe the reconnect trigger instead of dialling out
    conn.transport, conn.protocol = await loop.create_connection(lambda: InsecureHomeKitProtocol(conn), sock=cli)
    conn.connected_host, conn.host_header = "127.0.0.1", "Host: 127.0.0.1"
    req = asyncio.ensure_future(conn.put("/x", b"x" * (8 * 1024 * 1024)))
    await asyncio.sleep(0.2)
    peer.shutdown(socket.SHUT_WR)
    await asyncio.sleep(1.0)
    print("request:", "failed with " + repr(req.exception()) if req.done() else "still pending")
    print("is_connected:", bool(conn.is_connected), "reconnect triggered:", bool(started))
    ok = not conn.is_connected and bool(started)
    peer.close()
    srv.close()
    return 0 if ok else 1

sys.exit(asyncio.run(main()))

#!/usr/bin/env python3
"""Witness on a real TCP loopback connection for the finding 'a request that is cancelled (or times out) just after the accessory reset the
connection ends with a bare OSError' (DESIGN section 6, item 27).  Not a registered check - the checks reproduce the same history on
the simulated transport, whose behaviour in this situation is compared with asyncio's in `./check SELFTEST`.

  PYTHONPATH=<tree> /venv/bin/python demos/reset_before_poll_real_tcp.py      exit 0: the caller's timeout is reported as a timeout; exit 1: OSError

The 'accessory' accepts the connection, receives a request and resets the connection (SO_LINGER 0 close: crash, reboot, out of
sessions).  The caller's timeout expires before the event loop has polled the socket again (here: another callback keeps the loop busy for
50 ms in that very iteration, as anything sharing the loop may)."""
import asyncio
import socket
import struct
import sys
import time

from aiohomekit.controller.ip.connection import HomeKitConnection, InsecureHomeKitProtocol


async def main():
    loop = asyncio.get_running_loop()
    srv = socket.socket()
    srv.bind(("127.0.0.1", 0))
    srv.listen(1)
    cli = socket.socket()
    cli.setblocking(False)
    await loop.sock_connect(cli, srv.getsockname())
    peer, _ = srv.accept()
    conn = HomeKitConnection(None, ["127.0.0.1"], srv.getsockname()[1])
    conn._start_connector = lambda: None
    conn.transport, conn.protocol = await loop.create_connection(lambda: InsecureHomeKitProtocol(conn), sock=cli)
    conn.connected_host, conn.host_header = "127.0.0.1", "Host: 127.0.0.1"

    when = loop.time() + 0.2

    async def caller():
        async with asyncio.timeout_at(when):
            return await conn.get("/accessories")
    req = asyncio.ensure_future(caller())
    await asyncio.sleep(0.1)

    def busy():
        # in the loop iteration in which the caller's timeout expires something else keeps the loop busy for 50 ms, and the accessory's
        # reset arrives meanwhile
        peer.setsockopt(socket.SOL_SOCKET, socket.SO_LINGER, struct.pack("ii", 1, 0))
        peer.close()
        time.sleep(0.05)
    loop.call_at(when, busy)
    await asyncio.wait([req])
    exc = req.exception()
    print("request ended with", repr(exc))
    srv.close()
    return 0 if isinstance(exc, TimeoutError) else 1

sys.exit(asyncio.run(main()))

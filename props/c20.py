"""C20 - saved pairings and the accessory cache survive restart and interrupted saves (DESIGN 4/C20, engine E-crash)."""
import asyncio
import builtins
import glob
import io
import json
import os
import pathlib
import shutil
import tempfile

from hypothesis import strategies as st

from aiohomekit.characteristic_cache import CharacteristicCacheFile, CharacteristicCacheMemory
from aiohomekit.controller.abstract import TransportType
from aiohomekit.controller.ble.controller import BleController
from aiohomekit.controller.coap.controller import CoAPController
from aiohomekit.controller.controller import Controller
from aiohomekit.controller.ip.controller import IpController
from aiohomekit.controller.ip.pairing import IpPairing
from aiohomekit.model import Accessories
from vlib import vtime
from vlib.runner import REPO, VERIF, HarnessError, Layer, Property

P = "C20"
WORK = os.path.join(VERIF, ".work")


class Crash(BaseException):
    """Simulated process crash."""


def workdir():
    os.makedirs(WORK, exist_ok=True)
    return tempfile.mkdtemp(prefix=f"c20-{os.getpid()}-", dir=WORK)


# ---------------------------------------------------------------- E-crash: file-system effects of the code under test
class FsMonitor:
    """Rebinds builtins.open / os.replace / os.rename for files under `root`.  plan = None records the effects; plan = (index, prefix)
    crashes at that effect (for writes after handing exactly `prefix` bytes to the OS)."""

    def __init__(self, root, plan=None):
        self.root = os.path.realpath(root)
        self.plan = plan
        self.effects = []          # ("open", path, mode) ("write", path, nbytes) ("flush", path) ("close", path) ("replace", src, dst)
        self.open_files = []
        self.unflushed_before = []  # dry run: buffered bytes just before effect i
        self._orig = {}

    def _mine(self, path):
        try:
            return os.path.realpath(os.fspath(path)).startswith(self.root + os.sep)
        except TypeError:
            return False

    def _hit(self):
        return self.plan is not None and len(self.effects) == self.plan[0]

    def unflushed(self):
        return sum(len(f.buffered) for f in self.open_files)

    def crash_if_planned(self, where):
        """Crash before the next effect if the plan says so; plan[1] bytes of the buffered data have reached the OS."""
        self.unflushed_before.append(self.unflushed()) if self.plan is None else None
        if self._hit():
            n = self.plan[1]
            for f in self.open_files:
                take = min(n, len(f.buffered))
                f.f.write(f.buffered[:take])
                n -= take
                f.f.close()
            raise Crash(f"{where}; {self.plan[1]} buffered byte(s) had reached the OS")

    def __enter__(self):
        mon = self
        self._orig = {"open": builtins.open, "io_open": io.open, "replace": os.replace, "rename": os.rename}
        real_open = builtins.open

        class CrashFile:
            """Bytes written are *buffered* (as Python's file objects do) until flush()/close(); at a crash any prefix of the
            buffered bytes may already have reached the OS (a buffer can spill at any size), the rest is lost."""

            def __init__(self, path, mode, kw):
                self.path, self.mode = path, mode
                self.enc = kw.get("encoding") or "utf-8"
                self.binary = "b" in mode
                mon.crash_if_planned("before open")
                self.f = real_open(path, mode.replace("t", "") + ("" if "b" in mode else "b"), buffering=0)
                self.buffered = b""
                mon.open_files.append(self)
                mon.effects.append(("open", os.path.basename(path), mode))

            def write(self, s):
                data = s if self.binary else s.encode(self.enc)
                mon.crash_if_planned("before write")
                self.buffered += data
                mon.effects.append(("write", os.path.basename(self.path), len(data)))
                return len(s)

            def _spill(self):
                self.f.write(self.buffered)
                self.buffered = b""

            def flush(self):
                mon.crash_if_planned("before flush")
                self._spill()
                mon.effects.append(("flush", os.path.basename(self.path)))

            def fileno(self):
                return self.f.fileno()

            def close(self):
                if self.f.closed:
                    return
                mon.crash_if_planned("before close")
                self._spill()
                self.f.close()
                mon.open_files.remove(self)
                mon.effects.append(("close", os.path.basename(self.path)))

            def __enter__(self):
                return self

            def __exit__(self, et, ev, tb):
                if et is None:
                    self.close()
                else:
                    self.f.close()
                return False

        def open_(file, mode="r", *a, **kw):
            if isinstance(file, (str, bytes, os.PathLike)) and mon._mine(file) and any(c in mode for c in "wax+"):
                if a:
                    kw["buffering"] = a[0]
                return CrashFile(os.fspath(file), mode, kw)
            return real_open(file, mode, *a, **kw)

        def mover(kind):
            real = self._orig[kind]

            def fn(src, dst, *a, **kw):
                if mon._mine(dst) or mon._mine(src):
                    mon.crash_if_planned(f"before {kind}")
                    real(src, dst, *a, **kw)
                    mon.effects.append((kind, os.path.basename(os.fspath(src)), os.path.basename(os.fspath(dst))))
                    return None
                return real(src, dst, *a, **kw)
            return fn
        builtins.open = open_
        io.open = open_
        os.replace = mover("replace")
        os.rename = mover("rename")
        return self

    def __exit__(self, *exc):
        builtins.open = self._orig["open"]
        io.open = self._orig["io_open"]
        os.replace = self._orig["replace"]
        os.rename = self._orig["rename"]
        return False


# ---------------------------------------------------------------- controllers
class _Zc:
    """Stand-in for AsyncZeroconf: the back-ends are registered, never started."""
    zeroconf = None


def fresh_controller(cache=None, avail=("IP", "CoAP", "BLE")):
    c = Controller(async_zeroconf_instance=_Zc(), char_cache=cache if cache is not None else CharacteristicCacheMemory())
    if "IP" in avail:
        c.transports[TransportType.IP] = IpController(char_cache=c._char_cache, zeroconf_instance=_Zc())
    if "CoAP" in avail:
        c.transports[TransportType.COAP] = CoAPController(char_cache=c._char_cache, zeroconf_instance=_Zc())
    if "BLE" in avail:
        c.transports[TransportType.BLE] = BleController(char_cache=c._char_cache)
    return c


def make_pairing_data(i, conn, opt):
    hexs = lambda tag: (bytes([i + 1, len(tag)]) * 16).hex()  # noqa: E731
    d = {"AccessoryPairingID": "%02X:22:33:44:55:%02X" % (i + 16, i), "AccessoryLTPK": hexs("a"), "iOSPairingId": "decc6fa3-de3e-41c9-adba-ef740982%04d" % i,
         "iOSDeviceLTSK": hexs("bb"), "iOSDeviceLTPK": hexs("ccc")}
    if conn is not None:
        d["Connection"] = conn
    if conn in (None, "IP", "CoAP"):
        d["AccessoryIP"] = "10.0.%d.5" % i if conn != "CoAP" else "fd00::%d" % (i + 1)
        d["AccessoryPort"] = 51826 + i
        if opt & 1:
            d["AccessoryIPs"] = [d["AccessoryIP"], "10.9.9.%d" % i]
    else:
        d["AccessoryAddress"] = "AA:BB:CC:00:11:%02X" % i
    if opt & 2:
        d["extra-field"] = {"nested": [1, 2, "ü"]}
    if opt & 4 and i > 0:
        # the same accessory paired under a second controller identity (or an entry left behind by an earlier pairing): same accessory id
        # and long-term key as the first entry of the set, own controller identity
        d["AccessoryPairingID"] = "%02X:22:33:44:55:%02X" % (16, 0)
        d["AccessoryLTPK"] = (bytes([1, 1]) * 16).hex()
    return d


def build_set(spec):
    """spec: list of [alias, conn, opt]"""
    return {alias: make_pairing_data(i, conn, opt) for i, (alias, conn, opt) in enumerate(spec)}


def save_set(path, data):
    async def go():
        c = fresh_controller()
        for alias, pd in data.items():
            c.load_pairing(alias, json.loads(json.dumps(pd)))
        c.save_data(path)
        return c
    return vtime.run_shared(go())


def load_set(path, avail=("IP", "CoAP", "BLE")):
    async def go():
        c = fresh_controller(avail=avail)
        c.load_data(path)
        return {alias: json.loads(json.dumps(p.pairing_data)) for alias, p in c.aliases.items()}
    return vtime.run_shared(go())


def norm_set(data):
    out = {}
    for alias, pd in data.items():
        pd = dict(pd)
        pd.setdefault("Connection", "IP")
        out[alias] = pd
    return out


def run_crash(case, R):
    old, new = build_set(case["old"]), build_set(case["new"])
    d = workdir()
    path = os.path.join(d, case.get("filename", "pairings.json"))
    try:
        if case["old"] or case.get("old_exists"):
            save_set(path, old)
            base = open(path, "rb").read()
        else:
            base = None

        def restore():
            for f in os.listdir(d):
                os.unlink(os.path.join(d, f))
            if base is not None:
                with open(path, "wb") as fh:
                    fh.write(base)
        # dry run: record the effects of saving `new` over `old`
        with FsMonitor(d) as mon:
            save_set(path, new)
        effects = list(mon.effects)
        if len(mon.unflushed_before) != len(effects):
            raise HarnessError(f"effect bookkeeping: {len(mon.unflushed_before)} crash points for {len(effects)} effects")
        try:
            got = load_set(path)
        except Exception as e:  # noqa: BLE001
            R.fail("C20.pairings-roundtrip", f"after an uninterrupted save of {sorted(new)} over {sorted(old)}: load_data raised {type(e).__name__}: {e}")
            return
        if got != norm_set(new):
            R.fail("C20.pairings-roundtrip", f"after an uninterrupted save of {sorted(new)} over {sorted(old)}: loaded {got!r:.300} expected {norm_set(new)!r:.300}")
            return
        if not any(e[0] == "write" for e in effects):
            raise HarnessError(f"no write effect observed in {effects}")
        # crash before effect i, with every possible number of buffered bytes already spilled to the OS
        points = []
        for i in range(len(effects)):
            points += [(i, n) for n in range(0, mon.unflushed_before[i] + 1)]
        points.append((len(effects), 0))       # crash after the last effect (= completed save)
        R.nt(True)
        R.cls(f"effects={len(effects)}", "old-exists" if base is not None else "first-save")
        R.sub = len(points) - 1
        R.note = effects
        for (i, n) in points:
            restore()
            try:
                with FsMonitor(d, plan=(i, n)) as m2:
                    save_set(path, new)
            except Crash:
                pass
            what = f"crash before effect {i} {effects[i] if i < len(effects) else '(end)'} with {n} buffered byte(s) on disk; effects of a save: {effects}"
            try:
                got = load_set(path)
            except Exception as e:  # noqa: BLE001
                R.fail("C20.crash-loses-pairings", f"{what}: load_data after restart raised {type(e).__name__}: {e}",
                       at=effects[i][0] if i < len(effects) else "end", first_save=base is None)
                return
            if got != norm_set(new) and got != (norm_set(old) if base is not None else {}):
                R.fail("C20.crash-loses-pairings", f"{what}: after restart {sorted(got)} loaded; neither the old set {sorted(old)} nor the new set {sorted(new)}",
                       at=effects[i][0] if i < len(effects) else "end", first_save=base is None)
                return
    finally:
        shutil.rmtree(d, ignore_errors=True)


def run_roundtrip(case, R):
    data = build_set(case["set"])
    d = workdir()
    try:
        path = os.path.join(d, "sub", "dir", "p.json") if case.get("nested_dir") else os.path.join(d, "p.json")
        R.nt(len(data) >= 2 or any(ord(ch) > 127 for a in data for ch in a))
        R.cls(f"pairings={len(data)}")
        save_set(path, data)
        got = load_set(path)
        if got != norm_set(data):
            R.fail("C20.pairings-roundtrip", f"loaded {got!r:.400} expected {norm_set(data)!r:.400}")
        # a process in which a transport is not available (no Bluetooth adapter, no Thread radio) still loads every pairing of the others,
        # wherever the unusable entries stand in the file
        for avail in (("IP", "CoAP"), ("IP",), ("CoAP", "BLE"), ("BLE",)):
            want = {a: pd for a, pd in norm_set(data).items() if pd["Connection"] in avail}
            if len(want) == len(data):
                continue
            try:
                part = load_set(path, avail)
            except Exception as e:  # noqa: BLE001
                R.fail("C20.pairings-roundtrip", f"transports {avail} only: load_data raised {type(e).__name__}: {e}")
                return
            R.cls("partial-transports")
            if part != want:
                R.fail("C20.pairings-roundtrip", f"transports {avail} only: loaded {sorted(part)} of the loadable {sorted(want)} (file order {list(data)})")
                return
        # a second save of what was loaded is stable
        save_set(path, got)
        if load_set(path) != norm_set(data):
            R.fail("C20.pairings-roundtrip", "second save/load differs")
    finally:
        shutil.rmtree(d, ignore_errors=True)


# ---------------------------------------------------------------- accessory database through the cache file
# the fields the statement lists (description and unit are presentation metadata the library re-derives from the type)
FIELDS = ["type", "iid", "perms", "format", "value", "minValue", "maxValue", "minStep", "valid_values", "handle", "broadcast_events", "disconnected_events"]


def model_view(accessories: Accessories):
    out = []
    for a in accessories:
        services = []
        for s in a.services:
            chars = []
            for c in s.characteristics:
                chars.append({f: getattr(c, f, None) if f != "value" else c._value for f in FIELDS})
            services.append({"iid": s.iid, "type": s.type, "linked": [x.iid for x in s.linked], "chars": chars})
        out.append({"aid": a.aid, "services": services})
    return out


class _Ctl:
    def __init__(self, cache):
        self._char_cache = cache


PD = {"AccessoryPairingID": "AA:BB:CC:DD:EE:FF", "AccessoryLTPK": "00" * 32, "iOSPairingId": "x", "iOSDeviceLTSK": "11" * 32, "iOSDeviceLTPK": "22" * 32,
      "AccessoryIP": "10.0.0.1", "AccessoryPort": 1, "Connection": "IP"}


def run_cache(case, R):
    if "fixture" in case:
        with open(os.path.join(REPO, "tests", "fixtures", case["fixture"]), encoding="utf-8") as fh:
            emap = json.load(fh)
    else:
        emap = case["map"]
    d = workdir()
    try:
        loc = pathlib.Path(d) / "cache.json"
        bk = bytes(case["broadcast_key"]) if case.get("broadcast_key") else None

        async def go():
            def mk():
                # the pairing's controller: a bare holder of the cache, or the aggregate Controller the applications build (given the file cache,
                # which is empty at the very first start) with its IP transport
                if case.get("via_controller"):
                    return fresh_controller(CharacteristicCacheFile(loc), avail=("IP",)).transports[TransportType.IP]
                return _Ctl(CharacteristicCacheFile(loc))
            p1 = IpPairing(mk(), dict(PD))
            p1.restore_accessories_state(json.loads(json.dumps(emap)), case.get("config_num", 1), bk, case.get("state_num"))
            # later write-throughs in the same process: only some of (config number, state number, broadcast key, a value) change
            cn, sn, key = case.get("config_num", 1), case.get("state_num"), bk
            for u in case.get("updates", []):
                m2 = json.loads(json.dumps(emap))
                if u.get("cn"):
                    cn += u["cn"]
                if "sn" in u:
                    sn = u["sn"]
                if "key" in u:
                    key = bytes(u["key"]) if u["key"] is not None else None
                if u.get("value") is not None:
                    for a_ in m2:
                        for s_ in a_["services"]:
                            for c_ in s_["characteristics"]:
                                if "pr" in c_["perms"] and c_.get("format") in (("uint8", "uint16", "uint32", "uint64", "int") if u["value"] < 256 else ("uint64",)):
                                    c_["value"] = u["value"]
                    emap[:] = m2
                p1.restore_accessories_state(m2, cn, key, sn)
            before = (model_view(p1.accessories), p1.config_num, p1.state_num, p1.broadcast_key)
            # restart
            p2 = IpPairing(mk(), dict(PD))
            if p2.accessories is None:
                return before, None
            return before, (model_view(p2.accessories), p2.config_num, p2.state_num, p2.broadcast_key)
        try:
            before, after = vtime.run_shared(go())
        except Exception as e:  # noqa: BLE001
            R.fail("C20.cache-roundtrip-raises", f"{type(e).__name__}: {e}", exc=type(e).__name__)
            return
        links = sum(len(s["linked"]) for a in before[0] for s in a["services"])
        nondefault = sum(1 for a in before[0] for s in a["services"] for c in s["chars"] if c["value"] not in (None, 0, "", False))
        R.nt(links >= 1 and nondefault >= 1)
        R.cls("cache:" + ("fixture" if "fixture" in case else "generated"), "links" if links else "no-links")
        if after is None:
            R.fail("C20.cache-roundtrip", "nothing was restored from the cache file after restart")
            return
        if after != before:
            diff = "model differs"
            for a1, a2 in zip(before[0], after[0]):
                for s1, s2 in zip(a1["services"], a2["services"]):
                    if s1 != s2:
                        for c1, c2 in zip(s1["chars"], s2["chars"]):
                            if c1 != c2:
                                diff = f"characteristic {a1['aid']}.{c1['iid']}: " + ", ".join(f"{k}: {c1[k]!r} -> {c2[k]!r}" for k in FIELDS if c1[k] != c2[k])
                                break
                        else:
                            diff = f"service {a1['aid']}.{s1['iid']}: linked {s1['linked']} -> {s2['linked']}"
                        break
            if before[1:] != after[1:]:
                diff += f"; (config_num, state_num, broadcast_key) {before[1:]} -> {after[1:]}"
            R.fail("C20.cache-roundtrip", diff[:600], field=diff.split(":")[1].strip().split(" ")[0] if "characteristic" in diff else "other")
    finally:
        shutil.rmtree(d, ignore_errors=True)


def run_ble_state(case, R):
    """The state number a BLE pairing learns from advertisements is what a restarted process restores (file cache), whatever the sequence
    of numbers - including the 16-bit roll-over and an accessory that restarted its counter."""
    import struct

    from bleak.backends.device import BLEDevice
    from bleak.backends.scanner import AdvertisementData

    from aiohomekit.controller.ble.controller import BleController
    seq = case["gsns"]
    R.nt(any(b < a for a, b in zip(seq, seq[1:])))
    R.cls("ble-state", "goes-down" if any(b < a for a, b in zip(seq, seq[1:])) else "monotonic")
    d = workdir()
    try:
        loc = pathlib.Path(d) / "cache.json"
        pd = dict(PD, Connection="BLE", AccessoryAddress="00:11:22:33:44:55")
        pd.pop("AccessoryIP")
        pd.pop("AccessoryPort")
        db = [{"aid": 1, "services": [{"iid": 1, "type": "3E", "characteristics": [{"iid": 2, "type": "23", "perms": ["pr"], "format": "string", "value": "Sim"}]}]}]

        def adv(gsn, cn):
            mfr = bytes([0x06, 0x31, 0x00]) + bytes.fromhex("aabbccddeeff") + struct.pack("<HHBB", 5, gsn & 0xFFFF, cn, 2) + b"\x01\x02\x03\x04"
            return AdvertisementData(local_name="Sim", manufacturer_data={76: mfr}, service_data={}, service_uuids=[], tx_power=None, rssi=-60, platform_data=())

        async def go():
            cache = CharacteristicCacheFile(loc)
            cache.async_create_or_update_map(pd["AccessoryPairingID"], case.get("cn", 1), db, None, case["g0"])
            ctl = BleController(char_cache=cache)
            ctl.load_pairing("alias", dict(pd))
            dev = BLEDevice("00:11:22:33:44:55", "Sim", None)
            for i, g in enumerate(seq):
                ctl._device_detected(dev, adv(g, case.get("cn", 1)))
                await asyncio.sleep(0)
                if i in case.get("restart_after", [len(seq) - 1]):
                    ctl2 = BleController(char_cache=CharacteristicCacheFile(loc))
                    p2 = ctl2.load_pairing("alias", dict(pd))
                    got = (p2.state_num, p2.description.state_num if p2.description else None)
                    if got != (g, g):
                        return i, g, got
            return None
        import aiohomekit.controller.ble.pairing as ble_pairing_mod
        from aiohomekit.exceptions import AccessoryDisconnectedError

        async def no_link(*a, **kw):       # a changed state number makes the pairing poll the accessory: there is no radio here
            raise AccessoryDisconnectedError("simulated: accessory not in range")
        orig_est, ble_pairing_mod.establish_connection = ble_pairing_mod.establish_connection, no_link
        try:
            bad = vtime.run_shared(go())
        except Exception as e:  # noqa: BLE001
            R.fail("C20.cache-roundtrip-raises", f"BLE state numbers {seq}: {type(e).__name__}: {e}", exc=type(e).__name__)
            return
        finally:
            ble_pairing_mod.establish_connection = orig_est
        if bad:
            i, g, got = bad
            R.fail("C20.cache-roundtrip", f"BLE pairing saw state numbers {[case['g0']] + seq[:i + 1]}; a process restarted then restores (state_num, description.state_num) = {got}, "
                                          f"not {g}", field="state_num")
    finally:
        shutil.rmtree(d, ignore_errors=True)


def run_ble_config(case, R):
    """A running BLE pairing on a file cache that already holds the database, a broadcast key and a state number sees the accessory advertise
    higher configuration numbers: it fetches the GATT database again (which may have changed) and writes it through. A process restarted at
    any point restores what the running one held, and what no step of the history replaced - the broadcast key - is still there."""
    from aiohomekit.controller.ble.controller import BleController
    import struct

    from bleak.backends.device import BLEDevice
    from bleak.backends.scanner import AdvertisementData

    from vlib.bleworld import BleWorld, model_db
    R.nt(any(s_.get("cn") for s_ in case["steps"]))
    R.cls("ble-config-change", f"steps={len(case['steps'])}")
    d = workdir()
    key = bytes(range(7, 39))

    async def main(loop):
        loc = pathlib.Path(d) / "cache.json"
        cache = CharacteristicCacheFile(loc)
        cn, gsn = case.get("cn0", 1), case.get("g0", 5)
        cache.async_create_or_update_map("AA:BB:CC:DD:EE:FF", cn, model_db(), key.hex() if case.get("key", True) else None, gsn)
        w = BleWorld(loop, cache=cache)
        try:
            p = w.pairing
            ctl = w.controller
            dev = BLEDevice("00:11:22:33:44:55", "Sim", None)

            def adv(gsn_, cn_):
                mfr = bytes([0x06, 0x31, 0x00]) + bytes.fromhex("aabbccddeeff") + struct.pack("<HHBB", 5, gsn_ & 0xFFFF, cn_ & 0xFF, 2) + b"\x01\x02\x03\x04"
                return AdvertisementData(local_name="Sim", manufacturer_data={76: mfr}, service_data={}, service_uuids=[], tx_power=None, rssi=-60, platform_data=())
            ctl._device_detected(dev, adv(gsn, cn))
            await asyncio.sleep(1)
            for i, step in enumerate(case["steps"]):
                if step.get("db") == "range":
                    w.acc.chars[11].update({"min": 0, "max": 50 + i, "step": 5})
                elif step.get("db") == "link":
                    w.acc.service_linked["0000FF00-0000-1000-8000-0026BB765291"] = [1]
                elif step.get("db") == "value":
                    w.acc.chars[12]["value"] = struct.pack("<H", 1000 + i)
                # (the 255 -> 1 wrap of the configuration number is not generated: the tree compares with ">" and does not see it as a change;
                # no listed property speaks about detecting it - DESIGN section 8)
                cn = cn + step.get("cn", 0)
                gsn += step.get("gsn", 0)
                if step.get("cn") and w.client is not None and w.client.is_connected:
                    w.client.drop()          # a configuration number changes with a firmware update / reconfiguration: the accessory restarts
                    await vtime.settle(loop, 2000)
                ctl._device_detected(dev, adv(gsn, cn))
                await asyncio.sleep(step.get("wait", 30))
                await vtime.settle(loop, 2000)
                if p.config_num != cn and step.get("cn"):
                    return ("config", f"step {i}: the accessory advertises configuration number {cn}; the running pairing holds {p.config_num}")
                running = (model_view(p.accessories), p.config_num, p.state_num, p.broadcast_key)
                ctl2 = BleController(char_cache=CharacteristicCacheFile(loc))
                p2 = ctl2.load_pairing("alias", dict(w.pairing_data))
                if p2.accessories is None:
                    return ("restart", f"step {i}: nothing was restored from the cache file")
                restored = (model_view(p2.accessories), p2.config_num, p2.state_num, p2.broadcast_key)
                if restored != running:
                    what = [n for n, a, b in zip(("model", "config_num", "state_num", "broadcast_key"), running, restored) if a != b]
                    return ("restart", f"step {i}: a restarted process restores other {what} than the running one holds: {running[1:]} -> {restored[1:]}")
                if case.get("key", True) and restored[3] != key:
                    return ("key", f"step {i} (configuration number {cn}): the broadcast key the cache held is gone after restart ({restored[3]!r}); nothing in the history replaced it")
                # (the state number is not compared with the last advertised one: the tree forgets it with the old database until the next
                # advertisement, in the running process too - the file mirrors the running pairing, which is what the statement asks for)
            await p.shutdown()
            return None
        finally:
            w.restore()
    try:
        bad = vtime.run(main)
    except Exception as e:  # noqa: BLE001
        R.fail("C20.cache-roundtrip-raises", f"BLE configuration change {case['steps']}: {type(e).__name__}: {e}", exc=type(e).__name__)
        return
    finally:
        shutil.rmtree(d, ignore_errors=True)
    if bad:
        R.fail("C20.cache-roundtrip", f"BLE: {bad[1]}", field={"key": "broadcast_key", "state": "state_num", "config": "config_num"}.get(bad[0], "other"))


def enum_ble_config(tier):
    for db in (None, "range", "link", "value"):
        yield {"steps": [{"cn": 1, "db": db}]}
        yield {"steps": [{"cn": 1, "db": db, "gsn": 1}, {"gsn": 1}, {"cn": 1, "db": db}]}
        yield {"steps": [{"gsn": 2}, {"cn": 2, "db": db}, {"cn": 0}], "cn0": 240, "g0": 65000}
    yield {"steps": [{"cn": 1}], "key": False}


@st.composite
def ble_config_cases(draw):
    steps = draw(st.lists(st.fixed_dictionaries({"cn": st.sampled_from([0, 1, 1, 3]), "gsn": st.sampled_from([0, 0, 1, 5]), "db": st.sampled_from([None, "range", "link", "value"]),
                                                 "wait": st.sampled_from([5, 30, 200])}), min_size=1, max_size=4))
    return {"steps": steps, "cn0": draw(st.sampled_from([1, 7, 200, 240])), "g0": draw(st.sampled_from([1, 5, 900, 65530])), "key": draw(st.sampled_from([True, True, False]))}


def run_ip_config(case, R):
    """A running IP pairing on a file cache learns new configuration numbers from discovery updates (and re-reads the accessory
    database, which may have changed); a restarted process restores what the running one held."""
    import dataclasses

    from props._recon import description
    from vlib.ipworld import IpWorld
    R.nt(len(case["steps"]) >= 1)
    R.cls("ip-config-change", f"steps={len(case['steps'])}")
    d = workdir()

    async def main(loop):
        loc = pathlib.Path(d) / "cache.json"
        w = IpWorld(loop, k=case.get("k", 0))
        try:
            w.controller._char_cache = CharacteristicCacheFile(loc)
            p = IpPairing(w.controller, dict(w.pairing_data))
            try:
                if case.get("first_contact", True):
                    await p.list_accessories_and_characteristics()
                for step in case["steps"]:
                    cn, value = step[:2]
                    if len(step) > 2 and step[2] == "down":
                        # the accessory announces the new number and cannot be reached (it is still restarting): the new database cannot be
                        # fetched - what is on disk must still be what the running pairing holds
                        w.net.connect_policy = lambda host, n: "refuse"
                        cur = w.acc.conns[-1] if w.acc.conns else None
                        if cur is not None and cur.open:
                            cur.close("fin")
                        await vtime.settle(loop)
                        R.cls("ip-config-change:unreachable")
                    else:
                        w.net.connect_policy = lambda host, n: "accept"
                    if value is not None:                     # the accessory's database changes together with its configuration number
                        for a_ in w.acc.db["accessories"]:
                            for s_ in a_["services"]:
                                for c_ in s_["characteristics"]:
                                    if c_.get("format") == "string" and "pr" in c_.get("perms", []):
                                        c_["value"] = value
                    p._async_description_update(dataclasses.replace(description(["10.0.0.5"], 51826, 1), config_num=cn, id=w.pairing_data["AccessoryPairingID"].lower()))
                    await asyncio.sleep(2 if len(step) < 3 else 40)
                    await vtime.settle(loop)
                if p.accessories is None:
                    return None
                before = (model_view(p.accessories), p.config_num)
                p2 = IpPairing(_Ctl(CharacteristicCacheFile(loc)), dict(w.pairing_data))
                after = (model_view(p2.accessories), p2.config_num) if p2.accessories is not None else None
                return before, after
            finally:
                await p.shutdown()
        finally:
            w.restore()
    try:
        out = vtime.run(main)
        if out is None:
            return
        before, after = out
        if after is None:
            R.fail("C20.cache-roundtrip", f"config numbers {case['steps']}: nothing restored from the cache file after restart", field="config_num")
        elif before != after:
            what = f"config number {before[1]} -> {after[1]}" if before[1] != after[1] else "entity map differs"
            R.fail("C20.cache-roundtrip", f"IP pairing saw config numbers {case['steps']}; running process vs restarted process: {what}", field="config_num" if before[1] != after[1] else "other")
    finally:
        shutil.rmtree(d, ignore_errors=True)


def enum_ip_config(tier):
    yield {"steps": [[2, None]], "first_contact": True}
    yield {"steps": [[2, "new name"]], "first_contact": True}
    yield {"steps": [[1, None]], "first_contact": False}
    yield {"steps": [[3, "x"], [3, None], [7, "y"]], "first_contact": True}
    yield {"steps": [[5, None], [2, "older number"]], "first_contact": False}
    yield {"steps": [[2, "new", "down"]], "first_contact": True}
    yield {"steps": [[2, None], [4, "new", "down"]], "first_contact": True}
    yield {"steps": [[3, "a", "down"], [3, "a"]], "first_contact": True}


@st.composite
def ip_config_cases(draw):
    n = draw(st.integers(1, 4))
    return {"steps": [[draw(st.sampled_from([1, 2, 3, 5, 9, 255, 65535])), draw(st.sampled_from([None, None, "a", "ü"]))] + (["down"] if draw(st.integers(0, 3)) == 0 else [])
                      for _ in range(n)],
            "first_contact": draw(st.booleans()), "k": draw(st.integers(0, 5))}


@st.composite
def ble_state_cases(draw):
    g0 = draw(st.sampled_from([1, 2, 900, 65534, 65535]))
    n = draw(st.integers(1, 6))
    seq = []
    cur = g0
    for _ in range(n):
        step = draw(st.sampled_from(["+1", "+1", "+k", "same", "wrap", "restart"]))
        cur = {"+1": cur + 1, "+k": cur + draw(st.integers(2, 50)), "same": cur, "wrap": 1, "restart": draw(st.integers(1, 5))}[step]
        if cur > 65535:
            cur = 1 + (cur - 65536)
        seq.append(cur)
    return {"g0": g0, "gsns": seq, "cn": draw(st.sampled_from([1, 3])), "restart_after": sorted(set(draw(st.lists(st.integers(0, n - 1), min_size=1, max_size=3))))}


def enum_ble_state(tier):
    yield {"g0": 65534, "gsns": [65535, 1, 2], "restart_after": [0, 1, 2]}
    yield {"g0": 65535, "gsns": [1], "restart_after": [0]}
    yield {"g0": 900, "gsns": [901, 3, 3, 4], "restart_after": [1, 2, 3]}
    yield {"g0": 5, "gsns": [5, 6, 6, 7], "restart_after": [0, 1, 2, 3]}


def run_corrupt_cache(case, R):
    emap = case["map"]
    d = workdir()
    try:
        loc = pathlib.Path(d) / "cache.json"
        cache = CharacteristicCacheFile(loc)
        cache.async_create_or_update_map("aa:bb:cc:dd:ee:ff", 3, json.loads(json.dumps(emap)), "00ff", 9)
        cache.async_create_or_update_map("11:22:33:44:55:66", 1, [], None, None)
        valid = loc.read_bytes()
        kind = case["kind"]
        if kind == "prefixes":
            variants = [valid[:n] for n in range(0, len(valid))]
        else:
            variants = []
            for pos, repl in case["edits"]:
                b = bytearray(valid)
                b[pos % len(b)] = repl
                variants.append(bytes(b))
        n = 0
        R.nt(True)
        R.cls("corrupt:" + kind)
        for v in variants:
            # only corruptions that make the file unparsable are in the domain
            try:
                json.loads(v.decode("utf-8"))
                continue
            except (ValueError, UnicodeDecodeError):
                pass
            n += 1
            loc.write_bytes(v)
            try:
                c2 = CharacteristicCacheFile(loc)
            except Exception as e:  # noqa: BLE001
                R.fail("C20.corrupt-cache-fails-startup", f"{kind}: cache file of {len(v)} bytes ({v[-30:]!r} at the end): {type(e).__name__}: {e}", exc=type(e).__name__)
                return
            if c2.storage_data != {}:
                R.fail("C20.corrupt-cache-not-empty", f"{kind}: unparsable cache file loaded as {c2.storage_data!r:.200}")
                return
        R.sub = max(0, n - 1)
    finally:
        shutil.rmtree(d, ignore_errors=True)


# ---------------------------------------------------------------- strategies
ALIASES = st.one_of(st.sampled_from(["alias", "Küche Lampe", "a b c", "日本語", "x/y", "emoji \U0001F600", ""]),
                    st.text(min_size=1, max_size=12).filter(lambda s: "\ud800" > s[0] or True))
ALIASES = st.text(alphabet=st.characters(blacklist_categories=("Cs",)), min_size=0, max_size=12) | st.sampled_from(["alias", "Küche Lampe", "日本語 1", "emoji \U0001F600"])
CONNS = st.sampled_from(["IP", "IP", "CoAP", "BLE", None])


@st.composite
def pairing_sets(draw, min_size=0):
    n = draw(st.integers(min_size, 4))
    aliases = draw(st.lists(ALIASES, min_size=n, max_size=n, unique=True))
    return [[a, draw(CONNS), draw(st.sampled_from([0, 1, 2, 3, 0, 1, 2, 3, 4, 5, 6, 7]))] for a in aliases]


@st.composite
def crash_cases(draw):
    return {"old": draw(pairing_sets()), "new": draw(pairing_sets()), "old_exists": draw(st.booleans())}


FORMATS = ["bool", "uint8", "uint16", "uint32", "uint64", "int", "float", "string", "tlv8", "data"]


@st.composite
def entity_maps(draw):
    accs = []
    for ai in range(draw(st.integers(1, 3))):
        services = []
        iid = 1
        nserv = draw(st.integers(1, 4))
        siids = []
        for si in range(nserv):
            siid = iid
            iid += 1
            siids.append(siid)
            chars = []
            for ci in range(draw(st.integers(1, 4))):
                # standard types keep their native format (the library fills their declared ranges in); vendor types take any format
                ctype, fmt = draw(st.sampled_from([("23", "string"), ("25", "bool"), ("8", "int"), ("11", "float"), ("13", "float")] +
                                                  [(v, f) for v in ("0000FF01-0000-1000-8000-0026BB765291", "E863F10A-079E-48FF-8F27-9C2605A29F52") for f in FORMATS]))
                perms = draw(st.sampled_from([["pr"], ["pr", "pw"], ["pw"], ["pr", "pw", "ev"], ["pr", "ev"], ["pw", "tw"], []]))
                c = {"iid": iid, "type": ctype, "perms": perms, "format": fmt}
                iid += 1
                if "pr" in perms:
                    if fmt == "bool":
                        c["value"] = draw(st.sampled_from([True, False, None]))
                    elif fmt in ("string", "tlv8", "data"):
                        c["value"] = draw(st.sampled_from(["", "text ü", "AQID", None]))
                    elif fmt == "float":
                        c["value"] = draw(st.sampled_from([0.0, 21.5, -3.25, None, 100]))
                    elif fmt == "uint64":
                        # the format's whole range: beyond 2^53 a JSON stack that goes through doubles (or refuses them) loses the value
                        c["value"] = draw(st.sampled_from([0, 1, 2**32 - 1, 2**53 - 1, 2**53 + 1, 2**63 + 12345, 2**64 - 1, None]))
                    else:
                        c["value"] = draw(st.sampled_from([0, 1, 255, 65535, 2**32 - 1, None]))
                if fmt not in ("bool", "string", "tlv8", "data") and ctype not in ("8", "11", "13") and draw(st.booleans()):
                    c["minValue"] = draw(st.sampled_from([0, -100, 0.5, 10]))
                    c["maxValue"] = c["minValue"] + draw(st.sampled_from([1, 100, 1000.5]))
                    if draw(st.booleans()):
                        c["minStep"] = draw(st.sampled_from([1, 0.1, 5]))
                if fmt in ("uint8", "uint16", "uint32", "int") and draw(st.integers(0, 3)) == 0:
                    c["valid-values"] = draw(st.sampled_from([[0, 1], [0, 1, 2, 3], [2]]))
                if draw(st.integers(0, 3)) == 0:
                    c["handle"] = draw(st.integers(1, 500))
                if draw(st.integers(0, 3)) == 0:
                    c["broadcast_events"] = draw(st.booleans())
                if draw(st.integers(0, 3)) == 0:
                    c["disconnected_events"] = draw(st.booleans())
                if draw(st.integers(0, 3)) == 0:
                    c["unit"] = draw(st.sampled_from(["celsius", "percentage", "seconds"]))
                if draw(st.integers(0, 3)) == 0:
                    c["description"] = draw(st.sampled_from(["Name", "Beschreibung ü"]))
                chars.append(c)
            services.append({"iid": siid, "type": draw(st.sampled_from(["3E", "43", "8A", "00000096-0000-1000-8000-0026BB765291", "7F0DEE73-4A3F-4103-98E6-A46CD301BDFB"])),
                             "characteristics": chars})
        for s in services:
            if draw(st.integers(0, 2)) == 0:
                s["linked"] = draw(st.lists(st.sampled_from(siids + [0]), min_size=1, max_size=3, unique=True))
                s["linked"] = [x for x in s["linked"] if x != s["iid"]] or [0]
        accs.append({"aid": ai + 1, "services": services})
    return accs


@st.composite
def cache_cases(draw):
    ups = draw(st.lists(st.fixed_dictionaries({}, optional={"cn": st.integers(0, 2), "sn": st.one_of(st.none(), st.integers(0, 65535)),
                                                            "key": st.one_of(st.none(), st.binary(min_size=32, max_size=32)),
                                                            "value": st.one_of(st.integers(0, 200), st.sampled_from([2**53 + 1, 2**63 + 12345, 2**64 - 1]))}), max_size=3))
    return {"map": draw(entity_maps()), "config_num": draw(st.integers(0, 70000)), "state_num": draw(st.one_of(st.none(), st.integers(0, 65535))),
            "broadcast_key": draw(st.one_of(st.none(), st.binary(min_size=32, max_size=32))), "updates": ups, "via_controller": draw(st.booleans())}


def enum_fixtures(tier):
    for big in (2**53 - 1, 2**53 + 1, 2**63 + 12345, 2**64 - 1):
        m = [{"aid": 1, "services": [{"iid": 1, "type": "3E", "characteristics": [{"iid": 2, "type": "23", "perms": ["pr"], "format": "string", "value": "x"}]},
                                     {"iid": 8, "type": "7F0DEE73-4A3F-4103-98E6-A46CD301BDFB", "linked": [1], "characteristics": [
                                         {"iid": 9, "type": "0000FF01-0000-1000-8000-0026BB765291", "perms": ["pr", "pw"], "format": "uint64", "value": big}]}]}]
        yield {"map": m, "config_num": 2, "state_num": 1}
        m0 = json.loads(json.dumps(m))
        m0[0]["services"][1]["characteristics"][0]["value"] = 5
        yield {"map": m0, "config_num": 2, "state_num": 1, "updates": [{"value": big}]}
    for f in sorted(glob.glob(os.path.join(REPO, "tests", "fixtures", "*.json"))):
        yield {"fixture": os.path.basename(f), "config_num": 7, "state_num": 3, "broadcast_key": bytes(range(32))}
        yield {"fixture": os.path.basename(f), "config_num": 7, "state_num": 3, "broadcast_key": bytes(range(32)), "via_controller": True}
        yield {"fixture": os.path.basename(f), "config_num": 7, "state_num": 3, "broadcast_key": None, "updates": [{"sn": 42}, {"key": bytes(range(1, 33))}]}


def enum_crash(tier):
    sets = [[], [["a", "IP", 0]], [["Küche", "BLE", 2], ["b", "CoAP", 1]], [["a", "IP", 1], ["b", None, 0], ["日本", "BLE", 3]],
            [["admin", "IP", 0], ["guest", "IP", 4], ["old", "IP", 5]]]
    for old in sets:
        for new in sets:
            yield {"old": old, "new": new, "old_exists": True}
            if not old:
                yield {"old": old, "new": new, "old_exists": False}


@st.composite
def corrupt_cases(draw):
    m = draw(entity_maps())
    if draw(st.booleans()):
        return {"map": m, "kind": "prefixes"}
    return {"map": m, "kind": "edits", "edits": draw(st.lists(st.tuples(st.integers(0, 100000), st.sampled_from([0x7B, 0x7D, 0x22, 0x5B, 0x5D, 0x2C, 0x3A, 0x00, 0xFF, 0x5C, 0x20])).map(list),
                                                                 min_size=5, max_size=40))}


SPEC = Property(
    P, "fault_enumeration",
    rule=("pairing sets of 0..4 aliases (unicode, empty, spaces) over IP / CoAP / BLE / unspecified transport with optional fields; for every "
          "ordered pair (old set on disk, new set being saved): the save is aborted at every file-system effect (open/truncate, each write "
          "after every byte prefix, close, rename) and the file re-read by a fresh Controller. Accessory databases: generated entity maps (1..3 "
          "accessories, services with links incl. the 0 quirk, characteristics of every format with values/None, ranges, steps, valid-values, "
          "handles, event flags) and every JSON fixture of the suite, written through CharacteristicCacheFile and restored by a new pairing; "
          "every byte prefix of a cache file and structural byte edits that leave it unparsable. Evaluations count every crash point and every "
          "corrupted file. Non-trivial: all crash-point and corruption cases; round trips with >=2 pairings or non-ASCII aliases; databases with "
          ">=1 link and >=1 non-default value. uint64 values up to 2^64-1. BLE: a running pairing on a file cache sees 1..4 advertisements with rising "
          "configuration / state numbers (GATT table unchanged / new range / new link / new value), restart after every step."),
    layers=[
        Layer("save-crash-points", run_crash, enumerate=enum_crash, exhaustive=True,
              space="4 x 4 (old, new) pairing sets (+ first save without a file) x every effect x every write prefix", min_nontrivial=10),
        Layer("save-crash-points-gen", run_crash, strategy=crash_cases, n={"quick": 64, "thorough": 1500}, min_nontrivial=20),
        Layer("pairings-roundtrip", run_roundtrip, strategy=lambda: st.builds(lambda s, n: {"set": s, "nested_dir": n}, pairing_sets(), st.booleans()),
              n={"quick": 600, "thorough": 12000}, min_nontrivial=100),
        Layer("cache-fixtures", run_cache, enumerate=enum_fixtures, exhaustive=True, space="every tests/fixtures/*.json entity map"),
        Layer("cache-roundtrip", run_cache, strategy=cache_cases, n={"quick": 800, "thorough": 20000}, min_nontrivial=50),
        Layer("ip-config-number-fixed", run_ip_config, enumerate=enum_ip_config, exhaustive=True, space="5 sequences of discovery updates with configuration numbers (database changing or not), with / without first contact"),
        Layer("ip-config-number", run_ip_config, strategy=ip_config_cases, n={"quick": 300, "thorough": 3000}, min_nontrivial=20),
        Layer("ble-config-number-fixed", run_ble_config, enumerate=enum_ble_config, exhaustive=True,
              space="13 sequences of advertisements with rising configuration numbers (database unchanged / new range / new link / new value), restart after every step"),
        Layer("ble-config-number", run_ble_config, strategy=ble_config_cases, n={"quick": 240, "thorough": 3000}, min_nontrivial=20),
        Layer("ble-state-number-fixed", run_ble_state, enumerate=enum_ble_state, exhaustive=True, space="4 state-number sequences incl. the 65535 -> 1 roll-over, restart after every advertisement"),
        Layer("ble-state-number", run_ble_state, strategy=ble_state_cases, n={"quick": 200, "thorough": 4000}, min_nontrivial=20),
        Layer("cache-corrupt", run_corrupt_cache, strategy=corrupt_cases, n={"quick": 48, "thorough": 800}, min_nontrivial=10),
    ],
    assumptions=["process crash with a surviving OS; written bytes sit in the file object's buffer until flush/close and any prefix of them may have reached the OS at the crash; rename is atomic; no reordering after power loss",
                 "the first save has nothing to preserve: 'old' is then the empty set",
                 "cache corruption domain: files that a reference JSON parser rejects"],
    min_nontrivial=300,
)

"""C04 - an accessory error or out-of-sequence reply never completes as success (DESIGN 4/C04).

Layer 1 (this file, generator level): the finite decision table step x state x error x subset of the other fields x field order x
decode style, executed against the real protocol generators with a real exchange prefix from the reference accessory.
Layers for add-/remove-pairing on IP and BLE live in the transport simulations (props/c04 imports them when present)."""
import itertools
import os

from aiohomekit import exceptions as X
from aiohomekit.protocol import get_session_keys, perform_pair_setup_part1, perform_pair_setup_part2
from aiohomekit.protocol.tlv import TLV
from props.c01 import World as VerifyWorld
from props.c01 import ephemeral, h
from props.c03 import injected
from vlib import refhap
from vlib.refhap import T_ENC, T_ERROR, T_PK, T_PROOF, T_SALT, T_STATE, RefIdentity, RefPairSetup, RefPairVerify, tlv_enc
from vlib.runner import Layer, Property

P = "C04"
SEED = int(os.environ.get("VERIF_SEED") or 1)

STEPS = {  # step -> (expected state, other defined fields in spec order)
    "setup-M2": (2, [T_PK, T_SALT]),
    "setup-M4": (4, [T_PROOF, T_ENC]),
    "setup-M6": (6, [T_ENC]),
    "verify-M2": (2, [T_PK, T_ENC]),
    "verify-M4": (4, []),
}
REQUIRED = {"setup-M2": {T_PK, T_SALT}, "setup-M4": {T_PROOF}, "setup-M6": {T_ENC}, "verify-M2": {T_PK, T_ENC}, "verify-M4": set()}
ERRORS = {"absent": None, "1": b"\x01", "2": b"\x02", "3": b"\x03", "4": b"\x04", "5": b"\x05", "6": b"\x06", "7": b"\x07",
          "0": b"\x00", "8": b"\x08", "255": b"\xff", "2-byte": b"\x02\x00", "empty": b""}
CLASS_BY_CODE = {"2": X.AuthenticationError, "3": X.BackoffError, "4": X.MaxPeersError, "5": X.MaxTriesError, "6": X.UnavailableError,
                 "7": X.BusyError}


def expected_class(err):
    return CLASS_BY_CODE.get(err, X.InvalidError)


def decode(style, raw, exp):
    return TLV.decode_bytes(raw) if style == "ble" else TLV.decode_bytes(raw, expected=exp)


def wire(req):
    return refhap.tlv_dec(bytes(TLV.encode_list(req)))


ODD_STATES = ["empty", "exp+byte", "dup-adjacent", "255"]     # State item of length 0; expected value followed by another byte; two adjacent State items


def state_items(state, exp_state):
    if state == "absent":
        return []
    if state == "expected":
        return [(T_STATE, bytes([exp_state]))]
    if state == "empty":
        return [(T_STATE, b"")]
    if state == "exp+byte":
        return [(T_STATE, bytes([exp_state, 2]))]
    if state == "dup-adjacent":
        return [(T_STATE, bytes([exp_state])), (T_STATE, bytes([exp_state + 1]))]
    return [(T_STATE, bytes([int(state)]))]


def norm_state(state, exp_state):
    return "expected" if state.isdigit() and int(state) == exp_state else state


def build_reply(step, state, err, subset, order, valid, stranger="none", where="front"):
    if stranger != "none":
        inner = build_reply(step, state, err, subset, order, valid)
        return STRANGERS[stranger] + inner if where == "front" else inner[:1] + STRANGERS[stranger] + inner[1:]
    exp_state, others = STEPS[step]
    items = state_items(state, exp_state)
    if ERRORS[err] is not None:
        items.append((T_ERROR, ERRORS[err]))
    for t in others:
        if t in subset:
            items.append((t, valid[t]))
    if order == "reversed":
        items.reverse()
    return items


# an item the step does not define, in front of everything else: RetryDelay (it accompanies a Backoff error in the specification), a vendor item,
# a separator.  "whichever other fields the reply does or does not carry"
STRANGERS = {"none": [], "retry-delay": [(0x08, b"\x1e")], "vendor": [(0xF0, b"\x01\x02")], "retry+vendor": [(0x08, b"\x1e\x00"), (0xF0, b"")], "separator": [(0xFF, b"")],
             "vendor-255": [(0xF0, bytes(255))], "vendor-510": [(0xF1, bytes(range(255)) * 2)]}      # a value of exactly k x 255 bytes: its last fragment is a full one


def run_cell(case, R):
    step, state, err, order, style = case["step"], case["state"], case["err"], case["order"], case["decode"]
    stranger, where = case.get("stranger", "none"), case.get("where", "front")
    subset = set(case["subset"])
    k = case.get("k", 0)
    exp_state = STEPS[step][0]
    state = norm_state(state, exp_state)
    error_present = ERRORS[err] is not None
    complete = REQUIRED[step] <= subset
    control = not error_present and state in ("expected", "absent") and complete
    R.nt(error_present or state not in ("expected", "absent"))
    R.cls("step:" + step, "control" if control else ("error-cell" if error_present else ("wrong-state" if state not in ("expected", "absent") else "incomplete")))
    what = f"{step} state={state} error={err} fields={sorted(subset)} order={order} decode={style}" + (f" unexpected item(s) {stranger} at the {where}" if stranger != "none" else "")
    if stranger != "none":
        R.cls("stranger:" + stranger)
    outcome = None      # ("ok", value) | ("raise", exc)
    ident = RefIdentity(b"AA:BB:CC:DD:EE:FF", h("acc-ltsk", k))
    try:
        if step.startswith("setup"):
            code = "123-45-678"
            salt = h("salt", k)[:16]
            acc = RefPairSetup(ident, code, salt, int.from_bytes(h("b", k)[:16], "big") | 1)
            with injected(int.from_bytes(h("a", k)[:16], "big") | 1, h("ios-ltsk", k)):
                g1 = perform_pair_setup_part1(True)
                req, exp = g1.send(None)
                m2 = dict(acc.m2())
                if step == "setup-M2":
                    reply = build_reply(step, state, err, subset, order, m2, stranger, where)
                    try:
                        g1.send(decode(style, tlv_enc(reply), exp))
                        outcome = ("ok", "yielded")
                    except StopIteration as r:
                        outcome = ("ok", r.value)
                else:
                    try:
                        g1.send(decode(style, tlv_enc(acc.m2()), exp))
                    except StopIteration as r:
                        s_salt, s_pk = r.value
                    g2 = perform_pair_setup_part2(code, "ios-id", s_salt, s_pk)
                    req, exp = g2.send(None)
                    m4 = dict(acc.handle_m3(wire(req)))
                    assert acc.m3_ok, "harness: reference rejected honest M3"
                    if step == "setup-M4":
                        m4[T_ENC] = b"\x00" * 40      # optional MFi blob; its content is not interpreted
                        reply = build_reply(step, state, err, subset, order, m4, stranger, where)
                        try:
                            g2.send(decode(style, tlv_enc(reply), exp))
                            outcome = ("ok", "yielded M5")
                        except StopIteration as r:
                            outcome = ("ok", r.value)
                    else:
                        req, exp = g2.send(decode(style, tlv_enc([(T_STATE, b"\x04"), (T_PROOF, acc.srp.M2)]), exp))
                        m6 = dict(acc.handle_m5(wire(req)))
                        assert acc.m5_ok, "harness: reference rejected honest M5"
                        reply = build_reply(step, state, err, subset, order, m6, stranger, where)
                        try:
                            g2.send(decode(style, tlv_enc(reply), exp))
                            outcome = ("ok", "yielded")
                        except StopIteration as r:
                            outcome = ("ok", r.value)
        else:
            vw = VerifyWorld({"acc_id": "AA:BB:CC:DD:EE:FF", "ios_id": "ios-id", "k": k})
            acc = RefPairVerify(vw.ident, h("acc-eph", k))
            with ephemeral(h("ios-eph", k)):
                g = get_session_keys(vw.pairing_data)
                req, exp = g.send(None)
                m2 = acc.handle_m1(wire(req))
                if step == "verify-M2":
                    reply = build_reply(step, state, err, subset, order, dict(m2), stranger, where)
                    try:
                        g.send(decode(style, tlv_enc(reply), exp))
                        outcome = ("ok", "yielded M3")
                    except StopIteration as r:
                        outcome = ("ok", r.value)
                else:
                    req, exp = g.send(decode(style, tlv_enc(m2), exp))
                    acc.handle_m3(wire(req))
                    assert acc.verified, "harness: reference rejected honest M3"
                    reply = build_reply(step, state, err, subset, order, {}, stranger, where)
                    try:
                        g.send(decode(style, tlv_enc(reply), exp))
                        outcome = ("ok", "yielded")
                    except StopIteration as r:
                        outcome = ("ok", r.value)
    except AssertionError:
        raise
    except Exception as e:  # noqa: BLE001
        outcome = ("raise", e)

    kind, val = outcome
    if control and stranger != "none":
        return          # an error-free reply with an item the step does not define: accepting or refusing it is not this property's business
    if control:
        if kind != "ok":
            R.fail("C04.control-cell-fails", f"{what}: complete error-free reply failed with {type(val).__name__}: {val}", step=step)
        return
    if not error_present and state in ("expected", "absent"):
        return      # incomplete reply without an error: not constrained by this property
    if kind == "ok":
        R.fail("C04.error-reply-succeeds", f"{what}: completed as success ({val!r:.80})", step=step,
               state="absent" if state == "absent" else ("expected" if state == "expected" else "wrong"))
        return
    if state in ("expected", "absent"):
        want = expected_class(err)
        if type(val) is not want:
            R.fail("C04.wrong-exception-class", f"{what}: raised {type(val).__name__} ({val}), documented class is {want.__name__}",
                   step=step, state=state, decode=style if step == "verify-M2" else "any")
    else:
        allowed = (X.InvalidError, expected_class(err)) if error_present else (X.InvalidError,)
        if type(val) not in allowed:
            R.fail("C04.wrong-exception-class", f"{what}: raised {type(val).__name__} ({val}), expected one of {[c.__name__ for c in allowed]}",
                   step=step, state="wrong", decode="any")


def run_resume_cell(case, R):
    """verify M2 of a *resumed* exchange (only the BLE-style decode can see it): a valid resume reply that also carries an error code
    or a wrong step number must not yield keys."""
    from props.c01 import check_honest, run_exchange
    from vlib.refhap import T_METHOD, T_SESSIONID
    state, err, order = case["state"], case["err"], case["order"]
    state = norm_state(state, 2)
    error_present = ERRORS[err] is not None
    control = not error_present and state in ("expected", "absent")
    R.nt(not control)
    R.cls("step:verify-M2-resume", "control" if control else "error-cell")
    vw = VerifyWorld({"acc_id": "AA:BB:CC:DD:EE:FF", "ios_id": "ios-id", "k": case.get("k", 0)})
    first = run_exchange(vw, ("c04-resume", case.get("k", 0), 0), "ble")
    got = check_honest(R, vw, first, "initial full verify")
    if got is None:
        return
    sid, derive = got

    def hook(acc, honest):
        assert acc.resumed, "harness: accessory did not resume"
        items = [(t, v) for t, v in honest if t != T_STATE]
        head = state_items(state, 2)
        if ERRORS[err] is not None:
            head.append((T_ERROR, ERRORS[err]))
        items = head + items
        if order == "reversed":
            items.reverse()
        return tlv_enc(items)
    out = run_exchange(vw, ("c04-resume", case.get("k", 0), 1), "ble", hook, session_id=sid, derive=derive)
    what = f"resumed verify-M2 state={state} error={err} order={order}"
    if control:
        if out["result"] is None:
            R.fail("C04.control-cell-fails", f"{what}: {type(out['exc']).__name__}: {out['exc']}", step="verify-M2-resume")
        return
    if out["result"] is not None or (out["exc"] is None):
        R.fail("C04.error-reply-succeeds", f"{what}: completed as success", step="verify-M2-resume", state="absent" if state == "absent" else ("expected" if state == "expected" else "wrong"))
        return
    val = out["exc"]
    if state in ("expected", "absent"):
        want = expected_class(err)
        if type(val) is not want:
            R.fail("C04.wrong-exception-class", f"{what}: raised {type(val).__name__} ({val}), documented class is {want.__name__}", step="verify-M2-resume", state=state, decode="ble")
    elif type(val) not in ((X.InvalidError, expected_class(err)) if error_present else (X.InvalidError,)):
        R.fail("C04.wrong-exception-class", f"{what}: raised {type(val).__name__} ({val})", step="verify-M2-resume", state="wrong", decode="ble")


def enum_strangers(tier):
    """Complete replies (all defined fields of the step) with an item the step does not define in front of them / behind State."""
    i = 0
    for step, (exp_state, others) in STEPS.items():
        for state in ("expected", "absent", str(exp_state + 1)):
            for err in ("absent", "2", "3", "6", "8"):
                for stranger in [k for k in STRANGERS if k != "none"]:
                    for where in ("front", "after-state"):
                        for style in ("ip", "ble"):
                            i += 1
                            yield {"step": step, "state": state, "err": err, "subset": list(others), "order": "spec", "decode": style, "k": SEED * 31 + (i % 5),
                                   "stranger": stranger, "where": where}


def enum_resume_table(tier):
    for state in ["absent", "expected"] + [str(s) for s in range(0, 8) if s != 2] + ODD_STATES:
        for err in ERRORS:
            for order in ("spec", "reversed"):
                yield {"state": state, "err": err, "order": order, "k": SEED}


def enum_table(tier):
    i = 0
    for step, (exp_state, others) in STEPS.items():
        states = ["absent", "expected"] + [str(s) for s in range(0, 8) if s != exp_state] + ODD_STATES
        subsets = [list(c) for n in range(len(others) + 1) for c in itertools.combinations(others, n)]
        heavy = step in ("setup-M4", "setup-M6")
        for state in states:
            for err in ERRORS:
                for subset in subsets:
                    combos = [("spec", "ip"), ("reversed", "ble"), ("spec", "ble"), ("reversed", "ip")]
                    if heavy and tier == "quick":
                        combos = combos[:2]
                    for order, style in combos:
                        i += 1
                        yield {"step": step, "state": state, "err": err, "subset": subset, "order": order, "decode": style, "k": SEED * 31 + (i % 5)}


from props.ble_layers import C04_BLE_LAYERS, C04_IP_LAYERS  # noqa: E402

SPEC = Property(
    P, "fault_enumeration",
    rule=("decision table: step in {setup M2, M4, M6; verify M2, M4} x state in {absent, expected, every other value 0..7, 255, zero-length, expected value plus a second byte, two adjacent State items} x error in "
          "{absent, 0x01..0x07, 0x00, 0x08, 0xFF, two-byte, empty} x every subset of the step's other defined fields (valid contents from "
          "the reference accessory after a real exchange prefix) x field order {spec, reversed} x decode style {IP/CoAP expected list, "
          "BLE}. Non-trivial: every cell with an error code or a wrong state; the error-free complete cells are controls that must "
          "succeed. Add-/remove-pairing cells on IP and BLE are in the layers named ip-pairings / ble-pairings."),
    layers=[
        Layer("protocol-table", run_cell, enumerate=enum_table, exhaustive=True,
              space="5 steps x 13 states x 13 errors x 2^|other fields| x 4 (order, decode) combinations (quick: 2 combinations for setup M4/M6)", min_nontrivial=3000),
        Layer("unexpected-items", run_cell, enumerate=enum_strangers, exhaustive=True,
              space="5 steps x 3 states x 5 errors x 6 kinds of undefined item (RetryDelay, vendor, both, separator, values of 255 and 510 bytes) x 2 positions x 2 decode styles, all defined fields present"),
        Layer("resume-table", run_resume_cell, enumerate=enum_resume_table, exhaustive=True,
              space="verify M2 of a resumed exchange: 13 states x 13 errors x 2 orders on top of a valid resume reply", min_nontrivial=200),
        *C04_BLE_LAYERS,
        *C04_IP_LAYERS,
    ],
    assumptions=["fields not defined for a step are not generated before State/Error (tests/test_protocol_tlv.py::test_filter pins the "
                 "expected-filter as stop-at-first-unexpected)",
                 "a wrong state together with an error may raise InvalidError or the error's class"],
    min_nontrivial=3000,
)

"""C07 - HTTP/EVENT message parsing is independent of stream segmentation (DESIGN 4/C07)."""
import itertools

from hypothesis import strategies as st

from aiohomekit.controller.ip.connection import HomeKitConnection, InsecureHomeKitProtocol
from vlib import vtime
from vlib.runner import Layer, Property

P = "C07"


# ---------------------------------------------------------------- reference serialiser (the generator's own message list)
def serialise(m):
    """Returns (bytes, expected tuple, interesting cut positions relative to the message start)."""
    version = "HTTP/1.1" if m["kind"] == "HTTP" else "EVENT/1.0"
    out = bytearray(f"{version} {m['code']} {m['reason']}\r\n".encode())
    hdrs = [list(h) for h in m["headers"]]
    body = bytes(m["body"])
    mode = m["mode"]
    if mode == "cl":
        hdrs.insert(min(m.get("lenpos", 0), len(hdrs)), [m.get("clname", "Content-Length"), str(len(body)), "", ""])
    elif mode == "chunked":
        hdrs.insert(min(m.get("lenpos", 0), len(hdrs)), [m.get("tename", "Transfer-Encoding"), "chunked", "", ""])
    else:
        body = b""
    for name, value, pl, pr in hdrs:
        out += f"{name}:{pl}{value}{pr}\r\n".encode()
    marks = {len(out), len(out) + 1, len(out) + 2}       # around the blank line that ends the headers
    out += b"\r\n"
    if mode == "cl":
        out += body
    elif mode == "chunked":
        i = 0
        sizes = list(m.get("chunks") or [])
        k = 0
        while i < len(body):
            n = sizes[k % len(sizes)] if sizes else len(body) - i
            n = max(1, min(n, len(body) - i))
            k += 1
            fmt = m.get("hexfmt", "x")
            line = (format(n, "x") if fmt == "x" else format(n, "X") if fmt == "X" else "0" + format(n, "x")).encode()
            marks |= {len(out), len(out) + len(line), len(out) + len(line) + 1}
            out += line + b"\r\n" + body[i:i + n]
            marks |= {len(out), len(out) + 1}
            out += b"\r\n"
            i += n
        marks |= {len(out), len(out) + 1, len(out) + 2, len(out) + 3, len(out) + 4}
        out += m.get("lastchunk", "0").encode() + b"\r\n\r\n"       # last-chunk = 1*("0") (RFC 7230 4.1)
    exp = (m["kind"], version, m["code"], m["reason"], [(n.lower(), v) for n, v, _, _ in hdrs], body)
    return bytes(out), exp, marks


class _Fut:
    def __init__(self, log, abandoned=False):
        self.log = log
        self._done = abandoned          # the caller gave up (cancelled / timed out) while the request was queued: as asyncio's future, done already
        self.abandoned = abandoned

    def done(self):
        return self._done

    def set_result(self, resp):
        if self._done:
            import asyncio
            raise asyncio.InvalidStateError("invalid state")
        self._done = True
        self.log.append(("HTTP", resp))

    def set_exception(self, exc):
        self._done = True
        self.log.append(("EXC", exc))


class _Owner:
    """Stands where the pairing stands: takes the parsed events the connection hands on."""
    name = "sim"          # (whatever the protocol layers read from their owner has to exist: a missing attribute would end a case with an
    #                        AttributeError that looks like the session being torn down)

    def event_received(self, parsed):
        pass


class _Conn(HomeKitConnection):
    """The real connection object (so that anything the protocol reads from it exists) with the two callbacks recorded."""

    def __init__(self, log):
        super().__init__(_Owner(), ["10.0.0.1"], 51826)
        self.log = log

    def event_received(self, ev):
        self.log.append(("EVENT", ev))
        # then what the connection itself does with an event (decode, parse, hand on): whatever the body is, the feeding loop goes on
        super().event_received(ev)

    def _connection_lost(self, exc):
        pass


def norm(kind, r):
    return (kind, r.version, r.code, r.reason, [(n.lower(), v) for n, v in r.headers], bytes(r.body))


class _SinkTransport:
    def is_closing(self):
        return False

    def writelines(self, lines):
        pass

    def write(self, data):
        pass

    def write_eof(self):
        pass

    def close(self):
        pass

    def get_write_buffer_size(self):
        return 0


async def feed(stream, cuts, n_http, sends=(), abandoned=()):
    """sends: indices into the read sequence after which the application issues a request of its own (a message that is half received at
    that moment must still be completed by the bytes that follow)."""
    import asyncio
    log = []
    p = InsecureHomeKitProtocol(_Conn(log))
    p.transport = _SinkTransport()
    # two spare waiters reveal a response that is delivered twice; with sends of our own there are none, so that the protocol
    # really has nothing outstanding when only EVENT messages are left
    p.result_cbs = [_Fut(log, abandoned=i in abandoned) for i in range(n_http + (0 if sends else 2))]
    pos = 0
    tasks = []
    for i, c in enumerate(list(cuts) + [len(stream)]):
        if c <= pos:
            continue
        p.data_received(stream[pos:c])
        pos = c
        if i in sends and pos < len(stream):
            tasks.append(asyncio.ensure_future(p.send_bytes(b"GET /x HTTP/1.1\r\n\r\n")))
            await asyncio.sleep(0)
    for t in tasks:
        t.cancel()
    if tasks:
        await asyncio.gather(*tasks, return_exceptions=True)
    return [norm(k, r) if k != "EXC" else (k, repr(r)) for k, r in log], sum(1 for f in p.result_cbs if not f.done() and isinstance(f, _Fut))


def run_case(case, R):
    msgs = case["msgs"]
    parts = [serialise(m) for m in msgs]
    stream = b"".join(p[0] for p in parts)
    expected = [p[1] for p in parts]
    n_http = sum(1 for m in msgs if m["kind"] == "HTTP")
    abandoned = {int(a) % n_http for a in case.get("abandoned", ())} if n_http else set()
    if abandoned:
        # responses to requests whose callers have gone are consumed and dropped; everything else is delivered as before
        R.cls("abandoned-waiters")
        k_ = -1
        keep = []
        for m_, e_ in zip(msgs, expected):
            if m_["kind"] == "HTTP":
                k_ += 1
                if k_ in abandoned:
                    continue
            keep.append(e_)
        expected = keep
    marks = set()
    base = 0
    for raw, _, mk in parts:
        marks |= {base + x for x in mk}
        base += len(raw)
    cuts = case["cuts"]
    if cuts == "all1":
        cutsets = [[c] for c in range(1, len(stream))]
    elif cuts == "all2":
        cutsets = [list(c) for c in itertools.combinations(range(1, len(stream)), 2)]
    elif cuts == "drip":
        cutsets = [list(range(1, len(stream)))]
    else:
        cutsets = [sorted({int(c) % max(1, len(stream)) for c in cuts} - {0})]
    cutsets.append([])
    R.nt(len(msgs) >= 2 or cuts in ("all1", "all2", "drip") or any(c in marks for cs in cutsets for c in cs))
    R.cls(f"msgs={len(msgs)}", "cuts:" + (cuts if isinstance(cuts, str) else f"random{min(len(cutsets[0]), 5)}"))
    for m in msgs:
        R.cls("mode:" + m["mode"], "kind:" + m["kind"])
    R.sub = len(cutsets) - 1

    async def go():
        for cs in cutsets:
            try:
                got, unresolved = await feed(stream, cs, n_http, case.get("sends", ()), abandoned)
            except Exception as e:  # noqa: BLE001
                R.fail("C07.parser-raises", f"cuts {cs[:6]} of {stream[:300]!r}: {type(e).__name__}: {e}", exc=type(e).__name__)
                return
            if got != expected:
                R.fail("C07.messages-differ", f"cuts {cs[:6]} of {stream[:300]!r}: delivered {got!r:.500} expected {expected!r:.500}",
                       modes="+".join(sorted({m['mode'] for m in msgs})))
                return
            spare = 0 if case.get("sends") else 2
            if unresolved != spare:
                R.fail("C07.messages-differ", f"cuts {cs[:6]}: {unresolved - spare} responses not delivered", modes="count")
                return
    vtime.run_shared(go())


# ---------------------------------------------------------------- strategies
TOKEN = st.text(alphabet="abcdefghijklmnopqrstuvwxyzABCDEFGHIJKLMNOPQRSTUVWXYZ-", min_size=1, max_size=12).filter(
    lambda s: s.lower() not in ("content-length", "transfer-encoding"))
VALUE = st.text(alphabet="abcdefghijklmnopqrstuvwxyzABCXYZ0123456789/+;=:,. -_", min_size=0, max_size=24).map(str.strip)
KNOWN_HDR = st.sampled_from([["Content-Type", "application/hap+json"], ["content-type", "application/pairing+tlv8"],
                             ["CONTENT-TYPE", "text/html"], ["Connection", "keep-alive"], ["Date", "Tue, 15 Nov 1994 08:12:31 GMT"],
                             ["Server", "x"]])


@st.composite
def message(draw, small=False):
    kind = draw(st.sampled_from(["HTTP", "HTTP", "EVENT"]))
    code = draw(st.one_of(st.sampled_from([200, 204, 207, 400, 404, 422, 470, 500]), st.integers(100, 599)))
    reason = " ".join(draw(st.lists(st.sampled_from(["OK", "No", "Content", "Multi-Status", "Not", "Found", "x"]), min_size=1, max_size=4)))
    nh = draw(st.integers(0, 2 if small else 6))
    headers = []
    for _ in range(nh):
        name, value = draw(st.one_of(KNOWN_HDR, st.tuples(TOKEN, VALUE).map(list)))
        pl = draw(st.sampled_from(["", " ", "  ", "\t"]))
        pr = draw(st.sampled_from(["", "", " "]))
        headers.append([name, value, pl, pr])
    mode = draw(st.sampled_from(["cl", "cl", "chunked", "chunked", "none"]))
    if small:
        body = draw(st.one_of(st.binary(max_size=10), st.sampled_from([b"ping", b"{x", b"{}"])))
    else:
        body = draw(st.one_of(st.binary(max_size=40), st.sampled_from([b"", b"0\r\n", b"\r\n", b"0\r\n\r\n", b"a\r\nb", b"5\r\nhello\r\n", b"ping", b"{not json", b'{"characteristics":[]}', b"[1,", b"nul\x00l"]),
                              st.integers(0, 3000).map(lambda n: bytes((i * 31 + n) & 0xFF for i in range(n)))))
    m = {"kind": kind, "code": code, "reason": reason, "headers": headers, "mode": mode, "body": body,
         "lenpos": draw(st.integers(0, 6)),
         "clname": draw(st.sampled_from(["Content-Length", "content-length", "CONTENT-LENGTH", "Content-length"])),
         "tename": draw(st.sampled_from(["Transfer-Encoding", "transfer-encoding", "TRANSFER-ENCODING"]))}
    if mode == "chunked":
        m["chunks"] = draw(st.lists(st.one_of(st.integers(1, 20), st.integers(1, 700)), min_size=0, max_size=5))
        m["hexfmt"] = draw(st.sampled_from(["x", "X", "0x"]))
        m["lastchunk"] = draw(st.sampled_from(["0", "0", "0", "00", "000", "0000"]))
    return m


@st.composite
def random_cut_cases(draw):
    msgs = draw(st.lists(message(), min_size=1, max_size=5))
    mode = draw(st.integers(0, 9))
    if mode == 0:
        cuts = "drip"
    else:
        cuts = draw(st.lists(st.integers(1, 20000), min_size=0, max_size=12))
    sends = draw(st.lists(st.integers(0, 12), max_size=3)) if draw(st.integers(0, 2)) == 0 else []
    abandoned = draw(st.lists(st.integers(0, 4), max_size=2)) if draw(st.integers(0, 3)) == 0 else []
    return {"msgs": msgs, "cuts": cuts, "sends": sends, "abandoned": abandoned}


@st.composite
def all_cut_cases(draw, which):
    if which == "all1":
        msgs = draw(st.lists(message(small=False), min_size=1, max_size=3))
        total = sum(len(serialise(m)[0]) for m in msgs)
        if total > 1500:
            msgs = msgs[:1]
            if len(serialise(msgs[0])[0]) > 1500:
                msgs[0] = dict(msgs[0], body=bytes(msgs[0]["body"])[:200])
    else:
        msgs = draw(st.lists(message(small=True), min_size=1, max_size=2))
    # in a third of the cases the application sends a request right after the first read
    return {"msgs": msgs, "cuts": which, "sends": [0] if draw(st.integers(0, 2)) == 0 else [],
            "abandoned": draw(st.lists(st.integers(0, 2), min_size=1, max_size=2)) if draw(st.integers(0, 3)) == 0 else []}


def run_secure(case, R):
    """The same message streams as the accessory really delivers them: inside encrypted frames, the ciphertext split across reads
    (oracle and harness of C05's inbound layers; a failure is reported under the C05 clause names)."""
    from props.c05 import run_inbound
    run_inbound(case, R)


def secure_cases():
    from props.c05 import inbound_cases
    return inbound_cases("random")


SPEC = Property(
    P, "exploration",
    rule=("1..5 well-formed HTTP/1.1 and EVENT/1.0 messages (status codes, 0..6 headers with casing and whitespace variants, body by "
          "Content-Length / chunked with arbitrary chunk sizes and hex casing / body-less; arbitrary body bytes incl. CRLF and '0\\r\\n') "
          "fed through InsecureHomeKitProtocol.data_received under: every single cut (layer all1), every pair of cuts (layer all2, small "
          "streams), 1-byte drip and random 0..12 cuts. One case = one message sequence with its cut family; evaluations count every "
          "(sequence, segmentation) pair. Non-trivial: >=2 messages, or an exhaustive/drip cut family, or a cut inside a CRLF, a "
          "chunk-size line or at the end of the headers."),
    layers=[
        Layer("all-single-cuts", run_case, strategy=lambda: all_cut_cases("all1"), n={"quick": 400, "thorough": 6000}, min_nontrivial=100),
        Layer("all-double-cuts", run_case, strategy=lambda: all_cut_cases("all2"), n={"quick": 96, "thorough": 1600}, min_nontrivial=30),
        Layer("random-cuts", run_case, strategy=random_cut_cases, n={"quick": 6000, "thorough": 200000}, min_nontrivial=1000),
        Layer("through-secure-session", run_secure, strategy=secure_cases, n={"quick": 400, "thorough": 8000}, min_nontrivial=50),
    ],
    assumptions=["only well-formed messages: no chunk extensions, no trailers, 'chunked' in lower case, reason phrase present",
                 "header names compared case-insensitively, values after stripping optional whitespace"],
    min_nontrivial=1000,
)

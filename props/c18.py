"""C18 - BLE broadcast notifications are accepted only if authentic and fresh (DESIGN 4/C18)."""
import asyncio
import struct

from bleak.backends.device import BLEDevice
from bleak.backends.scanner import AdvertisementData
from hypothesis import strategies as st

from aiohomekit.characteristic_cache import CharacteristicCacheMemory
from aiohomekit.controller.ble.controller import BleController
from vlib import refhap, vtime
from vlib.runner import Layer, Property

P = "C18"
DEVICE_ID = bytes.fromhex("aabbccddeeff")
OTHER_ID = bytes.fromhex("112233445566")
KEY = bytes(range(50, 82))
WRONG_KEY = bytes(range(90, 122))
ADDRESS = "00:11:22:33:44:55"
FORMATS = {  # iid -> (format, struct code, size)
    10: ("bool", "?", 1), 11: ("uint8", "B", 1), 12: ("uint16", "<H", 2), 13: ("uint32", "<I", 4), 14: ("uint64", "<Q", 8), 15: ("int", "<i", 4),
    16: ("float", "<f", 4)}
DB = [{"aid": 1, "services": [
    {"iid": 1, "type": "3E", "characteristics": [{"iid": 2, "type": "23", "perms": ["pr"], "format": "string", "value": "Sim"}]},
    {"iid": 8, "type": "0000FF00-0000-1000-8000-0026BB765291", "characteristics": [
        {"iid": iid, "type": "0000FF%02X-0000-1000-8000-0026BB765291" % iid, "perms": ["pr", "ev"], "format": f[0], "broadcast_events": True}
        for iid, f in FORMATS.items()]}]}]
PD = {"AccessoryPairingID": "AA:BB:CC:DD:EE:FF", "AccessoryLTPK": "00" * 32, "iOSPairingId": "ios", "iOSDeviceLTSK": "11" * 32, "iOSDeviceLTPK": "22" * 32,
      "AccessoryAddress": ADDRESS, "Connection": "BLE"}


def regular_adv(gsn, device_id=DEVICE_ID, cn=1):
    # type 0x06, STL, SF, device id(6), ACID(2), GSN(2), CN(1), CV(1), setup hash(4)
    return bytes([0x06, 0x31, 0x00]) + device_id + struct.pack("<HHBB", 5, gsn & 0xFFFF, cn, 2) + b"\x01\x02\x03\x04"


def notification(key, adv_id, nonce_gsn, inner_gsn, iid, value8, aad_id=None):
    pt = struct.pack("<HH", inner_gsn & 0xFFFF, iid) + value8
    full = refhap.aead_enc(key, refhap.nonce(ctr=nonce_gsn), pt, aad_id if aad_id is not None else adv_id)
    return bytes([0x11, 0x36]) + adv_id + full[:len(pt)] + full[len(pt):len(pt) + 4]


def value_bytes(iid, sel):
    fmt, code, size = FORMATS[iid]
    if fmt == "bool":
        v = bool(sel & 1)
    elif fmt == "float":
        v = [0.0, 21.5, -3.25, 100.0][sel % 4]
    elif fmt == "int":
        v = [0, -1, 2**31 - 1, -2**31, sel][sel % 5]
    else:
        top = (1 << (8 * size)) - 1
        v = [0, 1, top, top - 1, sel & top][sel % 5]
    raw = struct.pack(code, v)
    return v, raw + bytes(8 - len(raw))


def run_case(case, R):
    g0 = case["g0"]
    events = case["events"]
    kinds = [e[0] for e in events]
    R.nt(any(k in ("replay-current", "older", "wrong-key", "wrong-aad", "flip", "inner-mismatch", "flip-all", "other-device") for k in kinds)
         and any(k in ("next", "skip") for k in kinds))
    for k in set(kinds):
        R.cls("adv:" + k)

    async def main(loop):
        class Cache(CharacteristicCacheMemory):
            fail_writes = False         # armed while a notification is being handled: the storage behind the cache is gone

            def async_create_or_update_map(self, *a, **kw):
                if Cache.fail_writes:
                    raise OSError(28, "simulated: no space left on device")
                return super().async_create_or_update_map(*a, **kw)
        cache = Cache()
        cn = case.get("cn", 1)
        cache.async_create_or_update_map("aa:bb:cc:dd:ee:ff" if case.get("cache_lower", True) else "AA:BB:CC:DD:EE:FF", cn, DB, KEY.hex(), g0 or None)
        cache.async_create_or_update_map("AA:BB:CC:DD:EE:FF", cn, DB, KEY.hex(), g0 or None)
        if case.get("cache_state") in ("none", "zero"):
            # a cache written before state numbers were stored (None), or with the number 0: the pairing has a key but no description of its own
            for key_ in ("aa:bb:cc:dd:ee:ff", "AA:BB:CC:DD:EE:FF"):
                cache.async_create_or_update_map(key_, cn, DB, KEY.hex(), None if case["cache_state"] == "none" else 0)
        ctl = BleController(char_cache=cache)
        pairing = ctl.load_pairing("alias", dict(PD))
        from props._listeners import attach as attach_listeners
        if case.get("listeners"):
            # several listeners, one of which raises: what the others are told must not depend on it
            logs = attach_listeners(pairing, 3)
            calls = logs[0]
            R.cls("listeners:3+raising")
        else:
            logs = None
            calls = []
            pairing.dispatcher_connect(lambda ev: calls.append(dict(ev)))
        avail = []
        pairing.dispatcher_availability_changed(lambda a: avail.append(a))
        dev = BLEDevice(ADDRESS, "Sim", None)
        import aiohomekit.controller.ble.pairing as ble_pairing_mod
        from aiohomekit.exceptions import AccessoryDisconnectedError

        async def no_link(*a, **kw):
            raise AccessoryDisconnectedError("simulated: accessory not in range")
        orig_est = ble_pairing_mod.establish_connection
        if case.get("unreachable"):
            # the application has tried to talk to the accessory before (so the catch-up poll for undecryptable notifications is live) and it is out of range
            R.cls("catch-up-poll-fails")
            ble_pairing_mod.establish_connection = no_link
            try:
                await asyncio.wait_for(pairing.get_characteristics([(1, 11)]), 600)
            except Exception:  # noqa: BLE001
                pass

        def feed(mfr):
            adv = AdvertisementData(local_name="Sim", manufacturer_data={76: mfr}, service_data={}, service_uuids=[], tx_power=None, rssi=-60, platform_data=())
            try:
                ctl._device_detected(dev, adv)
            except Exception as e:  # noqa: BLE001
                return e
            return None
        # usually the scanner sees a regular advertisement first; after a restart ("cold") the first thing seen may be a notification, and the
        # last accepted state number is the one restored from the cache
        cold = bool(case.get("cold")) and (g0 > 0 or case.get("cache_state") in ("none", "zero"))
        no_description = cold and case.get("cache_state") in ("none", "zero")
        if no_description:
            R.cls("cold-start:no-state-number")
        elif cold:
            R.cls("cold-start")
            if pairing.description is None or pairing.description.state_num != g0:
                R.fail("C18.state-not-restored", f"pairing loaded from a cache with state number {g0} (config number {cn}) starts from "
                                                 f"{pairing.description.state_num if pairing.description else None}")
                return
        else:
            err = feed(regular_adv(g0, cn=cn))
            if err is not None:
                R.fail("C18.callback-raises", f"regular advertisement: {type(err).__name__}: {err}", exc=type(err).__name__)
                return
        await vtime.settle(loop)
        last = g0
        high_water = g0
        n_expected = 0
        sent = []            # (nonce gsn, payload) genuine notifications sent so far, for replays
        for idx, ev in enumerate(events):
            kind = ev[0]
            iid = 10 + ev[1] % len(FORMATS)
            value, v8 = value_bytes(iid, ev[2])
            before_calls = len(calls)
            before_state = pairing.description.state_num if pairing.description else None
            must_accept = False
            may_accept_with = None      # (gsn) if acceptance is allowed
            variants = None
            if kind == "next":
                g = last + 1
                msg = notification(KEY, DEVICE_ID, g, g, iid, v8)
            elif kind == "skip":
                g = last + 2 + ev[3] % 98
                msg = notification(KEY, DEVICE_ID, g, g, iid, v8)
            elif kind == "beyond":
                g = last + 100 + ev[3] % 4900
                msg = notification(KEY, DEVICE_ID, g, g, iid, v8)
            elif kind == "replay-current":
                g = last
                msg = next((m for gg, m in reversed(sent) if gg == last), None) or notification(KEY, DEVICE_ID, g, g, iid, v8)
            elif kind == "older":
                g = max(0, last - 1 - ev[3] % 50)
                msg = next((m for gg, m in sent if gg == g), None) or notification(KEY, DEVICE_ID, g, g, iid, v8)
            elif kind == "wrong-key":
                g = last + 1
                msg = notification(WRONG_KEY, DEVICE_ID, g, g, iid, v8)
            elif kind == "wrong-aad":
                g = last + 1
                msg = notification(KEY, DEVICE_ID, g, g, iid, v8, aad_id=OTHER_ID)
            elif kind == "other-device":
                g = last + 1
                msg = notification(KEY, OTHER_ID, g, g, iid, v8)
            elif kind == "inner-mismatch":
                g = last + 1
                msg = notification(KEY, DEVICE_ID, g, g + 1 + ev[3] % 7, iid, v8)
            elif kind == "flip":
                g = last + 1
                base = bytearray(notification(KEY, DEVICE_ID, g, g, iid, v8))
                bit = ev[3] % (16 * 8)
                base[8 + bit // 8] ^= 1 << (bit % 8)
                msg = bytes(base)
            elif kind == "flip-all":
                g = last + 1
                base = notification(KEY, DEVICE_ID, g, g, iid, v8)
                variants = []
                for bit in range(16 * 8):
                    b = bytearray(base)
                    b[8 + bit // 8] ^= 1 << (bit % 8)
                    variants.append(bytes(b))
                msg = None
            elif kind == "truncated":
                g = last + 1
                msg = notification(KEY, DEVICE_ID, g, g, iid, v8)[:2 + ev[3] % 22]
            elif kind == "regular":
                g = (last + ev[3] % 5) & 0xFFFF
                msg = regular_adv(g, cn=cn)
            elif kind == "reload" and cold:
                # (after a cold start nothing in the process but the pairing object itself knows what was accepted, and acceptances are not
                # written to the cache: a pairing loaded again starts from the cached number, as after a restart - not judged)
                continue
            elif kind == "reload":
                # the application loads the pairing again (a reloaded configuration entry): a new pairing object for the same accessory - what
                # was accepted before stays accepted
                pairing = ctl.load_pairing("alias", dict(PD))
                if logs is not None:
                    for l_ in logs:
                        l_.clear()
                    new_logs = attach_listeners(pairing, 3)
                    logs[:] = new_logs
                    calls = logs[0]
                else:
                    pairing.dispatcher_connect(lambda ev: calls.append(dict(ev)))
                pairing.dispatcher_availability_changed(lambda a: avail.append(a))
                await vtime.settle(loop)
                continue
            elif kind == "regular-stale":
                # a plain advertisement (nothing authenticates those) that names an older state number: a delayed duplicate, or a forgery
                g = max(1, last - 1 - ev[3] % 40)
                msg = regular_adv(g, cn=cn)
            else:
                raise AssertionError(kind)
            for m in (variants if variants is not None else [msg]):
                before_calls = len(calls)
                before_state = pairing.description.state_num if pairing.description else None
                before_avail = (len(avail), pairing.is_available)
                Cache.fail_writes = bool(case.get("cache_fails")) and not kind.startswith("regular")
                err = feed(m)
                if case.get("twice") and err is None and not kind.startswith("regular"):
                    # scanners report the same advertisement several times in quick succession: the repeat arrives before the loop runs again
                    err = feed(m)
                await vtime.settle(loop)
                if logs is not None and any(l_ != logs[0] for l_ in logs[1:]):
                    R.fail("C18.wrong-delivery", f"event {idx} {ev}: the listeners were told different things {[l_[-2:] for l_ in logs]!r:.300} (another listener raises)", fmt="listeners")
                    return
                if case.get("unreachable"):
                    await asyncio.sleep(120)          # let a catch-up poll run out of retries
                    await vtime.settle(loop)
                Cache.fail_writes = False
                what = f"event {idx} {ev} (last accepted {last}, g0 {g0})"
                if err is not None:
                    R.fail("C18.callback-raises", f"{what}: {type(err).__name__}: {err}", exc=type(err).__name__, kind=kind)
                    return
                new_calls = calls[before_calls:]
                after_state = pairing.description.state_num if pairing.description else None
                if kind in ("regular", "regular-stale"):
                    if kind == "regular":
                        high_water = g          # (a number that wrapped past 65535 starts a new epoch)
                    last = g
                    if new_calls:
                        R.fail("C18.unexpected-listener-call", f"{what}: a regular advertisement produced listener calls {new_calls}")
                        return
                    continue
                # reference verdict, computed independently: which counters in the window authenticate this payload?
                payload = m[8:]
                accept_g = None
                if m[0] == 0x11 and m[2:8] == DEVICE_ID and len(payload) == 16:
                    for cand in range(last + 1, last + 100):
                        pt = refhap.aead_open_partial_tag(KEY, refhap.nonce(ctr=cand), payload[:12], payload[12:16], DEVICE_ID)
                        if pt is not None and struct.unpack("<H", pt[:2])[0] == cand & 0xFFFF and cand <= 0xFFFF:
                            accept_g = cand
                            accept_pt = pt
                            break
                if accept_g is not None and accept_g <= high_water:
                    # authentic, but for a state number that is not newer than one accepted (or advertised) before: the window only reaches it
                    # because a plain advertisement named an older number in between
                    if new_calls or after_state != before_state:
                        R.fail("C18.forged-or-stale-accepted", f"{what}: a notification for state {accept_g} was accepted although state {high_water} had been reached before "
                               f"(a plain advertisement naming an older state number came in between); listeners {new_calls}, state_num {before_state} -> {after_state}",
                               kind="after-stale-regular")
                        return
                    continue
                if accept_g is None:
                    if new_calls or after_state != before_state:
                        R.fail("C18.forged-or-stale-accepted", f"{what}: listeners {new_calls}, state_num {before_state} -> {after_state}",
                               kind=kind)
                        return
                    if (len(avail), pairing.is_available) != before_avail:
                        R.fail("C18.forged-or-stale-accepted", f"{what}: an advertisement that was not accepted changed the pairing's availability "
                                                               f"({before_avail} -> {(len(avail), pairing.is_available)})", kind="availability")
                        return
                    continue
                if no_description and pairing.description is None and not new_calls:
                    continue          # without a state number of its own the pairing may wait for a regular advertisement first
                # authentic and fresh by the reference: acceptance is required inside the window
                exp_iid = struct.unpack("<H", accept_pt[2:4])[0]
                fmt, code, size = FORMATS[exp_iid]
                exp_val = struct.unpack(code, accept_pt[4:4 + size])[0]
                exp_call = {(1, exp_iid): {"value": exp_val}}
                if not new_calls:
                    R.fail("C18.genuine-ignored", f"{what}: authentic notification for state {accept_g} produced no listener call (state_num {after_state})",
                           offset=min(accept_g - last, 3))
                    return
                if new_calls != [exp_call]:
                    same = len(new_calls) == 1 and list(new_calls[0]) == [(1, exp_iid)] and (
                        new_calls[0][(1, exp_iid)]["value"] == exp_val or (fmt == "float" and abs(new_calls[0][(1, exp_iid)]["value"] - exp_val) < 1e-6))
                    if not same:
                        R.fail("C18.wrong-delivery", f"{what}: listeners saw {new_calls}, expected {[exp_call]}", fmt=fmt)
                        return
                if after_state != accept_g:
                    R.fail("C18.state-not-advanced", f"{what}: state_num is {after_state} after accepting state {accept_g}")
                    return
                last = accept_g
                high_water = max(high_water, accept_g)
                sent.append((accept_g, m))
        ble_pairing_mod.establish_connection = orig_est
    try:
        vtime.run(main)
    finally:
        import aiohomekit.controller.ble.pairing as _bpm
        if getattr(_bpm.establish_connection, "__name__", "") == "no_link":
            from aiohomekit.controller.ble.connection import establish_connection as _real
            _bpm.establish_connection = _real


def run_removed(case, R):
    """A pairing whose removal could not be confirmed by the accessory (link down) is gone on the controller's side all the same; a pairing for the
    same accessory id created afterwards has negotiated no broadcast key and must not accept what is sealed under the removed pairing's key."""
    import aiohomekit.controller.ble.pairing as ble_pairing_mod
    from aiohomekit.controller import Controller
    from aiohomekit.controller.abstract import TransportType
    from aiohomekit.exceptions import AccessoryDisconnectedError
    g0 = case["g0"]
    R.nt()
    R.cls("removed-pairing-key", "removal:" + case["removal"])

    class _Zc:
        zeroconf = None

    async def main(loop):
        cache = CharacteristicCacheMemory()
        cache.async_create_or_update_map("AA:BB:CC:DD:EE:FF", 1, DB, KEY.hex(), g0)
        ctl = Controller(async_zeroconf_instance=_Zc(), char_cache=cache)
        ble = BleController(char_cache=cache)
        ctl.transports[TransportType.BLE] = ble
        ctl.load_pairing("alias", dict(PD))

        async def no_link(*a, **kw):
            raise AccessoryDisconnectedError("simulated: accessory not in range")
        orig, ble_pairing_mod.establish_connection = ble_pairing_mod.establish_connection, no_link
        try:
            dev = BLEDevice(ADDRESS, "Sim", None)

            def feed(mfr):
                adv = AdvertisementData(local_name="Sim", manufacturer_data={76: mfr}, service_data={}, service_uuids=[], tx_power=None, rssi=-60, platform_data=())
                ble._device_detected(dev, adv)
            feed(regular_adv(g0))
            await vtime.settle(loop)
            if case["removal"] == "fails":
                try:
                    await asyncio.wait_for(ctl.remove_pairing("alias"), 600)
                    R.cls("removal-returned")
                except Exception as e:  # noqa: BLE001
                    R.cls("removal-raised:" + type(e).__name__)
            else:
                # the application drops the pairing without talking to the accessory (factory reset on the other side)
                p_old = ctl.aliases.pop("alias")
                ble.aliases.pop("alias", None)
                ctl.pairings.pop(p_old.id, None)
                ble.pairings.pop(p_old.id, None)
                await p_old.shutdown()
                cache.async_delete_map(p_old.id)
            # the accessory is paired again: new long-term keys, no broadcast key negotiated yet
            pd2 = dict(PD, AccessoryLTPK="33" * 32, iOSPairingId="ios-2", iOSDeviceLTSK="44" * 32, iOSDeviceLTPK="55" * 32)
            p2 = ctl.load_pairing("again", pd2)
            calls = []
            p2.dispatcher_connect(lambda ev: calls.append(dict(ev)))
            feed(regular_adv(g0))
            await vtime.settle(loop)
            before = p2.description.state_num if p2.description else None
            for k_, g in enumerate((g0 + 1, g0 + 2, g0 + 7)):
                value, v8 = value_bytes(11, 3 + k_)
                feed(notification(KEY, DEVICE_ID, g, g, 11, v8))
                await vtime.settle(loop)
            after = p2.description.state_num if p2.description else None
            if calls or after != before:
                R.fail("C18.forged-or-stale-accepted", f"a pairing created after the removal ({case['removal']}) of an earlier one accepted notifications sealed under the removed "
                                                       f"pairing's broadcast key: listeners {calls}, state_num {before} -> {after}", kind="removed-pairing-key")
            await p2.shutdown()
        finally:
            ble_pairing_mod.establish_connection = orig
    vtime.run(main)


KINDS = ["next", "next", "next", "skip", "beyond", "replay-current", "older", "wrong-key", "wrong-aad", "other-device", "inner-mismatch", "flip", "truncated", "regular", "regular-stale", "reload"]


@st.composite
def histories(draw):
    g0 = draw(st.one_of(st.sampled_from([0, 1, 100, 65000, 65434, 65534]), st.integers(0, 65000)))
    n = draw(st.integers(1, 30 if draw(st.integers(0, 3)) == 0 else 10))
    events = [[draw(st.sampled_from(KINDS)), draw(st.integers(0, 6)), draw(st.integers(0, 10**6)), draw(st.integers(0, 10**6))] for _ in range(n)]
    if draw(st.integers(0, 9)) == 0:
        events.insert(draw(st.integers(0, len(events))), ["flip-all", draw(st.integers(0, 6)), 3, 0])
    case = {"g0": g0, "events": events, "cold": draw(st.integers(0, 3)) == 0, "cn": draw(st.sampled_from([1, 1, 3, 40, 255])),
            "listeners": draw(st.booleans()), "twice": draw(st.integers(0, 2)) == 0}
    extra = draw(st.integers(0, 9))
    if extra == 0:
        case["unreachable"] = True
    elif extra == 1:
        case["cache_fails"] = True
    elif extra == 2:
        case.update(g0=0, cold=True, cache_state=draw(st.sampled_from(["none", "zero"])))
    return case


def enum_fixed(tier):
    hist = [["next", 1, 1, 0], ["wrong-key", 1, 0, 0], ["replay-current", 1, 0, 0], ["older", 1, 1, 0], ["next", 2, 3, 0], ["flip", 1, 0, 9], ["replay-current", 2, 0, 0],
            ["skip", 3, 4, 5], ["other-device", 1, 0, 0], ["replay-current", 3, 0, 0]]
    yield {"g0": 10, "events": hist, "unreachable": True}
    yield {"g0": 65000, "events": hist[:6], "unreachable": True, "cn": 3}
    yield {"g0": 10, "events": hist, "cache_fails": True}
    for g0 in (100, 65000):
        yield {"g0": g0, "events": [["next", 1, 1, 0], ["skip", 2, 2, 5], ["reload", 0, 0, 0], ["replay-current", 2, 0, 0], ["older", 1, 0, 3], ["older", 1, 0, 0], ["next", 1, 3, 0], ["reload", 0, 0, 0],
                                     ["replay-current", 1, 0, 0], ["skip", 3, 4, 7]], "listeners": bool(g0 == 100)}
    yield {"g0": 100, "events": [["next", 1, 1, 0], ["replay-current", 1, 0, 0], ["regular-stale", 0, 0, 9], ["replay-current", 1, 0, 0], ["older", 1, 0, 3], ["skip", 1, 1, 8]]}
    for g0 in (10, 65000):
        yield {"g0": g0, "events": hist, "listeners": True}
        yield {"g0": g0, "events": hist, "twice": True}
        yield {"g0": g0, "events": [["skip", 1, 1, 0], ["skip", 2, 2, 40], ["skip", 3, 3, 96], ["next", 1, 4, 0], ["skip", 2, 5, 9]], "twice": True, "listeners": True}
    for shape in ("none", "zero"):
        yield {"g0": 0, "cold": True, "cache_state": shape, "events": [["next", 1, 1, 0], ["wrong-key", 1, 0, 0], ["truncated", 1, 0, 3], ["regular", 0, 0, 2], ["next", 1, 2, 0], ["replay-current", 1, 0, 0]]}
    for g0, cn in ((100, 1), (900, 3), (40, 255), (65434, 7)):
        yield {"g0": g0, "cn": cn, "cold": True, "events": [["older", 1, 1, 0], ["older", 2, 1, 30], ["older", 1, 2, 49], ["next", 1, 1, 0], ["older", 1, 1, 60], ["replay-current", 1, 0, 0],
                                                              ["skip", 3, 1, 5], ["regular", 0, 0, 2], ["next", 2, 2, 0]]}
    for g0 in (0, 1, 100, 65000, 65434):
        for iid in range(len(FORMATS)):
            yield {"g0": g0, "events": [["next", iid, 1, 0], ["replay-current", iid, 1, 0], ["older", iid, 1, 0], ["next", iid, 3, 0],
                                         ["skip", iid, 4, 5], ["older", iid, 4, 1], ["replay-current", iid, 0, 0], ["wrong-key", iid, 0, 0], ["wrong-aad", iid, 0, 0],
                                         ["inner-mismatch", iid, 0, 2], ["other-device", iid, 0, 0], ["skip", iid, 2, 97], ["beyond", iid, 0, 0], ["regular", 0, 0, 3],
                                         ["next", iid, 4, 0], ["truncated", iid, 0, 7]]}
    for g0, iid in ((1, 1), (65000, 4), (100, 6)) if tier == "quick" else [(g, i) for g in (0, 1, 100, 65000) for i in range(7)]:
        yield {"g0": g0, "events": [["next", iid, 1, 0], ["flip-all", iid, 2, 0], ["next", iid, 3, 0], ["replay-current", iid, 0, 0]]}
    for k in range(0, 22):
        yield {"g0": 5, "events": [["truncated", 1, 0, k], ["next", 1, 1, 0]]}


SPEC = Property(
    P, "exploration",
    rule=("pairing with cached accessory state (bool, uint8..uint64, int, float characteristics), a broadcast key and last accepted state number "
          "g0 in {0,1,100,65000,65434,65534,random}; history of 1..30 advertisements fed to BleController._device_detected with real bleak "
          "objects: genuine at last+1, last+k (k<100), beyond the window, replay of the current, older, wrong key, wrong advertising id as "
          "AAD, other device id, inner counter != nonce counter, single-bit flips (one random; all 128 bits of payload+tag in 'flip-all'), "
          "truncated payloads, regular advertisements; optionally a cold start (pairing loaded from the cache, no advertisement seen yet, config number != state number). Authenticity is decided by an independent truncated-tag AEAD. Non-trivial: an "
          "accepted notification together with a replayed, older or forged one."),
    layers=[
        Layer("fixed-shapes", run_case, enumerate=enum_fixed, exhaustive=True, space="5 start numbers x 7 formats x a 16-event history; all 128 single-bit flips of one notification for 3 (quick) / 28 (thorough) (start, format) pairs; 22 truncations", min_nontrivial=30),
        Layer("removed-pairing-key", run_removed, enumerate=lambda tier: ({"g0": g, "removal": r} for g in (1, 100, 65000) for r in ("fails", "local")), exhaustive=True,
              space="3 state numbers x {removal whose request to the accessory fails, local removal}; then a new pairing for the same accessory id and notifications under the old key"),
        Layer("generated", run_case, strategy=histories, n={"quick": 320, "thorough": 12000}, min_nontrivial=100),
    ],
    assumptions=["a flipped message authenticates by chance with probability 100 * 2^-32; the oracle evaluates authenticity instead of assuming rejection",
                 "state numbers above 65535 (wrap-around) are outside the required-acceptance window",
                 "the pairing has never connected, so the catch-up poll for undecryptable notifications is a no-op"],
    min_nontrivial=150,
)

"""C03 - pair-setup returns pairing data only after a fully authenticated exchange (DESIGN 4/C03)."""
import contextlib
import os
import types

from cryptography.hazmat.primitives.asymmetric import ed25519 as real_ed25519
from hypothesis import strategies as st

import aiohomekit.protocol as proto
from aiohomekit.crypto.srp import SrpClient
from aiohomekit.protocol import perform_pair_setup_part1, perform_pair_setup_part2
from aiohomekit.protocol.tlv import TLV
from props.c01 import World as VerifyWorld
from props.c01 import check_honest as verify_check_honest
from props.c01 import flip, h, run_exchange as verify_exchange, subst
from vlib import refhap
from vlib.refhap import (PAD, T_ENC, T_ERROR, T_ID, T_PK, T_PROOF, T_SALT, T_SIG, T_STATE, RefIdentity, RefPairSetup, aead_enc,
                         ed_from_seed, ed_pub, nonce, tlv_enc)
from vlib.runner import Layer, Property

P = "C03"
SEED = int(os.environ.get("VERIF_SEED") or 1)


@contextlib.contextmanager
def injected(a: int, lt_seed: bytes):
    """Route the SRP client secret and the controller's new long-term key to generated values."""
    srp_calls = []

    class _Client(SrpClient):
        @staticmethod
        def generate_private_key():
            srp_calls.append(1)       # every call yields another secret, as the real generator does
            return a if len(srp_calls) == 1 else (int.from_bytes(h("srp-a", a, len(srp_calls))[:16], "big") | 1)

    calls = []

    class _Priv:
        @staticmethod
        def generate():
            calls.append(1)     # every call yields another key, as the real generator does
            return real_ed25519.Ed25519PrivateKey.from_private_bytes(lt_seed if len(calls) == 1 else h(lt_seed, len(calls)))
        from_private_bytes = staticmethod(real_ed25519.Ed25519PrivateKey.from_private_bytes)
    shim = types.SimpleNamespace(Ed25519PrivateKey=_Priv, Ed25519PublicKey=real_ed25519.Ed25519PublicKey)
    o1, o2 = proto.SrpClient, proto.ed25519
    proto.SrpClient, proto.ed25519 = _Client, shim
    try:
        yield
    finally:
        proto.SrpClient, proto.ed25519 = o1, o2


def dec(transport, raw, expected):
    return TLV.decode_bytes(raw) if transport == "ble" else TLV.decode_bytes(raw, expected=expected)


def wire(req):
    return refhap.tlv_dec(bytes(TLV.encode_list(req)))


BREAKING = {"m2-flip", "m2-drop", "wrong-code", "m4-flip", "m4-drop-proof", "m4-other-proof", "m4-truncate-proof", "m6-flip", "m6-drop-enc", "m6-wrong-key",
            "m6-wrong-label", "m6-wrong-signer", "m6-other-id-unsigned", "m6-other-ltpk-unsigned", "m6-transcript", "m6-drop-inner",
            "m6-ltpk-len", "m6-truncate", "m6-flip-inner", "m2-state-odd", "m4-state-odd", "m6-state-odd", "m6-inner-outside", "m2-error", "m4-error", "m6-error"}
# m6-dup-inner-other: a second, unsigned Identifier/LTPK besides the signed ones.  Which copy a decoder keeps is its own business, so the
# exchange may fail or succeed - but a success must return exactly the signed identity (checked for every returned record).
PRESERVING = {"none", "m6-dup-inner-other", "m2-reorder", "m4-reorder", "m6-reorder", "m6-reorder-inner", "m2-drop-state", "m4-drop-state", "m6-drop-state"}


class SetupPeer:
    """Reference accessory for one pair-setup exchange with one reply policy applied.  `respond(items)` takes the decoded request TLV
    and returns the raw reply bytes; the message-level layers and the transport-level layers share it."""

    def __init__(self, case):
        self.case = case
        k = self.k = case["k"]
        self.code, self.ios_id = case["code"], case["ios_id"]
        self.acc_id = bytes.fromhex(case["acc_id_hex"]) if case.get("acc_id_hex") else case["acc_id"].encode()
        try:
            self.acc_id.decode("utf-8")
            self.id_is_text = True
        except UnicodeDecodeError:
            self.id_is_text = False        # cannot be represented in the (str-typed) record: refusing to pair is fine, returning another id is not
        self.fault = case["fault"]
        self.name = self.fault[0]
        self.salt = (bytes(case.get("salt_zeros", 0)) + h("salt", k))[:16]
        self.a = int.from_bytes(h("a", k)[:16], "big") | 1
        self.b = int.from_bytes(h("b", k)[:16], "big") | 1
        if case.get("srp"):          # a mined exchange (data/c02_corpus.json): some SRP value starts with a zero byte
            self.salt, self.a, self.b = bytes.fromhex(case["srp"]["salt"]), case["srp"]["a"], case["srp"]["b"]
        self.ident = RefIdentity(self.acc_id, h("acc-ltsk", k))
        self.acc = RefPairSetup(self.ident, self.code if self.name != "wrong-code" else case["other_code"], self.salt, self.b)
        self.attempts = [self.acc]       # a conformant accessory starts a new exchange (new salt, new B) for every M1
        if self.name == "wrong-code" and case["other_code"] == self.code:
            self.name, self.fault = "none", ["none"]
        self.lt_seed = h("ios-new-ltsk", k)
        self.stage = "m1"
        self.malformed = None
        self.requests = 0

    STRANGERS = [(0x13, b"\x00\x00\x00\x10"), (0x80, bytes(range(200)) + bytes(100)), (0xFE, b""), (0x0B, b"\x1e")]

    def respond(self, items) -> bytes:
        raw = self._respond(items)
        sg = self.case.get("stranger")
        if sg:
            # a well-formed item of a type this step does not know (Flags, a vendor item of 300 bytes in two fragments, RetryDelay ...), in
            # front of the reply - before a value that spans two fragments - or behind it: to be ignored
            extra = tlv_enc([self.STRANGERS[sg[0] % len(self.STRANGERS)]])
            raw = extra + raw if sg[1] % 2 == 0 else raw + extra
        return raw

    def _respond(self, items) -> bytes:
        self.requests += 1
        st_ = dict(items).get(T_STATE)
        if st_ == b"\x01":
            return self._m2(items)
        if st_ == b"\x03":
            return self._m4(items)
        if st_ == b"\x05":
            return self._m6(items)
        self.malformed = f"request with State {st_!r}: {items!r:.200}"
        return tlv_enc([(T_STATE, b"\x02"), (T_ERROR, b"\x01")])

    ERR_VALUES = [b"\x00", b"\x08", b"\xff", b"", b"\x02\x00", b"\x09", b"\x80", b"\x02", b"\x06", b"\x01"]

    @classmethod
    def _with_error(cls, items, variant):
        """The otherwise valid reply also carries an Error item (defined code or not, empty, two bytes), after State or at the end."""
        e = (T_ERROR, cls.ERR_VALUES[variant % len(cls.ERR_VALUES)])
        return items[:1] + [e] + items[1:] if (variant // len(cls.ERR_VALUES)) % 2 == 0 else items + [e]

    @staticmethod
    def _odd_state(items, exp, variant):
        """State of length 0, expected value plus a second byte, two adjacent State items, 255."""
        new = [[(T_STATE, b"")], [(T_STATE, bytes([exp, 2]))], [(T_STATE, bytes([exp])), (T_STATE, bytes([exp + 1]))], [(T_STATE, b"\xff")]][variant % 4]
        out = []
        for t, v in items:
            out += new if t == T_STATE else [(t, v)]
        return out

    def _m2(self, items):
        name, fault = self.name, self.fault
        m1 = dict(items)
        if m1.get(refhap.T_METHOD) not in (b"\x00", b"\x01"):
            self.malformed = f"M1 = {m1!r}"
        if self.stage != "m1":
            n = len(self.attempts)
            salt = (bytes(self.case.get("salt_zeros", 0)) + h("salt", self.k, n))[:16]
            self.acc = RefPairSetup(self.ident, self.code, salt, int.from_bytes(h("b", self.k, n)[:16], "big") | 1)
            self.attempts.append(self.acc)
        m2 = self.acc.m2()
        if name == "m2-flip":
            field = {"salt": T_SALT, "pk": T_PK, "state": T_STATE}[fault[1]]
            m2 = [(t, flip(v, fault[2]) if t == field else v) for t, v in m2]
        elif name == "m2-drop":
            field = {"salt": T_SALT, "pk": T_PK}[fault[1]]
            m2 = [(t, v) for t, v in m2 if t != field]
        elif name == "m2-reorder":
            m2 = list(reversed(m2))
        elif name == "m2-drop-state":
            m2 = [(t, v) for t, v in m2 if t != T_STATE]
        elif name == "m2-state-odd":
            m2 = self._odd_state(m2, 2, fault[1])
        elif name == "m2-error":
            m2 = self._with_error(m2, fault[1])
        self.stage = "m2"
        return tlv_enc(m2)

    def _m4(self, items):
        name, fault, acc = self.name, self.fault, self.acc
        m4 = acc.handle_m3(items)
        if name == "wrong-code":
            # an accessory that does not know the code cannot verify M1; it answers with the proof of its own (wrong) exchange
            A = int.from_bytes(dict(items)[T_PK], "big")
            acc.srp.finish(A)
            m4 = [(T_STATE, b"\x04"), (T_PROOF, acc.srp.M2)]
        elif name == "m4-flip":
            m4 = [(t, flip(v, fault[1]) if t == T_PROOF else v) for t, v in m4]
        elif name == "m4-truncate-proof":
            n_ = 1 + fault[1] % 63
            m4 = [(t, (v[-n_:] if fault[1] & 64 else v[:n_]) if t == T_PROOF else v) for t, v in m4]
            if int.from_bytes(dict(m4)[T_PROOF], "big") == int.from_bytes(acc.srp.M2, "big"):
                self.name = "none"        # only zero bytes were dropped: numerically the same proof
        elif name == "m4-drop-proof":
            m4 = [(t, v) for t, v in m4 if t != T_PROOF]
        elif name == "m4-other-proof":
            other = refhap.SrpExchange(self.code, self.salt, self.b + 2).finish(acc.srp.A)
            m4 = [(t, other.M2 if t == T_PROOF else v) for t, v in m4]
        elif name == "m4-reorder":
            m4 = list(reversed(m4))
        elif name == "m4-drop-state":
            m4 = [(t, v) for t, v in m4 if t != T_STATE]
        elif name == "m4-state-odd":
            m4 = self._odd_state(m4, 4, fault[1])
        elif name == "m4-error":
            m4 = self._with_error(m4, fault[1])
        if self.case.get("mfi") and acc.m3_ok and name in ("none", "m4-reorder"):
            # a Pair-Setup-with-Auth accessory adds its MFi proof (EncryptedData) to M4, before or after the SRP proof
            blob = (T_ENC, h("mfi", self.k) * 4)
            i = next((j for j, (t, _) in enumerate(m4) if t == T_PROOF), len(m4))
            m4 = m4[:i] + [blob] + m4[i:] if self.case["mfi"] == "before" else m4[:i + 1] + [blob] + m4[i + 1:]
        self.stage = "m4"
        return tlv_enc(m4)

    def _m6(self, items):
        name, fault, acc, k = self.name, self.fault, self.acc, self.k
        m6 = acc.handle_m5(items)
        raw6 = None
        if name.startswith("m6-") and acc.m5_ok:
            inner = acc.inner_m6()
            enc_key, label = None, b"PS-Msg06"
            rebuild = True
            if name == "m6-flip":
                m6 = [(t, flip(v, fault[1]) if t == T_ENC else v) for t, v in m6]
                rebuild = False
            elif name == "m6-drop-enc":
                m6 = [(t, v) for t, v in m6 if t != T_ENC]
                rebuild = False
            elif name == "m6-reorder":
                m6 = list(reversed(m6))
                rebuild = False
            elif name == "m6-drop-state":
                m6 = [(t, v) for t, v in m6 if t != T_STATE]
                rebuild = False
            elif name == "m6-state-odd":
                m6 = self._odd_state(m6, 6, fault[1])
                rebuild = False
            elif name == "m6-error":
                m6 = self._with_error(m6, fault[1])
                rebuild = False
            elif name == "m6-inner-outside":
                # some of Identifier / LTPK / Signature are not in the encrypted sub-TLV but next to it, in the clear
                moved = [[T_ID], [T_PK], [T_SIG], [T_ID, T_PK], [T_ID, T_PK, T_SIG]][fault[1] % 5]
                outside = [(t, v) for t, v in inner if t in moved]
                m6 = acc.m6([(t, v) for t, v in inner if t not in moved])
                m6 = (m6 + outside) if fault[1] & 8 else (m6[:1] + outside + m6[1:])
                rebuild = False
            elif name == "m6-truncate":
                raw = tlv_enc(m6)
                raw6 = raw[:1 + fault[1] % (len(raw) - 1)]
                rebuild = False
            elif name == "m6-wrong-key":
                enc_key = h("wrong-key", k)
            elif name == "m6-wrong-label":
                label = [b"PS-Msg05", b"PV-Msg02", b"PS-Msg04", bytes(8)][fault[1] % 4]
            elif name == "m6-wrong-signer":
                inner = acc.inner_m6(sign_key=ed_from_seed(h("mallory", k)))
            elif name == "m6-other-id-unsigned":      # signature made for the real id, another id presented
                inner = [(t, b"11:22:33:44:55:66" if t == T_ID else v) for t, v in inner]
            elif name == "m6-other-ltpk-unsigned":    # signature by the real key, another key presented
                inner = [(t, ed_pub(ed_from_seed(h("mallory", k))) if t == T_PK else v) for t, v in inner]
            elif name == "m6-dup-inner-other":
                # a second, unsigned Identifier / LTPK next to the signed ones (not adjacent to them), in either order
                other_id, other_pk = b"66:55:44:33:22:11", ed_pub(ed_from_seed(h("mallory", k)))
                extra = [[(T_ID, other_id)], [(T_PK, other_pk)], [(T_ID, other_id), (T_PK, other_pk)]][fault[1] % 3]
                if fault[1] & 4:
                    inner = inner + extra
                else:
                    # unsigned values first, then the signature, then the signed values
                    inner = extra + [(T_SIG, dict(inner)[T_SIG])] + [x for x in inner if x[0] != T_SIG]
            elif name == "m6-transcript":
                order = [(1, 0, 2), (0, 2, 1), (2, 1, 0), (1, 2, 0), (2, 0, 1)][fault[1] % 5]
                inner = acc.inner_m6(transcript=lambda ax, idb, pk: b"".join([(ax, idb, pk)[i] for i in order]))
            elif name == "m6-drop-inner":
                field = [T_ID, T_PK, T_SIG][fault[1] % 3]
                inner = [(t, v) for t, v in inner if t != field]
            elif name == "m6-reorder-inner":
                inner = list(reversed(inner))
            elif name == "m6-ltpk-len":
                n = [0, 31, 33][fault[1] % 3]
                inner = [(t, (v + b"\x00")[:n] if t == T_PK else v) for t, v in inner]
            elif name == "m6-flip-inner":
                field = [T_ID, T_PK, T_SIG][fault[1] % 3]
                inner = [(t, flip(v, fault[2]) if t == field else v) for t, v in inner]
            if rebuild:
                m6 = acc.m6(inner, enc_key=enc_key, label=label)
        self.stage = "m6"
        return raw6 if raw6 is not None else tlv_enc(m6)


def run_case(case, R):
    peer = SetupPeer(case)
    transport = case.get("decode", "ip")
    result, exc = None, None
    R.cls("fault:" + peer.name, "decode:" + transport)
    with injected(peer.a, peer.lt_seed):
        try:
            g1 = perform_pair_setup_part1(case.get("with_auth", True))
            req, exp = g1.send(None)
            raw = peer.respond(wire(req))
            if peer.malformed:
                R.fail("C03.m1-malformed", peer.malformed)
                return
            try:
                g1.send(dec(transport, raw, exp))
                raise RuntimeError("part1 yielded twice")
            except StopIteration as r:
                s_salt, s_pk = r.value
            g2 = perform_pair_setup_part2(peer.code, peer.ios_id, s_salt, s_pk)
            req, exp = g2.send(None)
            for _ in range(2):
                req, exp = g2.send(dec(transport, peer.respond(wire(req)), exp))
            raise RuntimeError("part2 yielded a fourth request")
        except StopIteration as r:
            result = r.value
        except Exception as e:  # noqa: BLE001
            exc = e
    judge(case, R, peer, result, exc, transport)


def run_tape(case, R):
    """Two pair-setups of the real code in one process with the same setup code.  The first is honest and recorded; in the second a peer that
    knows neither the code nor any key replays the recorded M2, M4 and M6.  The controller's SRP public value must be fresh each time."""
    transport = case.get("decode", "ip")
    R.nt()
    R.cls("tape", "decode:" + transport)
    peer = SetupPeer(dict(case, fault=["none"]))
    tape = []

    def exchange(answer, a, lt_seed):
        sent_a = None
        with injected(a, lt_seed):
            try:
                g1 = perform_pair_setup_part1(case.get("with_auth", True))
                req, exp = g1.send(None)
                try:
                    g1.send(dec(transport, answer(wire(req)), exp))
                    raise RuntimeError("part1 yielded twice")
                except StopIteration as r:
                    s_salt, s_pk = r.value
                g2 = perform_pair_setup_part2(peer.code, peer.ios_id, s_salt, s_pk)
                req, exp = g2.send(None)
                sent_a = bytes(dict(wire(req)).get(T_PK, b""))
                for _ in range(2):
                    req, exp = g2.send(dec(transport, answer(wire(req)), exp))
                raise RuntimeError("part2 yielded a fourth request")
            except StopIteration as r:
                return r.value, None, sent_a
            except Exception as e:  # noqa: BLE001
                return None, e, sent_a

    def record(items):
        raw = peer.respond(items)
        tape.append(raw)
        return raw
    res1, exc1, a1 = exchange(record, peer.a, peer.lt_seed)
    if res1 is None:
        R.fail("C03.honest-rejected", f"recorded exchange: {type(exc1).__name__}: {exc1}", exc=type(exc1).__name__, stage=peer.stage)
        return
    replay = iter(tape)
    res2, exc2, a2 = exchange(lambda items: next(replay), int.from_bytes(h("a2", case["k"])[:16], "big") | 1, h("ios-ltsk-2", case["k"]))
    if a2 is not None and a2 == a1:
        R.fail("C03.exchange-key-reused", f"the controller sent the same SRP public value {a1.hex()[:16]}.. in two pair-setup exchanges", decode=transport)
        return
    if res2 is not None:
        R.fail("C03.forged-reply-accepted", f"M2/M4/M6 recorded from an earlier pair-setup were accepted in a new one (decode={transport})", family="tape-replay")


def enum_ids(tier):
    """Honest exchanges with accessory identifiers that are not text: pairs that a lossy decoding would make equal."""
    for i, hx in enumerate(["4143432dfe", "4143432dff", "ff", "fe", "c3", "41c328", "e282", "f0288c28", "00", "41004100"]):
        for dec_ in ("ip", "ble"):
            yield {"k": SEED * 49979687 + i, "code": "111-22-333", "acc_id": "unused", "acc_id_hex": hx, "ios_id": "ios-%d" % i, "decode": dec_, "with_auth": True, "salt_zeros": 0,
                   "fault": ["none"]}


def enum_mfi(tier):
    for i, mfi in enumerate(("before", "after")):
        for dec_ in ("ip", "ble"):
            yield {"k": SEED * 15487469 + i, "code": "333-22-111", "acc_id": "AA:BB:CC:DD:EE:FF", "ios_id": "ios-mfi", "decode": dec_, "with_auth": True, "salt_zeros": 0,
                   "fault": ["none"], "mfi": mfi}
        for tr in ("ip", "ble", "coap"):
            yield {"k": SEED * 15487469 + 10 + i, "code": "333-22-111", "acc_id": "AA:BB:CC:DD:EE:FF", "ios_id": "ios-mfi", "transport": tr, "with_auth": True, "salt_zeros": 0,
                   "fault": ["none"], "mfi": mfi}


def enum_strangers(tier):
    """Honest exchanges (and two breaking ones) whose replies carry an item the step does not know, in front of or behind the reply's own items."""
    i = 0
    for sg in ([0, 0], [0, 1], [1, 0], [1, 1], [2, 0], [3, 0], [3, 1]):
        for fault in (["none"], ["m4-flip", 3], ["m2-reorder", 0]):
            for dec_ in ("ip", "ble"):
                i += 1
                yield {"k": SEED * 32452843 + i, "code": "123-45-%03d" % i, "acc_id": "AA:BB:CC:DD:EE:FF", "ios_id": "ios-stranger", "decode": dec_, "with_auth": bool(i % 2),
                       "salt_zeros": 0, "fault": fault, "stranger": sg}
            if fault == ["none"]:
                for tr in ("ip", "ble", "coap"):
                    i += 1
                    yield {"k": SEED * 32452843 + i, "code": "123-45-%03d" % i, "acc_id": "AA:BB:CC:DD:EE:FF", "ios_id": "ios-stranger", "transport": tr, "with_auth": bool(i % 2),
                           "salt_zeros": 0, "fault": fault, "stranger": sg}


def run_mfi(case, R):
    R.nt()
    R.cls("mfi-proof:" + case["mfi"])
    (run_e2e if "transport" in case else run_case)(case, R)


def enum_tape(tier):
    for i in range(4 if tier == "quick" else 24):
        yield {"k": SEED * 86028121 + i, "code": "%03d-%02d-%03d" % (i * 91 % 1000, i % 100, i * 13 % 1000), "acc_id": "AA:BB:CC:DD:EE:FF",
               "ios_id": "decc6fa3-de3e-41c9-adba-ef7409821bfc", "decode": ["ip", "ble"][i % 2], "with_auth": bool(i % 2), "salt_zeros": 0}


def judge(case, R, peer, result, exc, transport, verify=True):
    name, acc, k = peer.name, peer.acc, peer.k
    code, ios_id, acc_id, ident, stage = peer.code, peer.ios_id, peer.acc_id, peer.ident, peer.stage
    R.nt(name != "none")
    what = f"fault={peer.fault} decode={transport} code={code}"
    if peer.malformed:
        R.fail("C03.m1-malformed", peer.malformed)
        return
    if result is not None:
        # whatever was returned must be exactly what the accessory's signature in M6 covers
        try:
            ax = refhap.hkdf_sha512(acc.srp.K, *refhap.PS_ASIGN)
            sig = dict(acc.inner_m6())[T_SIG]
            rid, rpk = result["AccessoryPairingID"].encode(), bytes.fromhex(result["AccessoryLTPK"])
            if not refhap.ed_verify(rpk, sig, ax + rid + rpk) and name in PRESERVING | {"m6-dup-inner-other"}:
                R.fail("C03.record-not-authenticated", f"{what}: returned id {rid!r} / LTPK {rpk.hex()[:16]}.. are not the ones the M6 signature covers", family=name)
                return
        except Exception as e:  # noqa: BLE001
            R.fail("C03.record-inconsistent", f"{what}: {type(e).__name__}: {e} in {result!r:.300}")
            return
    if name in BREAKING:
        if result is not None:
            R.fail("C03.forged-reply-accepted", f"{what}: pairing data returned", family=name)
        elif exc is None:
            R.fail("C03.forged-reply-accepted", f"{what}: no error", family=name)
        elif name.startswith("m6-") and not acc.m5_ok:
            R.fail("C03.controller-m5-rejected", f"{what}: reference rejected M5: {acc.m5_error} / controller: {exc!r:.200}")
        return
    if result is None:
        if name == "none" and not peer.id_is_text:
            R.cls("non-text-id:rejected")
        elif name == "none":
            R.fail("C03.honest-rejected", f"{what}: stage {stage}: {type(exc).__name__}: {exc}", exc=type(exc).__name__, stage=stage)
        else:
            R.cls("preserving:rejected")
        return
    if name != "none":
        R.cls("preserving:accepted")
    # honest (or accepted rearrangement): the reference accepted M3 and M5, the record is self-consistent
    if not acc.m3_ok:
        R.fail("C03.controller-m3-rejected", f"{what}: reference rejected the controller's SRP proof")
        return
    if not acc.m5_ok:
        R.fail("C03.controller-m5-rejected", f"{what}: reference rejected M5: {acc.m5_error}")
        return
    try:
        ltsk = bytes.fromhex(result["iOSDeviceLTSK"])
        ok = (ed_pub(ed_from_seed(ltsk)) == bytes.fromhex(result["iOSDeviceLTPK"]) == acc.controller_ltpk
              and result["AccessoryPairingID"].encode() == acc_id and bytes.fromhex(result["AccessoryLTPK"]) == ident.ltpk
              and result["iOSPairingId"] == ios_id and acc.controller_id == ios_id.encode())
    except Exception as e:  # noqa: BLE001
        R.fail("C03.record-inconsistent", f"{what}: {type(e).__name__}: {e} in {result!r:.300}")
        return
    if not ok:
        R.fail("C03.record-inconsistent", f"{what}: {result!r:.400} vs accessory id {acc_id!r} ltpk {ident.ltpk.hex()} controller key {acc.controller_ltpk.hex()}")
        return
    if (PAD(acc.srp.A)[0] == 0 or PAD(acc.srp.B)[0] == 0 or PAD(acc.srp.S)[0] == 0 or acc.srp.M1[0] == 0 or acc.srp.K[0] == 0 or acc.srp.M2[0] == 0
            or bytes(acc.srp.salt)[0] == 0):
        R.nt()
        R.cls("leading-zero-hit")
    if not verify:
        return
    # final consistency: the returned record opens a session with the same accessory
    vw = VerifyWorld.__new__(VerifyWorld)
    vw.acc_id, vw.ios_id, vw.ident = acc_id, ios_id, ident
    vw.pairing_data = dict(result)
    out = verify_exchange(vw, ("after-setup", k), transport if transport in ("ip", "ble") else "ip")
    verify_check_honest(R, vw, out, "pair-verify with the returned record")


# ------------------------------------------------------------------ the same exchange through the three transports' pairing entry points
def _ids(mod, ios_id):
    """The discovery classes draw the controller pairing id from uuid.uuid4(); route it to the generated value."""
    orig = mod.uuid
    mod.uuid = types.SimpleNamespace(uuid4=lambda: ios_id)
    return orig


async def _e2e_ip(loop, peer, case):
    import aiohomekit.controller.ip.discovery as disc_mod
    from aiohomekit.controller.ip.discovery import IpDiscovery
    from aiohomekit.model.categories import Categories
    from aiohomekit.model.feature_flags import FeatureFlags
    from aiohomekit.model.status_flags import StatusFlags
    from aiohomekit.zeroconf import HomeKitService
    from vlib.ipworld import IpWorld
    w = IpWorld(loop, hosts=("10.0.0.5",), k=peer.k)
    orig = _ids(disc_mod, peer.ios_id)
    try:
        w.acc.setup_handler = peer.respond
        if case.get("framing"):
            # how the replies travel: Content-Length or chunked, each in two TCP segments cut at an offset (negative: counted from the end)
            w.acc.reply_chunked, w.acc.reply_cut = bool(case["framing"][0]), case["framing"][1]
        w.controller.pairings = {}
        desc = HomeKitService(name="Sim", id=case["acc_id"], model="M", feature_flags=FeatureFlags(1 if case.get("with_auth") else 0), status_flags=StatusFlags(1),
                              config_num=1, state_num=1, category=Categories(5), protocol_version="1.1", type="_hap._tcp.local.", address="10.0.0.5",
                              addresses=["10.0.0.5"], port=case.get("port", 51826))
        d = IpDiscovery(w.controller, desc)
        result, exc = None, None
        prior = None
        if case.get("prior"):
            # the alias has been used before on this controller: an earlier, honest pairing (another code, another exchange) stands under it
            first = SetupPeer(dict(case, fault=["none"], k=case["k"] + 1, stranger=None))
            w.acc.setup_handler = first.respond
            with injected(first.a, first.lt_seed):
                prior = await (await IpDiscovery(w.controller, desc).async_start_pairing("alias"))(first.code)
            w.acc.setup_handler = peer.respond
        try:
            finish = await d.async_start_pairing("alias")
            if case.get("retry") and case["retry"][0] == "wrong-code":
                wrong = "%03d-%02d-%03d" % ((int(peer.code[:3]) + 1) % 1000, int(peer.code[4:6]), int(peer.code[7:]))
                try:
                    await finish(wrong)
                    exc = RuntimeError("the mistyped code was accepted")
                except Exception:  # noqa: BLE001
                    pass
                peer.expect_rejected = len(peer.attempts)
                finish = await d.async_start_pairing("alias")          # the user tries again on the same discovery
            if exc is None:
                obj = await finish(peer.code)
                result = obj.pairing_data
        except Exception as e:  # noqa: BLE001
            exc = e
        reg = w.controller.pairings.get("alias")
        if prior is not None and reg is prior and result is None:
            reg = None           # the earlier pairing still stands under the alias: that is not a registration of the failed one
        extra = {"registered": reg, "obj": result, "expect": {"AccessoryIP": "10.0.0.5", "AccessoryIPs": ["10.0.0.5"], "AccessoryPort": case.get("port", 51826), "Connection": "IP"}}
        try:
            await d.close()
        except Exception:  # noqa: BLE001
            pass
        return result, exc, extra
    finally:
        disc_mod.uuid = orig
        w.restore()


async def _e2e_coap(loop, peer, case):
    import aiohomekit.controller.coap.connection as cconn_mod
    from aiohomekit.controller.coap.discovery import CoAPDiscovery
    from aiohomekit.model.categories import Categories
    from aiohomekit.model.feature_flags import FeatureFlags
    from aiohomekit.model.status_flags import StatusFlags
    from aiohomekit.zeroconf import HomeKitService
    from vlib.coapsim import CoapWorld
    w = CoapWorld(loop, k=peer.k)
    orig = _ids(cconn_mod, peer.ios_id)
    try:
        w.acc.setup_handler = peer.respond
        ctl = w.pairing.controller
        ctl.pairings = {}
        desc = HomeKitService(name="Sim", id=case["acc_id"], model="M", feature_flags=FeatureFlags(1 if case.get("with_auth") else 0), status_flags=StatusFlags(1),
                              config_num=1, state_num=1, category=Categories(5), protocol_version="1.1", type="_hap._udp.local.", address="fd00::1",
                              addresses=["fd00::1"], port=case.get("port", 5683))
        d = CoAPDiscovery(ctl, desc)
        result, exc = None, None
        try:
            finish = await d.async_start_pairing("alias")
            if case.get("retry") and case["retry"][0] == "wrong-code":
                wrong = "%03d-%02d-%03d" % ((int(peer.code[:3]) + 1) % 1000, int(peer.code[4:6]), int(peer.code[7:]))
                try:
                    await finish(wrong)
                    exc = RuntimeError("the mistyped code was accepted")
                except Exception:  # noqa: BLE001
                    pass
                peer.expect_rejected = len(peer.attempts)
                finish = await d.async_start_pairing("alias")          # the user tries again on the same discovery
            if exc is None:
                obj = await finish(peer.code)
                result = obj.pairing_data
        except Exception as e:  # noqa: BLE001
            exc = e
        extra = {"registered": ctl.pairings.get("alias"), "obj": result, "expect": {"AccessoryIP": "fd00::1", "AccessoryPort": case.get("port", 5683), "Connection": "CoAP"}}
        return result, exc, extra
    finally:
        cconn_mod.uuid = orig
        w.restore()


async def _e2e_ble(loop, peer, case):
    import aiohomekit.controller.ble.discovery as bdisc_mod
    import aiohomekit.controller.ble.pairing as bpair_mod
    from aiohomekit.controller.ble.discovery import BleDiscovery
    from aiohomekit.controller.ble.manufacturer_data import HomeKitAdvertisement
    from bleak.backends.device import BLEDevice
    from vlib.bleworld import BleWorld
    w = BleWorld(loop, k=peer.k, att_payload=case.get("att", 155))
    orig = _ids(bdisc_mod, peer.ios_id)
    orig_est = bdisc_mod.establish_connection
    try:
        bdisc_mod.establish_connection = bpair_mod.establish_connection       # the world's fake
        from bleak.exc import BleakError
        retry = case.get("retry")           # ["drop", state] : the link drops when that request arrives, once; ["wrong-code"] : a mistyped code first
        dropped = []

        def handler(items):
            if retry and retry[0] == "drop" and not dropped and dict(items).get(T_STATE) == bytes([retry[1]]):
                dropped.append(1)
                w.client.drop()
                raise BleakError("simulated: link lost")
            return peer.respond(items)
        w.acc.setup_handler = handler
        w.acc.setup_reply_pieces = case.get("pieces")
        if case.get("endless"):
            w.acc.endless_fragments["setup"] = True
        w.acc.feature_flags = 1 if case.get("with_auth") else 0
        w.controller.pairings.clear()
        desc = HomeKitAdvertisement.from_cache("00:11:22:33:44:55", case["acc_id"].lower(), 1, 1)
        d = BleDiscovery(w.controller, BLEDevice("00:11:22:33:44:55", "Sim", None), desc, None)
        result, exc = None, None
        try:
            finish = await d.async_start_pairing("alias")
            if retry and retry[0] == "wrong-code":
                wrong = "%03d-%02d-%03d" % ((int(peer.code[:3]) + 1) % 1000, int(peer.code[4:6]), int(peer.code[7:]))
                try:
                    await finish(wrong)
                    exc = RuntimeError("the mistyped code was accepted")
                except Exception:  # noqa: BLE001
                    pass
                peer.expect_rejected = len(peer.attempts)        # exchanges so far were driven with the wrong code
            if exc is None:
                obj = await finish(peer.code)
                result = obj.pairing_data
        except Exception as e:  # noqa: BLE001
            exc = e
        extra = {"registered": w.controller.pairings.get("alias"), "obj": result, "expect": {"AccessoryAddress": "00:11:22:33:44:55", "Connection": "BLE"}}
        return result, exc, extra
    finally:
        bdisc_mod.uuid = orig
        bdisc_mod.establish_connection = orig_est
        w.restore()


E2E = {"ip": _e2e_ip, "coap": _e2e_coap, "ble": _e2e_ble}


def run_e2e(case, R):
    from vlib import vtime
    peer = SetupPeer(case)
    transport = case["transport"]
    R.cls("fault:" + peer.name, "transport:" + transport)
    with injected(peer.a, peer.lt_seed):
        try:
            result, exc, extra = vtime.run(E2E[transport], peer, case, max_iterations=300_000)
        except vtime.VBudget:
            R.nt()
            R.fail("C03.never-terminates", f"fault={peer.fault} transport={transport}" + (" (the accessory withholds the last fragment of a reply and keeps sending empty fragments)" if case.get("endless") else "")
                   + ": pairing neither returned nor failed within 300,000 loop iterations", transport=transport)
            return
    what = f"fault={peer.fault} transport={transport}" + (f" retry={case['retry']}" if case.get("retry") else "")
    if case.get("endless"):
        R.nt()
        R.cls("ble:endless-fragments")
        if result is not None:
            R.fail("C03.forged-reply-accepted", f"{what}: pairing data returned although a reply was never completed", family="endless-fragments")
        return
    if peer.requests == 0 and exc is not None:
        raise exc          # nothing reached the accessory: the world is broken, not the code under test
    if case.get("retry"):
        # the controller started over: every exchange it drove with the right code must carry a proof the conformant accessory accepts
        R.nt()
        R.cls("retry:" + case["retry"][0], "exchanges:%d" % len(peer.attempts))
        first_right = getattr(peer, "expect_rejected", 0)
        for n, a_ in enumerate(peer.attempts):
            if n >= first_right and a_.m3_seen and not a_.m3_ok:
                R.fail("C03.controller-m3-rejected", f"{what}: exchange {n + 1} of {len(peer.attempts)} (right code): the reference accessory rejected the controller's SRP proof",
                       retry=case["retry"][0])
                return
        if len(peer.attempts) < 2:
            R.cls("retry:no-second-exchange")
        if result is None and transport in ("ip", "coap") and case["retry"][0] == "wrong-code":
            R.fail("C03.honest-rejected", f"{what}: after a mistyped code the right one was tried on the same discovery against an honest accessory: {type(exc).__name__}: {exc}",
                   exc=type(exc).__name__, stage="second-attempt")
            return
        if result is None:
            R.cls("retry:failed")
            if extra["registered"] is not None:
                R.fail("C03.failed-pairing-registered", f"{what}: pairing failed with {exc!r:.120} but controller.pairings['alias'] exists", family=peer.name)
            return
    if result is None and extra["registered"] is not None:
        R.fail("C03.failed-pairing-registered", f"{what}: pairing failed with {exc!r:.120} but controller.pairings['alias'] exists", family=peer.name)
        return
    if result is not None:
        reg = extra["registered"]
        if reg is None or reg.pairing_data is not result:
            R.fail("C03.record-inconsistent", f"{what}: the returned pairing is not the one registered under its alias")
            return
        bad = {k_: result.get(k_) for k_, v in extra["expect"].items() if result.get(k_) != v}
        if bad:
            R.fail("C03.record-inconsistent", f"{what}: transport fields {bad!r} differ from the discovered ones {extra['expect']!r}")
            return
    judge(case, R, peer, result, exc, transport, verify=case.get("verify_after", False))


@st.composite
def e2e_cases(draw):
    case = draw(cases())
    case.pop("decode", None)
    case["transport"] = draw(st.sampled_from(["ip", "ble", "coap"]))
    if case["transport"] == "ble":
        case["att"] = draw(st.sampled_from([155, 155, 100, 512, 23]))
        case["pieces"] = draw(st.sampled_from([None, None, 100, 60]))
    case["verify_after"] = draw(st.integers(0, 9)) == 0
    case["port"] = draw(st.sampled_from([5683, 51826, 1, 65535, 8080]))
    return case


def enum_retry(tier):
    i = 0
    for retry in (["drop", 3], ["drop", 5], ["drop", 1], ["wrong-code"]):
        for rep in range(2 if tier == "quick" else 10):
            for att, pieces in ((155, None), (100, 100), (512, None)):
                i += 1
                yield {"k": SEED * 611953 + i, "code": "%03d-%02d-%03d" % (i * 37 % 1000, i % 100, (i * 7) % 1000), "acc_id": "AA:BB:CC:DD:EE:FF",
                       "ios_id": "decc6fa3-de3e-41c9-adba-ef7409821bfc", "with_auth": bool(i % 2), "salt_zeros": 0, "fault": ["none"], "transport": "ble",
                       "att": att, "pieces": pieces, "retry": retry}


def enum_second_attempts(tier):
    """IP / CoAP: a mistyped code, then the right one on the same discovery object; IP: an alias that already names an earlier pairing."""
    i = 0
    for tr in ("ip", "coap"):
        for rep in range(3):
            i += 1
            yield {"k": SEED * 86028121 + i, "code": "%03d-%02d-%03d" % (i * 41 % 1000, i % 100, (i * 3) % 1000), "acc_id": "AA:BB:CC:DD:EE:FF", "ios_id": "ios-second-%d" % i,
                   "with_auth": bool(i % 2), "salt_zeros": 0, "fault": ["none"], "transport": tr, "retry": ["wrong-code"]}
    # IP: the replies of an honest exchange in two segments cut near their end (where chunk data, chunk CRLF, last chunk and final CRLF meet) and elsewhere
    for chunked in (0, 1):
        for cut in [-k for k in range(1, 10)] + [1, 17, 60, 200, 300]:
            i += 1
            yield {"k": SEED * 86028121 + i, "code": "%03d-%02d-%03d" % (i * 41 % 1000, i % 100, (i * 3) % 1000), "acc_id": "AA:BB:CC:DD:EE:FF", "ios_id": "ios-second-%d" % i,
                   "with_auth": bool(i % 2), "salt_zeros": 0, "fault": ["none"] if i % 5 else ["m4-flip", 3], "transport": "ip", "framing": [chunked, cut]}
    for fault in (["none"], ["wrong-code"], ["m4-flip", 5], ["m6-flip", 9], ["m4-drop-proof", 0]):
        i += 1
        c = {"k": SEED * 86028121 + i, "code": "%03d-%02d-%03d" % (i * 41 % 1000, i % 100, (i * 3) % 1000), "acc_id": "AA:BB:CC:DD:EE:FF", "ios_id": "ios-second-%d" % i,
             "with_auth": bool(i % 2), "salt_zeros": 0, "fault": fault, "transport": "ip", "prior": True}
        if fault[0] == "wrong-code":
            c["other_code"] = "999-99-999"
        yield c


def enum_endless(tier):
    for i, pieces in enumerate((60, 100, 200)):
        yield {"k": SEED * 49979693 + i, "code": "101-01-101", "acc_id": "AA:BB:CC:DD:EE:FF", "ios_id": "ios-endless", "with_auth": bool(i % 2), "salt_zeros": 0, "fault": ["none"],
               "transport": "ble", "att": 155, "pieces": pieces, "endless": True}


def enum_e2e(tier):
    for i, c in enumerate(enum_families("quick")):
        for j, tr in enumerate(("ip", "ble", "coap")):
            c2 = dict(c)
            c2.pop("decode", None)
            c2["transport"] = tr
            c2["port"] = [5683, 51826, 49152][(i + j) % 3]
            yield c2


CODES = st.one_of(st.sampled_from(["000-00-000", "111-11-111", "123-45-678", "031-45-154"]),
                  st.tuples(st.integers(0, 999), st.integers(0, 99), st.integers(0, 999)).map(lambda t: "%03d-%02d-%03d" % t))
IDS = st.one_of(st.sampled_from(["AA:BB:CC:DD:EE:FF", "a", "Ünïcödé"]), st.text(alphabet="ABCDEF0123456789:", min_size=1, max_size=17))
IOS_IDS = st.one_of(st.sampled_from(["decc6fa3-de3e-41c9-adba-ef7409821bfc", "ios", "contrôleur 1"]), st.text(alphabet="abcdef0123456789-", min_size=1, max_size=36))
FAULTS = sorted(BREAKING | PRESERVING)


@st.composite
def cases(draw):
    case = {"k": draw(st.integers(0, 2**32)), "code": draw(CODES), "acc_id": draw(IDS), "ios_id": draw(IOS_IDS),
            "decode": draw(st.sampled_from(["ip", "ble"])), "with_auth": draw(st.booleans()), "salt_zeros": draw(st.sampled_from([0, 0, 1, 3, 16]))}
    if draw(st.integers(0, 5)) == 0:
        case["mfi"] = draw(st.sampled_from(["before", "after"]))
    if draw(st.integers(0, 11)) == 0:      # an identifier that is not valid UTF-8
        case["acc_id_hex"] = draw(st.sampled_from(["4143432dfe", "4143432dff", "ff", "c3", "41c328", "e282", "f0288c28"]))
    if draw(st.integers(0, 4)) == 0:
        case["stranger"] = [draw(st.integers(0, 3)), draw(st.integers(0, 1))]
    name = draw(st.sampled_from(FAULTS + ["none"] * 3))
    bit = draw(st.integers(0, 5000))
    if name == "m2-flip":
        f = [name, draw(st.sampled_from(["salt", "pk", "pk", "state"])), bit]
    elif name == "m2-drop":
        f = [name, draw(st.sampled_from(["salt", "pk"]))]
    elif name == "m6-flip-inner":
        f = [name, draw(st.integers(0, 2)), bit]
    elif name == "wrong-code":
        f = [name]
        case["other_code"] = draw(CODES)
    else:
        f = [name, bit]
    case["fault"] = f
    return case


def enum_families(tier):
    i = 0
    fl = []
    for name in FAULTS:
        if name == "m2-flip":
            fl += [[name, "salt", b] for b in range(0, 128, 16 if tier == "quick" else 1)] + \
                  [[name, "pk", b] for b in ([0, 7, 8, 1500, 3064, 3071] if tier == "quick" else range(0, 3072, 8))] + [[name, "state", b] for b in range(8)]
        elif name == "m2-drop":
            fl += [[name, "salt"], [name, "pk"]]
        elif name == "m4-flip":
            fl += [[name, b] for b in range(0, 512, 64 if tier == "quick" else 1)]
        elif name == "m6-flip":
            fl += [[name, b] for b in range(0, 1100, 97 if tier == "quick" else 1)]
        elif name == "m6-flip-inner":
            fl += [[name, f, b] for f in range(3) for b in ([0, 9, 100] if tier == "quick" else range(0, 512, 5))]
        elif name in ("m6-wrong-label", "m6-transcript", "m6-drop-inner", "m6-ltpk-len"):
            fl += [[name, p] for p in range(5)]
        elif name == "m6-dup-inner-other":
            fl += [[name, p] for p in range(8)]
        elif name.endswith("-state-odd"):
            fl += [[name, p] for p in range(4)]
        elif name in ("m2-error", "m4-error", "m6-error"):
            fl += [[name, p] for p in range(20)]
        elif name == "m6-inner-outside":
            fl += [[name, p] for p in (0, 1, 2, 3, 4, 8, 9, 10, 11, 12)]
        elif name == "m4-truncate-proof":
            fl += [[name, p] for p in ([0, 31, 62, 64, 64 + 31, 64 + 62, 64 + 55] if tier == "quick" else range(128))]
        elif name == "m6-truncate":
            fl += [[name, n] for n in range(0, 150, 25 if tier == "quick" else 2)]
        else:
            fl.append([name, 0] if name != "wrong-code" else [name])
    for f in fl:
        for dec_ in (("ip", "ble") if tier == "thorough" or f[0] in ("none", "m2-reorder", "m4-reorder", "m6-reorder", "m6-inner-outside") else ("ip" if i % 2 else "ble",)):
            i += 1
            c = {"k": SEED * 7919 + i, "code": "%03d-%02d-%03d" % (i % 1000, i % 100, (i * 7) % 1000), "acc_id": "AA:BB:CC:DD:EE:FF",
                 "ios_id": "decc6fa3-de3e-41c9-adba-ef7409821bfc", "decode": dec_, "with_auth": bool(i % 2), "salt_zeros": [0, 0, 2][i % 3], "fault": f}
            if f[0] == "wrong-code":
                c["other_code"] = "999-99-999"
            yield c


def _corpus():
    import json
    with open(os.path.join(os.path.dirname(os.path.dirname(os.path.abspath(__file__))), "data", "c02_corpus.json")) as fh:
        return json.load(fh)


def enum_corpus(tier):
    """Exchanges mined for a leading zero byte in A, B, S, K, M1 or M2, run through the whole pair-setup (the accessory must still accept M3 and M5)."""
    for i, e in enumerate(_corpus()):
        for dec_ in ("ip", "ble"):
            yield {"k": 500000 + i, "code": e["code"], "acc_id": "AA:BB:CC:DD:EE:FF", "ios_id": "decc6fa3-de3e-41c9-adba-ef7409821bfc", "decode": dec_, "with_auth": bool(i % 2),
                   "fault": ["none"], "srp": {"salt": e["salt"], "a": e["a"], "b": e["b"]}, "hits": e["hits"]}


    # the legal all-zero salt (and salts with leading zero bytes) with ordinary secrets
    for j, salt in enumerate(["00" * 16, "00" * 15 + "01", "00" * 8 + "ab" * 8, "00" + "cd" * 15]):
        for dec_ in ("ip", "ble"):
            yield {"k": 600000 + j, "code": "%03d-%02d-%03d" % (j * 17 % 1000, j, j * 3), "acc_id": "AA:BB:CC:DD:EE:FF", "ios_id": "decc6fa3-de3e-41c9-adba-ef7409821bfc", "decode": dec_,
                   "with_auth": bool(j % 2), "fault": ["none"], "srp": {"salt": salt, "a": 7001 + 2 * j, "b": 9001 + 2 * j}, "hits": ["salt0"]}


def enum_corpus_e2e(tier):
    for i, c in enumerate(enum_corpus(tier)):
        if c["decode"] == "ble":
            continue
        c.pop("decode")
        c["transport"] = ("ip", "ble", "coap")[i % 3]
        yield c


def run_corpus(case, R):
    run_case(case, R)
    R.nt()
    if "leading-zero-hit" not in R.classes and not R.failures:
        raise RuntimeError(f"corpus entry {case['srp']} (hits {case.get('hits')}) does not produce a leading zero in this exchange")


SPEC = Property(
    P, "fault_enumeration",
    rule=("setup code x controller pairing id x accessory identity x injected SRP secrets and controller long-term key x one reply "
          "policy over M2/M4/M6: honest; accessory built with another code; bit flips of salt, B, State, server proof, M6 ciphertext/"
          "tag and of the inner Identifier/LTPK/Signature; removed fields; server proof truncated to any prefix or suffix; a second unsigned Identifier/LTPK next to the signed ones; M6 under another key or nonce label; inner signature by "
          "another key, for another identifier or LTPK, or over a permuted transcript; missing inner fields; wrong-length LTPK; "
          "truncated M6; proof-preserving reorderings. Replies decoded the IP/CoAP way (expected list) and the BLE way. Non-trivial: "
          "every faulty policy, and honest runs that hit a leading-zero SRP value."),
    layers=[
        Layer("fault-families", run_case, enumerate=enum_families, exhaustive=True,
              space="every fault family with its parameter grid (quick: sampled bit positions; thorough: every bit of salt/proof/M6, every 8th bit of B)", min_nontrivial=60),
        Layer("generated", run_case, strategy=cases, n={"quick": 2400, "thorough": 40000}, min_nontrivial=300),
        Layer("non-text-identifiers", run_case, enumerate=enum_ids, exhaustive=True, space="10 accessory identifiers that are not valid UTF-8 (or contain NUL) x {ip, ble}: refused, or returned exactly"),
        Layer("mfi-proof-in-m4", run_mfi, enumerate=enum_mfi, exhaustive=True, space="honest Pair-Setup-with-Auth exchanges whose M4 carries an MFi proof before / after the SRP proof; generator level x {ip, ble} and end to end x 3 transports"),
        Layer("unknown-items", lambda case, R: (R.cls("stranger"), (run_e2e if "transport" in case else run_case)(case, R)) and None, enumerate=enum_strangers, exhaustive=True,
              space="7 placements of an item the step does not know (Flags, 300-byte vendor item, empty item, RetryDelay; in front of / behind every reply) x {honest, flipped proof, reordered M2} x "
                    "{ip, ble decode}; honest ones also end to end on the three transports", min_nontrivial=20),
        Layer("tape-replay", run_tape, enumerate=enum_tape, exhaustive=True,
              space="an honest pair-setup recorded, then its M2/M4/M6 replayed to a second pair-setup of the same process; SRP public values of the two exchanges distinct", min_nontrivial=4),
        Layer("leading-zero-exchanges", run_corpus, enumerate=enum_corpus, exhaustive=True,
              space="the mined exchanges of data/c02_corpus.json (A, B, S, K, M1 or M2 starting with 0x00) as complete honest pair-setups x {ip, ble} decode", min_nontrivial=100),
        Layer("leading-zero-end-to-end", run_e2e, enumerate=enum_corpus_e2e, exhaustive=True,
              space="the same mined exchanges through the Discovery classes (transport in rotation)", min_nontrivial=0),
        Layer("end-to-end-families", run_e2e, enumerate=enum_e2e, exhaustive=True,
              space="every fault family (quick grid) through IpDiscovery / BleDiscovery / CoAPDiscovery.async_start_pairing + finish_pairing on the simulated transports", min_nontrivial=30),
        Layer("ble-restarted-exchanges", run_e2e, enumerate=enum_retry, exhaustive=True,
              space="BleDiscovery pairing where finish_pairing runs twice: the link drops when M1/M3/M5 arrives (the library retries), or a mistyped code is followed by the right one; "
                    "the accessory starts a fresh exchange (new salt, new B) for every M1", min_nontrivial=10),
        Layer("second-attempts", run_e2e, enumerate=enum_second_attempts, exhaustive=True,
              space="IP / CoAP: mistyped code, then the right one on the same discovery object (3 each); IP: 5 exchanges (honest and breaking) under an alias that already names an earlier pairing", min_nontrivial=5),
        Layer("ble-unfinished-fragments", run_e2e, enumerate=enum_endless, exhaustive=True,
              space="BLE pair-setup whose fragmented reply is never completed (empty FragmentData for ever) x 3 piece sizes: it must end with an error"),
        Layer("end-to-end-generated", run_e2e, strategy=e2e_cases, n={"quick": 300, "thorough": 6000}, min_nontrivial=100),
    ],
    assumptions=["reference accessory (vlib/refhap.py RefPairSetup, SrpExchange) written from HAP R2 5.6 and RFC 5054",
                 "an accessory that presents its own LTPK and signs with it is a legitimate pairing partner (pair-setup authenticates "
                 "knowledge of the setup code, not a prior identity) and is not treated as a forgery",
                 "any exception counts as 'fails with an error'"],
    min_nontrivial=300,
)

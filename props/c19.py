"""C19 - device waiters are woken by advertisements; advertisement parsing is robust (DESIGN 4/C19)."""
import asyncio
import contextvars
import ipaddress
import socket
import struct
import types
from unittest.mock import MagicMock

import aiohappyeyeballs as real_aiohappyeyeballs
from bleak.backends.device import BLEDevice
from bleak.backends.scanner import AdvertisementData
from hypothesis import strategies as st
from zeroconf import DNSCache, ServiceStateChange, SignalRegistrationInterface
from zeroconf.asyncio import AsyncServiceInfo

import aiohomekit.controller.ip.connection as conn_mod
import aiohomekit.zeroconf as zmod
from aiohomekit.characteristic_cache import CharacteristicCacheMemory
from aiohomekit.controller.abstract import TransportType
from aiohomekit.controller.ble.controller import BleController
from aiohomekit.controller.coap.controller import CoAPController
from aiohomekit.controller.controller import Controller
from aiohomekit.controller.ip.controller import IpController
from aiohomekit.exceptions import AccessoryNotFoundError
from props.c18 import DB as BLE_DB
from props.c18 import regular_adv
from vlib import vtime
from vlib.runner import Layer, Property

P = "C19"
HAP = "_hap._tcp.local."
HAP_UDP = "_hap._udp.local."
EPS = 1e-6
IDS = ["aa:bb:cc:00:00:01", "aa:bb:cc:00:00:02"]


class Browser:
    types = [HAP, HAP_UDP]

    def __init__(self):
        self._handlers = []
        self.service_state_changed = SignalRegistrationInterface(self._handlers)


class CacheOnlyInfo(AsyncServiceInfo):
    async def async_request(self, zc, timeout, question_type=None):
        return self.load_from_cache(zc)


class MdnsWorld:
    """Real IpController / CoAPController on a DNS cache that the harness fills; the browser callback is ours to fire."""

    def __init__(self, loop):
        self.loop = loop
        self._orig = (zmod.AsyncServiceBrowser, zmod.AsyncServiceInfo, conn_mod.aiohappyeyeballs)
        zmod.AsyncServiceBrowser = Browser
        zmod.AsyncServiceInfo = CacheOnlyInfo

        async def refuse(addr_infos, **kw):
            raise ConnectionRefusedError(111, "simulated network: refused")
        conn_mod.aiohappyeyeballs = types.SimpleNamespace(start_connection=refuse, pop_addr_infos_interleave=real_aiohappyeyeballs.pop_addr_infos_interleave,
                                                          AddrInfoType=real_aiohappyeyeballs.AddrInfoType)
        self.zc = MagicMock()
        self.inner = MagicMock()
        self.inner.cache = DNSCache()
        self.browser = Browser()
        self.inner.listeners = [self.browser]
        self.zc.zeroconf = self.inner
        self.processed = []       # (time, controller kind, service name) every time a loaded service info is handled
        self.callback_errors = []

    def restore(self):
        zmod.AsyncServiceBrowser, zmod.AsyncServiceInfo, conn_mod.aiohappyeyeballs = self._orig

    def make(self, kind, cache=None):
        cls = IpController if kind == "ip" else CoAPController
        c = cls(char_cache=cache or CharacteristicCacheMemory(), zeroconf_instance=self.zc)
        orig = c._async_handle_loaded_service_info

        def logged(info, _orig=orig, _kind=kind):
            self.processed.append((self.loop.time(), _kind, info.name))
            try:
                return _orig(info)
            except Exception as e:  # noqa: BLE001
                self.callback_errors.append((self.loop.time(), _kind, e))
        c._async_handle_loaded_service_info = logged
        return c

    def announce(self, rec, hap_type=HAP, fire=True):
        """rec: dict(name, props{bytes:bytes}, addrs[list of str], port)"""
        packed = []
        for a in rec["addrs"]:
            ip = ipaddress.ip_address(a)
            packed.append(ip.packed)
        name = f"{rec['name']}.{hap_type}"
        info = AsyncServiceInfo(hap_type, name, addresses=packed, port=rec.get("port", 1234), properties=rec["props"], server=f"{rec['name']}.local.")
        self.inner.cache.async_add_records([*info.dns_addresses(), info.dns_pointer(), info.dns_service(), info.dns_text()])
        for h in list(self.browser._handlers) if fire else []:
            try:
                h(zeroconf=self.inner, service_type=hap_type, name=name, state_change=ServiceStateChange.Added)
            except Exception as e:  # noqa: BLE001
                self.callback_errors.append((self.loop.time(), "browser-callback", e))


def txt(id_, c=1, s=1, sf=0, ff=0, ci=5, md="Sim", upper=False, extra=None, drop=()):
    d = {"id": id_, "c#": str(c), "s#": str(s), "sf": str(sf), "ff": str(ff), "ci": str(ci), "md": md, "pv": "1.1"}
    for k in drop:
        d.pop(k, None)
    if extra:
        d.update(extra)
    out = {}
    for k, v in d.items():
        kk = k.upper() if upper else k
        out[kk.encode()] = v if isinstance(v, bytes) else str(v).encode()
    return out


PD_IP = {"AccessoryPairingID": "AA:BB:CC:00:00:01", "AccessoryLTPK": "00" * 32, "iOSPairingId": "ios", "iOSDeviceLTSK": "11" * 32, "iOSDeviceLTPK": "22" * 32,
         "AccessoryIP": "10.0.0.9", "AccessoryPort": 1234, "Connection": "IP"}


# ---------------------------------------------------------------- waiter schedules (shared judge)
CTL_KINDS = {"ip": ["ip"], "coap": ["coap"], "agg": ["ip", "coap"], "ble": ["ble"], "agg-ble": ["ip", "coap", "ble"]}


_WAITER = contextvars.ContextVar("c19_waiter", default=None)      # which harness waiter a transport-level async_find belongs to (tasks inherit it)


def spy_transport(transport, kind, log, loop):
    """Record the outcome of every async_find of a transport the aggregate controller delegates to."""
    orig = transport.async_find

    async def async_find(device_id, timeout=30.0):
        rec = {"kind": kind, "id": device_id.lower(), "start": loop.time(), "outcome": None, "end": None, "waiter": _WAITER.get()}
        log.append(rec)
        try:
            d = await orig(device_id, timeout)
            rec["outcome"] = "found"
            return d
        except AccessoryNotFoundError:
            rec["outcome"] = "notfound"
            raise
        except asyncio.CancelledError:
            rec["outcome"] = "cancelled"
            raise
        finally:
            rec["end"] = loop.time()
    transport.async_find = async_find


def judge_aggregate(R, waiters, sublog, what):
    """Whatever the timing: if one of the transports handed a discovery to the aggregate controller, the aggregate waiter must not end not-found."""
    for w in waiters:
        if not w["ctl"].startswith("agg") or not w["outcome"] or w["outcome"][0] != "notfound":
            continue
        subs = [x for x in sublog if x["waiter"] == w["n"] and x["outcome"] == "found"]
        if subs:
            R.fail("C19.aggregate-drops-discovery", f"{what}: the {subs[0]['kind']} transport found {w['id']} at t={subs[0]['end']}, the aggregate waiter registered at "
                                                    f"{w['start']} ended not-found at t={w['end']}", ctl=w["ctl"])
            return


def judge_waiters(R, waiters, processed_at, what, tolerance=EPS):
    """waiters: dict(ctl, id, start, timeout, cancel_at, end, outcome); processed_at: {(controller kind, id): [times a valid
    advertisement for id was processed by that controller]}"""
    for w in waiters:
        deadline = w["start"] + w["timeout"]
        times = sorted(t for k in CTL_KINDS[w["ctl"]] for t in processed_at.get((k, w["id"].lower()), []))
        # an advertisement processed before registration leaves a discovery behind: found immediately
        earlier = [t for t in times if t <= w["start"] + tolerance]
        during = [t for t in times if w["start"] - tolerance <= t <= deadline + tolerance]
        cancel_at = w.get("cancel_at")
        if earlier and not [t for t in earlier if abs(t - w["start"]) <= tolerance]:
            want = ("found", w["start"])
        elif earlier:
            want = ("found", w["start"])
        elif during and (cancel_at is None or min(during) <= cancel_at + tolerance):
            want = ("found", min(during))
        elif cancel_at is not None and cancel_at < deadline:
            want = ("cancelled", cancel_at)
        else:
            want = ("notfound", deadline)
        got = w["outcome"]
        if got is None:
            R.fail("C19.waiter-hangs", f"{what}: waiter {w} never completed (expected {want})", ctl=w["ctl"])
            return
        ok = got[0] == want[0] and abs(w["end"] - want[1]) <= tolerance
        # ties: an advertisement processed exactly at the deadline / at the cancellation may go either way
        if not ok and during:
            t0 = min(during)
            # (not-found is only a possible outcome of the tie if the advertisement was not processed strictly before the deadline: a record whose
            # timer precedes the deadline's in the same loop iteration - as after a stalled loop - has been processed before the timeout)
            if abs(t0 - deadline) <= tolerance and abs(w["end"] - deadline) <= tolerance and (got[0] == "found" or (got[0] == "notfound" and t0 >= deadline - 1e-10)):
                ok = True
            if cancel_at is not None and abs(t0 - cancel_at) <= tolerance and got[0] in ("found", "cancelled") and abs(w["end"] - cancel_at) <= tolerance:
                ok = True
        if not ok:
            R.fail("C19.waiter-outcome", f"{what}: waiter for {w['id']} on {w['ctl']} registered at {w['start']} (timeout {w['timeout']}, cancel {cancel_at}): "
                   f"{got[0]} at t={w['end']}, expected {want[0]} at t={want[1]}; advertisement processed at {times}", ctl=w["ctl"], got=got[0], want=want[0])
            return
        if got[0] == "found" and got[1] != w["id"].lower():
            R.fail("C19.discovery-id", f"{what}: waiter for {w['id']} got a discovery with id {got[1]!r}", ctl=w["ctl"])
            return


async def run_schedule(loop, R, case, make_world):
    """Common driver: events = list of [time, kind, ...] sorted by the harness; kinds: wait(ctl, id, timeout, cancel_after), adv(id variant)."""
    world = make_world(loop)
    waiters = []
    try:
        await world.start()
        tasks = []
        events = sorted(case["events"], key=lambda e: (e[0], e[4] if len(e) > 4 and e[1] == "adv" else 0))
        for ev in events:
            t, kind = ev[0], ev[1]

            def fire(ev=ev):
                if ev[1] == "wait":
                    _, _, ctl, id_, timeout, cancel_after = ev[:6]
                    rec = {"ctl": ctl, "id": id_, "start": loop.time(), "timeout": timeout, "cancel_at": None, "end": None, "outcome": None, "n": len(waiters)}
                    waiters.append(rec)

                    async def waiter():
                        _WAITER.set(rec["n"])
                        try:
                            d = await world.find(ctl, id_, timeout)
                            rec["outcome"] = ("found", getattr(d.description, "id", None))
                        except AccessoryNotFoundError:
                            rec["outcome"] = ("notfound", None)
                        except asyncio.CancelledError:
                            rec["outcome"] = ("cancelled", None)
                            raise
                        except Exception as e:  # noqa: BLE001
                            rec["outcome"] = ("error", repr(e))
                        finally:
                            rec["end"] = loop.time()
                    task = asyncio.ensure_future(waiter())
                    tasks.append(task)
                    if cancel_after is not None:
                        rec["cancel_at"] = loop.time() + cancel_after
                        loop.call_later(cancel_after, task.cancel)
                elif ev[1] == "bye":
                    world.goodbye(ev)
                else:
                    world.advertise(ev)
            loop.call_at(t, fire)
        await asyncio.sleep(max([e[0] for e in events] + [0]) + 35)
        await vtime.settle(loop)
        for t in tasks:
            if not t.done():
                t.cancel()
        what = f"events {case['events']!r:.300}"
        for (t, where, e) in world.errors():
            R.fail("C19.callback-raises", f"{what}: {where} raised {type(e).__name__}: {e} at t={t}", exc=type(e).__name__, where=where)
            return
        for w in waiters:
            if w["outcome"] and w["outcome"][0] == "error":
                R.fail("C19.waiter-outcome", f"{what}: waiter raised {w['outcome'][1]}", ctl=w["ctl"], got="error", want="-")
                return
        judge_waiters(R, waiters, world.processed_valid(), what)
        if not R.failures:
            judge_aggregate(R, waiters, getattr(world, "sublog", []), what)
        lag = world.processing_lag()
        if lag is not None and lag > 1 + EPS:
            R.fail("C19.processing-late", f"{what}: an advertisement was processed {lag:.2f}s after it was announced")
    finally:
        await world.stop()


# ---------------------------------------------------------------- mDNS schedules
class MdnsScheduleWorld:
    def __init__(self, loop, pairing="none"):
        self.loop = loop
        self.m = MdnsWorld(loop)
        self.pairing = pairing
        self.announced = []
        self.byes = []
        self.prestart = []

    async def start(self):
        cache = CharacteristicCacheMemory()
        self.ip = self.m.make("ip", cache)
        self.coap = self.m.make("coap")
        self.sublog = []
        # records that are in the DNS cache before the controllers start (e.g. the host application's zeroconf instance has been running)
        for item in self.prestart:
            if item[0] == "bad-ptr":
                from zeroconf import DNSPointer
                from zeroconf.const import _CLASS_IN, _TYPE_PTR
                for hap_type, alias in ((HAP, "Thermostat." + HAP_UDP), (HAP, "odd name without type."), (HAP_UDP, "Lamp." + HAP)):
                    self.m.inner.cache.async_add_records([DNSPointer(hap_type, _TYPE_PTR, _CLASS_IN, 4500, alias)])
            else:
                self.advertise([0.0, "adv", item[1], item[2], 0], fire=False)
        await self.ip.async_start()
        await self.coap.async_start()
        self.agg = Controller(async_zeroconf_instance=self.m.zc, char_cache=cache)
        self.agg.transports[TransportType.IP] = self.ip
        self.agg.transports[TransportType.COAP] = self.coap
        spy_transport(self.ip, "ip", self.sublog, self.loop)
        spy_transport(self.coap, "coap", self.sublog, self.loop)
        if self.pairing != "none":
            if self.pairing == "cached":
                cache.async_create_or_update_map("AA:BB:CC:00:00:01", 1, BLE_DB, None, None)
            self.ip.load_pairing("alias", dict(PD_IP))

    async def find(self, ctl, id_, timeout):
        c = {"ip": self.ip, "coap": self.coap, "agg": self.agg}[ctl]
        return await c.async_find(id_, timeout)

    def advertise(self, ev, fire=True):
        _, _, idx, variant, _order = ev[:5]
        id_ = IDS[idx % 2]
        idv = id_.upper() if variant & 1 else id_
        # (variant & 128: the same accessory id under a second service name - its resolve timer is a separate one)
        rec = {"name": f"acc{idx % 2}" + ("b" if variant & 128 else ""), "props": txt(idv, upper=bool(variant & 2), c=1 + (variant >> 2) % 3),
               "addrs": ["169.254.1.1", "10.0.0.9", "fd00::2"][(variant >> 4) % 2:]}
        hap_type = HAP_UDP if variant & 64 else HAP
        self.announced.append((self.loop.time(), id_, hap_type))
        self.m.announce(rec, hap_type, fire=fire)

    def goodbye(self, ev):
        """The browser reports the service as removed (goodbye packet); a pending resolve of that name is dropped."""
        _, _, idx, variant = ev[:4]
        hap_type = HAP_UDP if variant & 64 else HAP
        self.byes.append((self.loop.time(), IDS[idx % 2], hap_type))
        name = f"acc{idx % 2}.{hap_type}"
        for h in list(self.m.browser._handlers):
            try:
                h(zeroconf=self.m.inner, service_type=hap_type, name=name, state_change=ServiceStateChange.Removed)
            except Exception as e:  # noqa: BLE001
                self.m.callback_errors.append((self.loop.time(), "browser-callback", e))

    def processed_valid(self):
        out = {}
        for (t, kind, name) in self.m.processed:
            idx = 0 if name.startswith("acc0") else 1
            # per controller kind: a waiter on 'ip' is only concerned with _hap._tcp, on 'coap' with _hap._udp, on 'agg' with both
            out.setdefault((kind, IDS[idx]), []).append(t)
        return out

    def errors(self):
        return [(t, k, e) for t, k, e in self.m.callback_errors]

    def processing_lag(self):
        lags = []
        for (ta, id_, hap_type) in self.announced:
            kind = "ip" if hap_type == HAP else "coap"
            ts = [t for (t, k, name) in self.m.processed if k == kind and IDS[0 if name.startswith("acc0") else 1] == id_ and t >= ta - EPS]
            first = min(ts) if ts else None
            # an announcement withdrawn (goodbye) before it was resolved need not be processed
            if any(i == id_ and h == hap_type and ta - EPS <= tb <= ta + 0.5 + EPS and (first is None or tb <= first + EPS) for tb, i, h in self.byes):
                continue
            if ts:
                lags.append(first - ta)
            else:
                lags.append(99.0)
        return max(lags) if lags else None

    async def stop(self):
        for c in (self.ip, self.coap):
            try:
                await c.async_stop()
            except Exception:  # noqa: BLE001
                pass
        for p in list(self.ip.pairings.values()):
            try:
                await p.shutdown()
            except Exception:  # noqa: BLE001
                pass
        self.m.restore()


def run_mdns_schedule(case, R):
    evs = case["events"]
    n_wait = sum(1 for e in evs if e[1] == "wait")
    n_adv = sum(1 for e in evs if e[1] == "adv")
    R.nt(n_wait >= 1 and n_adv >= 1)
    R.cls(f"mdns waiters={n_wait}", "pairing:" + case.get("pairing", "none"))

    async def main(loop):
        def mk(lp):
            w = MdnsScheduleWorld(lp, case.get("pairing", "none"))
            w.prestart = case.get("prestart", [])
            return w
        await run_schedule(loop, R, case, mk)
    vtime.run(main)


# ---------------------------------------------------------------- BLE schedules
class BleScheduleWorld:
    def __init__(self, loop, pairing="none"):
        self.loop = loop
        self.pairing = pairing
        self._errors = []
        self._processed = []
        self.m = MdnsWorld(loop)

    async def start(self):
        cache = CharacteristicCacheMemory()
        self.ble = BleController(char_cache=cache)
        self.ip = self.m.make("ip", cache)
        await self.ip.async_start()
        self.agg = Controller(async_zeroconf_instance=self.m.zc, char_cache=cache)
        self.agg.transports[TransportType.IP] = self.ip
        self.agg.transports[TransportType.BLE] = self.ble
        self.sublog = []
        spy_transport(self.ip, "ip", self.sublog, self.loop)
        spy_transport(self.ble, "ble", self.sublog, self.loop)
        if self.pairing != "none":
            if self.pairing == "cached":
                cache.async_create_or_update_map("AA:BB:CC:00:00:01", 1, BLE_DB, None, 7)
            pd = dict(PD_IP, Connection="BLE", AccessoryAddress="00:11:22:33:44:55")
            self.ble.load_pairing("alias", pd)

    async def find(self, ctl, id_, timeout):
        c = {"ble": self.ble, "agg-ble": self.agg}[ctl]
        return await c.async_find(id_, timeout)

    def advertise(self, ev):
        _, _, idx, variant, _order = ev[:5]
        id_ = IDS[idx % 2]
        mfr = regular_adv(3 + variant % 5, bytes.fromhex(id_.replace(":", "")), cn=1 + (variant >> 3) % 2)
        dev = BLEDevice("00:11:22:33:44:5%d" % (idx % 2), "Sim", None)
        adv = AdvertisementData(local_name="Sim", manufacturer_data={76: mfr}, service_data={}, service_uuids=[], tx_power=None, rssi=-60, platform_data=())
        try:
            self.ble._device_detected(dev, adv)
            self._processed.append((self.loop.time(), "ble", id_))
        except Exception as e:  # noqa: BLE001
            self._errors.append((self.loop.time(), "scanner-callback", e))

    def processed_valid(self):
        out = {}
        for t, k, id_ in self._processed:
            out.setdefault((k, id_), []).append(t)
        for (t, kind, name) in self.m.processed:
            out.setdefault((kind, IDS[0 if name.startswith("acc0") else 1]), []).append(t)
        return out

    def errors(self):
        return self._errors + [(t, k, e) for t, k, e in self.m.callback_errors]

    def processing_lag(self):
        return None

    async def stop(self):
        try:
            await self.ip.async_stop()
        except Exception:  # noqa: BLE001
            pass
        self.m.restore()


def run_ble_schedule(case, R):
    evs = case["events"]
    n_wait = sum(1 for e in evs if e[1] == "wait")
    n_adv = sum(1 for e in evs if e[1] == "adv")
    R.nt(n_wait >= 1 and n_adv >= 1)
    R.cls(f"ble waiters={n_wait}", "pairing:" + case.get("pairing", "none"))

    async def main(loop):
        await run_schedule(loop, R, case, lambda lp: BleScheduleWorld(lp, case.get("pairing", "none")))
    vtime.run(main)


# ---------------------------------------------------------------- strategies for schedules
TIMES = st.sampled_from([0.0, 0.5, 1.0, 1.5, 2.0, 5.0, 9.5, 10.0, 10.5, 11.0, 29.5, 30.0])
TIMEOUTS = st.sampled_from([0.5, 1, 10, 30])


@st.composite
def schedules(draw, ctls, adv_lead=0.5):
    events = []
    nw = draw(st.integers(1, 3))
    for _ in range(nw):
        t = draw(TIMES)
        ctl = draw(st.sampled_from(ctls))
        id_ = IDS[draw(st.integers(0, 1))]
        if ctl in ("ip", "coap", "agg") and draw(st.booleans()):
            id_ = id_.upper()
        cancel = draw(st.sampled_from([None, None, None, 0.2, 3.0]))
        events.append([t, "wait", ctl, id_, draw(TIMEOUTS), cancel])
    na = draw(st.integers(0, 3))
    for _ in range(na):
        # aim some advertisements at a waiter's deadline (minus the resolve delay) so that both callback orders occur
        if draw(st.booleans()):
            w = events[draw(st.integers(0, nw - 1))]
            t = max(0.0, w[0] + w[4] - adv_lead + draw(st.sampled_from([0.0, 0.0, -0.25, 0.25])))
        else:
            t = draw(TIMES)
        events.append([t, "adv", draw(st.integers(0, 1)), draw(st.integers(0, 255)), draw(st.integers(0, 1))])
        if draw(st.integers(0, 3)) == 0:        # the same id under the other service name at the same instant: two records processed back to back
            events.append([t, "adv", events[-1][2], events[-1][3] ^ 128, 1])
    if "ble" not in ctls and draw(st.integers(0, 2)) == 0:
        # goodbye packets (an accessory rebooting): close to an announcement, so that some land inside the 0.5 s resolve delay
        for e in [e for e in events if e[1] == "adv"][:2]:
            events.append([max(0.0, e[0] + draw(st.sampled_from([-0.25, 0.0, 0.25, 0.25, 0.75]))), "bye", e[2], e[3] & 64])
            if draw(st.booleans()):
                events.append([e[0] + draw(st.sampled_from([0.3, 0.6, 1.0, 2.0])), "adv", e[2], e[3], 0])
    case = {"events": events, "pairing": draw(st.sampled_from(["none", "none", "cached", "uncached"]))}
    if "ble" not in ctls and draw(st.integers(0, 3)) == 0:
        pre = [["adv", draw(st.integers(0, 1)), draw(st.integers(0, 255))] for _ in range(draw(st.integers(1, 2)))]
        pre.insert(draw(st.integers(0, len(pre))), ["bad-ptr"])
        case["prestart"] = pre
    return case


def enum_schedules(tier):
    for pairing in ("none", "cached", "uncached"):
        for ctl in ("ip", "coap", "agg"):
            hap = 64 if ctl == "coap" else 0
            # two records for the same id processed in the same loop iteration (two service names), repeatedly
            yield {"pairing": pairing, "events": [[0.0, "wait", ctl, IDS[0], 10, None], [1.0, "adv", 0, hap, 0], [1.0, "adv", 0, hap | 128, 1], [3.0, "adv", 0, hap | 128, 0], [3.0, "adv", 0, hap, 1],
                                                  [6.0, "wait", ctl, IDS[0], 2, None]]}
            # the cache already holds records when the controller starts: a PTR with a malformed alias in front of / behind valid ones
            for pre in ([["bad-ptr"], ["adv", 0, hap], ["adv", 1, hap]], [["adv", 0, hap], ["bad-ptr"], ["adv", 1, hap]]):
                yield {"pairing": pairing, "prestart": pre, "events": [[0.5, "wait", ctl, IDS[0], 3, None], [0.5, "wait", ctl, IDS[1], 3, None]]}
    for pairing in ("none", "cached", "uncached"):
        for ctl in ("ip", "coap", "agg"):
            hap = 64 if ctl == "coap" else 0
            for bye_dt in (0.25, 0.75):
                for again in (0.3, 0.6, 2.0):
                    yield {"pairing": pairing, "events": [[0.0, "wait", ctl, IDS[0], 10, None], [1.0, "adv", 0, hap, 0], [1.0 + bye_dt, "bye", 0, hap], [1.0 + bye_dt + again, "adv", 0, hap, 0],
                                                          [6.0, "wait", ctl, IDS[0], 2, None]]}
            yield {"pairing": pairing, "events": [[0.0, "wait", ctl, IDS[0].upper(), 10, None], [0.0, "wait", ctl, IDS[0], 3, None], [0.0, "wait", ctl, IDS[1], 5, None],
                                                  [2.0, "adv", 0, 1 | hap, 0]]}
            for dt in (-0.25, 0.0, 0.25, -5e-10):
                # (-5e-10: record and deadline fall due in the same loop iteration - asyncio's clock resolution is 1e-9 -, the record first)
                for order in (0, 1):
                    yield {"pairing": pairing, "events": [[1.0, "wait", ctl, IDS[0], 10, None], [11.0 - 0.5 + dt, "adv", 0, hap, order], [20.0, "wait", ctl, IDS[0], 1, None]]}
            yield {"pairing": pairing, "events": [[0.0, "adv", 1, 3 | hap, 0], [5.0, "wait", ctl, IDS[1], 1, None], [5.0, "wait", ctl, IDS[0], 1, 0.2]]}


def enum_ble_schedules(tier):
    for pairing in ("none", "cached", "uncached"):
        for ctl in ("ble", "agg-ble"):
            yield {"pairing": pairing, "events": [[0.0, "wait", ctl, IDS[0], 10, None], [0.0, "wait", ctl, IDS[0], 3, None], [0.0, "wait", ctl, IDS[1], 5, None], [1.0, "adv", 0, 1, 0]]}
            for dt in (-0.25, 0.0, 0.25):
                for order in (0, 1):
                    yield {"pairing": pairing, "events": [[1.0, "wait", ctl, IDS[0], 10, None], [11.0 + dt, "adv", 0, 0, order], [20.0, "wait", ctl, IDS[0], 1, None]]}
            yield {"pairing": pairing, "events": [[0.0, "adv", 1, 3, 0], [5.0, "wait", ctl, IDS[1], 1, None], [5.0, "wait", ctl, IDS[0], 1, 0.2], [5.2, "adv", 0, 0, 0]]}


# ---------------------------------------------------------------- advertisement contents: mDNS
def run_mdns_parse(case, R):
    rec = case["rec"]
    props = {bytes(k) if not isinstance(k, str) else k.encode(): (None if v is None else bytes(v) if not isinstance(v, str) else v.encode()) for k, v in rec["props"]}
    # a key that is present without "=value" carries no value: for the description it is as good as absent
    lower = {k.decode("utf-8", "replace").lower(): v for k, v in props.items() if v is not None}
    addrs = rec["addrs"]
    valid_addrs = [a for a in addrs if not ipaddress.ip_address(a).is_link_local and not ipaddress.ip_address(a).is_unspecified]

    import re as _re
    unconstrained = []

    def num(key, default):
        """int = advertised non-negative number; None = text no integer parser accepts (must be ignored); "free" = only 'does not raise'"""
        v = lower.get(key)
        if v is None:
            return default
        try:
            s = v.decode("utf-8")
        except UnicodeDecodeError:
            unconstrained.append(key)
            return "free"
        if _re.fullmatch(r"\d+", s):
            return int(s)
        if _re.fullmatch(r"[0-9a-zA-Z.]*[a-zA-Z.][0-9a-zA-Z.]*", s) or s == "":
            return None          # "x", "1.5", "0x10", "1e3", "": not an integer in any reading
        unconstrained.append(key)
        return "free"            # negative, padded, non-ASCII digits, ...
    nums = {k: num(k, d) for k, d in (("c#", 0), ("s#", 0), ("sf", 0), ("ff", 0), ("ci", 1))}
    id_raw = lower.get("id")
    try:
        id_txt = id_raw.decode("utf-8") if id_raw is not None else None
    except UnicodeDecodeError:
        id_txt = None
    wellformed = bool(valid_addrs) and bool(id_txt) and all(isinstance(v, int) for v in nums.values()) and all(_utf8(v) for v in props.values() if v is not None)
    R.nt(not wellformed or case.get("pairing", "none") != "none")
    R.cls("mdns-parse:" + ("wellformed" if wellformed else "malformed"), "pairing:" + case.get("pairing", "none"))

    async def main(loop):
        m = MdnsWorld(loop)
        try:
            cache = CharacteristicCacheMemory()
            ctl = m.make("ip", cache)
            await ctl.async_start()
            if case.get("pairing", "none") != "none" and id_txt:
                if case["pairing"] == "cached":
                    cache.async_create_or_update_map(id_txt, 1, BLE_DB, None, None)
                try:
                    ctl.load_pairing("alias", dict(PD_IP, AccessoryPairingID=id_txt))
                except Exception:  # noqa: BLE001
                    pass
            woken = []
            wid = (id_txt or "aa:bb:cc:00:00:01")

            async def waiter():
                try:
                    d = await ctl.async_find(wid, 5)
                    woken.append(d)
                except AccessoryNotFoundError:
                    pass
            t = asyncio.ensure_future(waiter())
            await asyncio.sleep(0.1)
            m.announce({"name": rec.get("name", "dev"), "props": props, "addrs": addrs, "port": rec.get("port", 8080)})
            await asyncio.sleep(2)
            await vtime.settle(loop)
            what = f"record props={props!r:.300} addrs={addrs}"
            if m.callback_errors:
                tt, k, e = m.callback_errors[0]
                R.fail("C19.callback-raises", f"{what}: {k} raised {type(e).__name__}: {e}", exc=type(e).__name__, where="mdns")
                return
            if wellformed:
                d = ctl.discoveries.get(id_txt.lower())
                if d is None:
                    R.fail("C19.valid-advertisement-ignored", f"{what}: no discovery for {id_txt.lower()!r} (discoveries {list(ctl.discoveries)})")
                    return
                desc = d.description
                got_addrs = list(desc.addresses)
                v4 = [a for a in got_addrs if ":" not in a]
                ok = (desc.id == id_txt.lower() and {ipaddress.ip_address(a) for a in got_addrs} == {ipaddress.ip_address(a) for a in valid_addrs}
                      and got_addrs[:len(v4)] == v4 and desc.address == got_addrs[0]
                      and desc.config_num == nums["c#"] and desc.state_num == nums["s#"] and int(desc.status_flags) == nums["sf"]
                      and int(desc.feature_flags) == nums["ff"] and int(desc.category) == nums["ci"] and desc.port == rec.get("port", 8080))
                if not ok:
                    R.fail("C19.description-fields", f"{what}: parsed {desc!r:.400}; expected id {id_txt.lower()!r} addresses {valid_addrs} numbers {nums}")
                    return
                if not woken or woken[0].description.id != id_txt.lower():
                    R.fail("C19.waiter-outcome", f"{what}: waiter for {wid!r} not woken by a valid advertisement", ctl="ip", got="notfound", want="found")
            elif id_raw is None or not valid_addrs or any(v is None for v in nums.values()):
                # (an id that is present but not UTF-8 is only held to "does not raise")
                if ctl.discoveries or woken:
                    R.fail("C19.malformed-accepted", f"{what}: malformed advertisement produced discoveries {list(ctl.discoveries)} / woke {len(woken)} waiter(s)")
            t.cancel()
            await ctl.async_stop()
            for p in list(ctl.pairings.values()):
                await p.shutdown()
        finally:
            m.restore()
    vtime.run(main)


def _utf8(b):
    try:
        b.decode("utf-8")
        return True
    except UnicodeDecodeError:
        return False


NUMTXT = st.one_of(st.integers(0, 255).map(str), st.integers(0, 70000).map(str), st.sampled_from(["", "x", "1.5", "-1", " 7", "0x10", "١", "999999999999999999999", "1e3"]),
                   st.binary(min_size=1, max_size=3))
ADDR = st.sampled_from(["10.0.0.9", "192.168.1.20", "169.254.1.1", "0.0.0.0", "fd00::2", "fe80::1", "::", "2001:db8::5", "127.0.0.1"])


@st.composite
def mdns_records(draw):
    id_ = draw(st.sampled_from(["aa:bb:cc:00:00:01", "AA:BB:CC:00:00:01", "Aa:bB:cc:00:00:01"]))
    base = {"id": id_, "c#": "3", "s#": "4", "sf": "1", "ff": "2", "ci": "5", "md": "Model", "pv": "1.1"}
    nmut = draw(st.integers(0, 3))
    for _ in range(nmut):
        k = draw(st.sampled_from(["id", "c#", "s#", "sf", "ff", "ci", "md"]))
        op = draw(st.integers(0, 4))
        if op == 0:
            base.pop(k, None)
        elif op == 4:
            base[k] = None           # bare key, no "=value"
        elif k == "id":
            base[k] = draw(st.one_of(st.sampled_from(["", "zz", "AA:BB:CC:DD:EE:FF:00"]), st.binary(min_size=1, max_size=4)))
        elif k == "md":
            base[k] = draw(st.one_of(st.text(max_size=8), st.binary(min_size=1, max_size=4)))
        else:
            base[k] = draw(NUMTXT)
    if draw(st.integers(0, 5)) == 0:
        base["bare-flag"] = None
    upper = draw(st.booleans())
    props = [[(k.upper() if upper else k), v] for k, v in base.items()]
    addrs = draw(st.lists(ADDR, min_size=1, max_size=5, unique=True))
    return {"rec": {"props": props, "addrs": addrs, "port": draw(st.sampled_from([80, 8080, 51826])), "name": draw(st.sampled_from(["dev", "My Device", "dev-1"]))},
            "pairing": draw(st.sampled_from(["none", "none", "cached", "uncached"]))}


# ---------------------------------------------------------------- advertisement contents: BLE manufacturer data
def run_ble_parse(case, R):
    mfr = bytes(case["mfr"])
    company = case.get("company", 76)
    pairing = case.get("pairing", "none")
    valid = company == 76 and len(mfr) >= 15 and mfr[0] == 0x06
    R.nt(not valid or pairing != "none")
    R.cls("ble-parse:" + ("valid" if valid else "malformed"), "pairing:" + pairing)

    async def main(loop):
        cache = CharacteristicCacheMemory()
        ctl = BleController(char_cache=cache)
        if mfr[:1] == b"\x11":          # encrypted notification: type, length, advertising id
            dev_id = mfr[2:8].hex() if len(mfr) >= 8 else "aabbcc000001"
        else:
            dev_id = mfr[3:9].hex() if len(mfr) >= 9 else "aabbcc000001"
        hkid = ":".join(dev_id[i:i + 2] for i in range(0, 12, 2))
        if pairing != "none":
            if pairing == "cached":
                cache.async_create_or_update_map(hkid.upper(), 1, BLE_DB, None, 7)
            elif pairing == "cached-key-state":
                # everything an encrypted notification needs: broadcast key and a last state number
                cache.async_create_or_update_map(hkid.upper(), 1, BLE_DB, "ab" * 32, 7)
            elif pairing.startswith("cached-key"):
                # a broadcast key is cached, the state number is missing (older cache) or 0: the pairing has no description until a regular advertisement arrives
                cache.async_create_or_update_map(hkid.upper(), 1, BLE_DB, "ab" * 32, None if pairing.endswith("none") else 0)
            ctl.load_pairing("alias", dict(PD_IP, AccessoryPairingID=hkid.upper(), Connection="BLE", AccessoryAddress="00:11:22:33:44:55"))
        dev = BLEDevice("00:11:22:33:44:55", case.get("name", "Sim"), None)
        adv = AdvertisementData(local_name=case.get("name", "Sim"), manufacturer_data={company: mfr}, service_data={}, service_uuids=[], tx_power=None, rssi=-60, platform_data=())
        before = set(ctl.discoveries)
        try:
            ctl._device_detected(dev, adv)
            ctl._device_detected(dev, adv)       # a repeated advertisement takes the update path
        except Exception as e:  # noqa: BLE001
            R.fail("C19.callback-raises", f"manufacturer data {mfr.hex()} (company {company}, pairing {pairing}): {type(e).__name__}: {e}", exc=type(e).__name__, where="ble")
            return
        await vtime.settle(loop)
        if valid:
            d = ctl.discoveries.get(hkid)
            if d is None:
                R.fail("C19.valid-advertisement-ignored", f"manufacturer data {mfr.hex()}: no discovery for {hkid}")
                return
            desc = d.description
            acid, gsn, cn, cv = struct.unpack("<HHBB", mfr[9:15])
            if (desc.id, int(desc.category), desc.state_num, desc.config_num, int(desc.status_flags)) != (hkid, acid, gsn, cn, mfr[2]):
                R.fail("C19.description-fields", f"manufacturer data {mfr.hex()}: parsed {desc!r:.300}")
        elif set(ctl.discoveries) != before:
            R.fail("C19.malformed-accepted", f"manufacturer data {mfr.hex()} (company {company}): discoveries {list(ctl.discoveries)}")
    vtime.run(main)


def enum_ble_parse(tier):
    full = regular_adv(7, bytes.fromhex("aabbcc000001"))
    enc = bytes([0x11, 0x36]) + bytes.fromhex("aabbcc000001") + bytes(16)
    for pairing in ("none", "cached", "uncached", "cached-key-none", "cached-key-zero", "cached-key-state"):
        for n in range(0, len(full) + 1):
            yield {"mfr": full[:n], "pairing": pairing}
        for n in range(0, len(enc) + 1):
            yield {"mfr": enc[:n], "pairing": pairing}
        yield {"mfr": full, "pairing": pairing, "company": 77}
        yield {"mfr": b"\x07" + full[1:], "pairing": pairing}
        yield {"mfr": full[:9] + struct.pack("<HHBB", 9999, 1, 1, 2) + full[15:], "pairing": pairing}
        yield {"mfr": full, "pairing": pairing, "name": None}


@st.composite
def ble_mfr(draw):
    mode = draw(st.integers(0, 3))
    full = bytearray(regular_adv(draw(st.integers(0, 65535)), bytes.fromhex("aabbcc000001"), cn=draw(st.integers(0, 255))))
    if mode == 0:
        data = draw(st.binary(max_size=30))
    elif mode == 1:
        for _ in range(draw(st.integers(1, 3))):
            full[draw(st.integers(0, len(full) - 1))] = draw(st.integers(0, 255))
        data = bytes(full)
    elif mode == 2:
        data = bytes(full[:draw(st.integers(0, len(full)))])
    else:
        data = bytes([0x11, draw(st.integers(0, 255))]) + bytes.fromhex("aabbcc000001") + draw(st.binary(max_size=20))
    return {"mfr": data, "pairing": draw(st.sampled_from(["none", "cached", "uncached", "cached-key-none", "cached-key-zero", "cached-key-state", "cached-key-state"])), "company": draw(st.sampled_from([76, 76, 76, 6, 77]))}


def fuzz_target(data, R):
    if not data:
        return
    run_ble_parse({"mfr": data[1:], "pairing": ["none", "cached", "uncached"][data[0] % 3], "company": 76 if data[0] < 240 else 77}, R)


def run_fuzz(case, R):
    import os

    from vlib.fuzzdrv import run_campaign
    corpus = [] if case["corpus"] == "empty" else [bytes([i]) + regular_adv(7, bytes.fromhex("aabbcc000001")) for i in range(3)] + \
        [bytes([1, 0x11, 0x36]) + bytes.fromhex("aabbcc000001") + bytes(16)]
    execs, data, failures = run_campaign(R, "props.c19", "fuzz_target", case["runs"], int(os.environ.get("VERIF_SEED") or 1), corpus, max_len=40)
    R.sub = max(0, execs - 1)
    R.nt()
    R.cls("atheris:" + case["corpus"])
    if data is not None:
        fuzz_target(data, R)
        if not R.failures:
            R.fail("C19.fuzz-unreproducible", f"atheris reported {failures!r:.300} for {data.hex()} but the oracle passes on replay")


SPEC = Property(
    P, "exploration",
    rule=("schedules of 1..3 waiters (timeouts 0.5/1/10/30 s, ids in either case, optional cancellation) and 0..3 advertisements at generated "
          "virtual instants - half of them aimed at a waiter's deadline (-0.25/0/+0.25 s, both scheduling orders) - on the mDNS-based IP and "
          "CoAP controllers, the BLE controller and the aggregate controller, with no pairing / a pairing with cached state / a pairing "
          "without cached state loaded for the advertised id; advertisement contents: TXT keys in either case, missing keys, keys without a value, "
          "non-numeric/empty/huge/negative/binary values, address lists mixing IPv4, IPv6, link-local, unspecified; BLE manufacturer data: "
          "every truncation of a valid regular and of an encrypted advertisement, random bytes, byte substitutions, wrong company id / "
          "type byte. Non-trivial: an advertisement while a waiter waits, malformed content, or a loaded pairing."),
    layers=[
        Layer("mdns-schedules-fixed", run_mdns_schedule, enumerate=enum_schedules, exhaustive=True, space="3 pairing states x 3 controllers x 14 schedules incl. the deadline race in both orders and goodbye packets inside / outside the resolve delay", min_nontrivial=50),
        Layer("mdns-schedules", run_mdns_schedule, strategy=lambda: schedules(["ip", "coap", "agg"]), n={"quick": 6000, "thorough": 60000}, min_nontrivial=200),
        Layer("ble-schedules-fixed", run_ble_schedule, enumerate=enum_ble_schedules, exhaustive=True, space="3 pairing states x 2 controllers x 8 schedules", min_nontrivial=30),
        Layer("ble-schedules", run_ble_schedule, strategy=lambda: schedules(["ble", "agg-ble"], adv_lead=0.0), n={"quick": 6000, "thorough": 60000}, min_nontrivial=200),
        Layer("mdns-contents", run_mdns_parse, strategy=mdns_records, n={"quick": 6000, "thorough": 60000}, min_nontrivial=200),
        Layer("ble-contents-truncations", run_ble_parse, enumerate=enum_ble_parse, exhaustive=True, space="every prefix of a regular (19 bytes) and an encrypted (24 bytes) advertisement x 5 pairing states (none, cached, uncached, cached key without / with zero state number); wrong company / type / category", min_nontrivial=100),
        Layer("ble-contents", run_ble_parse, strategy=ble_mfr, n={"quick": 9000, "thorough": 80000}, min_nontrivial=300),
        Layer("ble-contents-atheris", run_fuzz, enumerate=lambda tier: iter([{"corpus": "empty", "runs": 400000}, {"corpus": "seeded", "runs": 400000}]), tiers=("thorough",),
              space="two libFuzzer campaigns of 400k executions on BleController._device_detected (first byte selects the pairing state), oracle inside the target"),
    ],
    assumptions=["zeroconf's cache is filled directly and the browser callback fired by the harness; the scanner is not started",
                 "waiters on the BLE controller use the lower-case id (only the mDNS controllers normalise the id a caller passes)",
                 "an advertisement processed at exactly a waiter's deadline (or cancellation instant) may go either way",
                 "negative or non-numeric TXT numbers are only held to 'does not raise'"],
    min_nontrivial=800,
)

"""C16 - structured TLV8 messages round-trip for every defined message type (DESIGN 4/C16)."""
import dataclasses
import enum
import importlib
import pkgutil
import struct
from collections import abc

from hypothesis import strategies as st

import aiohomekit
from aiohomekit import tlv8
from aiohomekit.tlv8 import TLVStruct
from vlib import refhap
from vlib.runner import HarnessError, Layer, Property

P = "C16"
SIZES = [1, 2, 254, 255, 256, 257, 509, 510, 511, 512]
INT_W = {"u8": 1, "u16": 2, "bu16": 2, "u32": 4, "u64": 8, "u128": 16}
# 128-bit values as accessories really send them: types on the HAP base UUID (xxxxxxxx-0000-1000-8000-0026BB765291) and a vendor UUID
HAP_BASE = 0x0000_0000_0000_1000_8000_0026BB765291
REAL_UUIDS = [HAP_BASE | (t << 96) for t in (0x25, 0x3E, 0x23, 0xA5, 0x0706)] + [0xE863F10A_079E_48FF_8F27_9C2605A29F52]


def all_struct_classes():
    for m in pkgutil.walk_packages(aiohomekit.__path__, "aiohomekit."):
        if m.name.endswith("__main__"):
            continue
        try:
            importlib.import_module(m.name)
        except Exception:  # noqa: BLE001  optional back-ends may be missing
            pass
    seen = []

    def walk(c):
        for s in c.__subclasses__():
            if s not in seen and dataclasses.is_dataclass(s):
                seen.append(s)
            walk(s)
    walk(TLVStruct)
    return sorted(seen, key=lambda c: (c.__module__, c.__qualname__))


CLASSES = all_struct_classes()
BY_NAME = {f"{c.__module__}.{c.__qualname__}": c for c in CLASSES}


def kind(tp):
    """Classify an annotation without using the tree's serializer tables."""
    origin = getattr(tp, "__origin__", None)
    if origin is abc.Sequence:
        inner = tp.__args__[0]
        k = kind(inner)
        return ("seq", k, inner)
    if isinstance(tp, type):
        if tp.__name__ in INT_W and issubclass(tp, int):
            return ("int", tp.__name__, tp)
        if issubclass(tp, enum.IntEnum):
            return ("enum", None, tp)
        if issubclass(tp, TLVStruct):
            return ("struct", None, tp)
        if tp is str:
            return ("str", None, tp)
        if tp is bytes:
            return ("bytes", None, tp)
        if tp is float:
            return ("float", None, tp)
    return ("unknown", None, tp)


def init_fields(cls):
    return [f for f in dataclasses.fields(cls) if f.init]


def decoder_alias_losers(cls):
    """Fields that share a TLV type with a later-declared field (the decoder maps the type to
    the later one).  Independent of the tree: computed from declaration order."""
    last = {}
    for f in init_fields(cls):
        last[f.metadata["tlv_type"]] = f.name
    return {f.name for f in init_fields(cls) if last[f.metadata["tlv_type"]] != f.name}


def pat(n, salt=0):
    return bytes((i * 11 + salt * 5 + n) & 0xFF for i in range(n))


# ---------------------------------------------------------------- building objects / reference encoding from a JSON-able value
def build(cls, val):
    kw = {}
    for f in init_fields(cls):
        if f.name not in val:
            continue
        kw[f.name] = build_field(kind(f.type), val[f.name])
    return cls(**kw)


def build_field(k, v):
    if k[0] == "int":
        return int(v)
    if k[0] == "enum":
        return k[2](int(v))
    if k[0] == "struct":
        return build(k[2], v)
    if k[0] == "str":
        return str(v)
    if k[0] == "bytes":
        return bytes(v)
    if k[0] == "seq":
        return [build_field(k[1], x) for x in v]
    raise HarnessError(f"cannot build {k}")


def ref_items(cls, val):
    items = []
    for f in init_fields(cls):
        if f.name not in val:
            continue
        items.append((int(f.metadata["tlv_type"]), ref_value(kind(f.type), val[f.name])))
    return items


def ref_value(k, v):
    if k[0] == "int":
        return int(v).to_bytes(INT_W[k[1]], "big" if k[1] == "bu16" else "little")
    if k[0] == "enum":
        return bytes([int(v)])
    if k[0] == "struct":
        return ref_items(k[2], v)
    if k[0] == "str":
        return str(v).encode("utf-8")
    if k[0] == "bytes":
        return bytes(v)
    if k[0] == "seq" and k[1][0] == "struct":
        return ("list", [ref_items(k[1][2], x) for x in v])
    raise HarnessError(f"cannot reference-encode {k}")


def measure(cls, val, depth=1):
    """(max encoded field size, max list length, max depth)"""
    mx, ml, md = 0, 0, depth
    for f in init_fields(cls):
        if f.name not in val:
            continue
        k = kind(f.type)
        v = val[f.name]
        rv = ref_value(k, v)
        mx = max(mx, len(refhap.enc_struct([(0, rv)])) - 2 if not isinstance(rv, bytes) else len(rv))
        if k[0] == "struct":
            a, b, c = measure(k[2], v, depth + 1)
            mx, ml, md = max(mx, a), max(ml, b), max(md, c)
        if k[0] == "seq":
            ml = max(ml, len(v))
            for x in v:
                a, b, c = measure(k[1][2], x, depth + 1)
                mx, ml, md = max(mx, a), max(ml, b), max(md, c)
    return mx, ml, md


def scribble(o, depth=0):
    """Overwrite every field of a decoded message (recursively) with a different value."""
    if dataclasses.is_dataclass(o) and not isinstance(o, type):
        for f in dataclasses.fields(o):
            v = getattr(o, f.name, None)
            if dataclasses.is_dataclass(v) or isinstance(v, list):
                scribble(v, depth + 1)
            try:
                if isinstance(v, bool) or v is None:
                    continue
                if isinstance(v, int):
                    object.__setattr__(o, f.name, type(v)(int(v) ^ 1) if not isinstance(v, enum.IntEnum) else v)
                elif isinstance(v, (bytes, str)):
                    object.__setattr__(o, f.name, v[:0])
            except Exception:  # noqa: BLE001
                pass
        if hasattr(o, "_value"):
            try:
                o._value = b"\xee"
            except Exception:  # noqa: BLE001
                pass
    elif isinstance(o, list):
        for x in o:
            scribble(x, depth + 1)
        if o:
            o.pop()


def run_roundtrip(case, R):
    cls = BY_NAME.get(case["cls"])
    if cls is None:
        raise HarnessError(f"class {case['cls']} not found by reflection")
    val = case["val"]
    obj = build(cls, val)
    mx, ml, md = measure(cls, val)
    R.nt(mx >= 255 or ml >= 2 or md >= 2)
    R.cls("class:" + cls.__qualname__)
    if mx >= 255:
        R.cls("field>=255")
    if ml >= 2:
        R.cls("list>=2")
    if md >= 2:
        R.cls(f"depth>={min(md, 4)}")
    aliased = sorted(set(val) & decoder_alias_losers(cls))
    ctx = {"cls": cls.__qualname__}
    if aliased:
        ctx["alias_fields"] = "|".join(aliased)
    try:
        encoded = obj.encode()
    except Exception as e:  # noqa: BLE001
        R.fail("C16.encode-raises", f"{cls.__qualname__} {val!r:.300}: {type(e).__name__}: {e}", exc=type(e).__name__, **ctx)
        return
    ref = refhap.enc_struct(ref_items(cls, val))
    if bytes(encoded) != ref:
        R.fail("C16.encode-not-canonical", f"{cls.__qualname__}: got {bytes(encoded).hex()[:300]} reference {ref.hex()[:300]}", **ctx)
        return
    try:
        back = cls.decode(encoded)
    except Exception as e:  # noqa: BLE001
        R.fail("C16.decode-raises", f"{cls.__qualname__} {ref.hex()[:300]}: {type(e).__name__}: {e}", exc=type(e).__name__, **ctx)
        return
    if back != obj:
        R.fail("C16.roundtrip", f"{cls.__qualname__}: decode(encode(x)) = {back!r:.400} != x = {obj!r:.400}", **ctx)
        return
    # a decoded message belongs to its caller: changing it must not change what the next decode of the same bytes returns
    scribble(back)
    try:
        again = cls.decode(encoded)
    except Exception as e:  # noqa: BLE001
        R.fail("C16.decode-raises", f"{cls.__qualname__} second decode: {type(e).__name__}: {e}", exc=type(e).__name__, **ctx)
        return
    if again != obj:
        R.fail("C16.decode-shares-state", f"{cls.__qualname__}: after modifying a decoded message, decoding the same bytes again gives {again!r:.300} != {obj!r:.300}", **ctx)


# ---------------------------------------------------------------- struct-valued characteristics read through the model
def _struct_chars():
    from aiohomekit.model.characteristics.data import characteristics as table
    return sorted((t, bool(d.get("array")), d["struct"]) for t, d in table.items() if d.get("struct"))


def run_char_value(case, R):
    """Characteristic.value of a tlv8 characteristic with a declared message type: the base64 payload an accessory sends (for array
    characteristics the items joined by zero-length separators) must come back as the message(s) that were encoded."""
    import base64

    from aiohomekit.model import Accessory
    ctype, is_array, cls = next(x for x in _struct_chars() if x[0] == case["type"])
    vals = case["vals"]
    objs = [build(cls, v) for v in vals]
    R.nt(is_array and len(vals) != 1)
    R.cls("char-value:" + cls.__qualname__, f"array-items={len(vals)}" if is_array else "single")
    parts = [refhap.enc_struct(ref_items(cls, v)) for v in vals]
    raw = b"\x00\x00".join(parts) if is_array else parts[0]
    acc = Accessory(1)
    svc = acc.add_service("00000110-0000-1000-8000-0026BB765291")
    ch = svc.add_char(ctype)
    ch.set_value(base64.b64encode(raw).decode())
    ctx = {"cls": cls.__qualname__}
    try:
        got = ch.value
    except Exception as e:  # noqa: BLE001
        R.fail("C16.decode-raises", f"Characteristic.value for {ctype} payload {raw.hex()[:200]}: {type(e).__name__}: {e}", exc=type(e).__name__, **ctx)
        return
    want = objs if is_array else objs[0]
    if got != want:
        R.fail("C16.roundtrip", f"Characteristic.value for {ctype} payload {raw.hex()[:200]}: {got!r:.300} != {want!r:.300}", **ctx)


@st.composite
def char_value_cases(draw):
    chars = _struct_chars()
    ctype, is_array, cls = chars[draw(st.integers(0, len(chars) - 1))]
    n = draw(st.integers(0, 4)) if is_array else 1
    return {"type": ctype, "vals": [draw(struct_value(cls)) for _ in range(n)]}


def enum_char_value(tier):
    """Array characteristics: every ordered pair / triple of single-field boundary items (an item ending in 00 before the separator)."""
    for ctype, is_array, cls in _struct_chars():
        if not is_array:
            continue
        singles = []
        for f in init_fields(cls):
            k = kind(f.type)
            if k[0] == "enum":
                singles += [{f.name: int(m)} for m in k[2]]
            elif k[0] == "int":
                singles += [{f.name: v} for v in (0, 1, 255)]
        yield {"type": ctype, "vals": []}
        for a in singles:
            yield {"type": ctype, "vals": [a]}
            for b in singles:
                yield {"type": ctype, "vals": [a, b]}
                for c in singles[:3]:
                    yield {"type": ctype, "vals": [a, b, c]}


# ---------------------------------------------------------------- strategies
def utf8_text(nbytes, draw):
    """A str whose UTF-8 encoding has exactly nbytes bytes."""
    chars = []
    left = nbytes
    pool = [("a", 1), ("é", 2), ("€", 3), ("\U0001F600", 4), ("Z", 1), ("0", 1)]
    while left > 0:
        c, w = pool[draw(st.integers(0, len(pool) - 1))] if left > 8 or nbytes < 40 else ("x", 1)
        if w > left:
            c, w = "q", 1
        chars.append(c)
        left -= w
        if len(chars) > 40 and left > 8:      # long strings: fill the middle cheaply
            fill = left - 8
            chars.append("m" * fill)
            left -= fill
    return "".join(chars)


@st.composite
def field_value(draw, k, depth):
    if k[0] == "int":
        w = INT_W[k[1]]
        top = (1 << (8 * w)) - 1
        return draw(st.one_of(st.sampled_from(sorted({0, 1, 127, 128, 255, 256 & top, top, top - 1, top >> 1, 0x1000 & top, 0x0010} | (set(REAL_UUIDS) if w == 16 else set()))),
                              st.integers(0, top)))
    if k[0] == "enum":
        return int(draw(st.sampled_from(list(k[2]))))
    if k[0] == "struct":
        return draw(struct_value(k[2], depth + 1))
    if k[0] == "str":
        n = draw(st.one_of(st.sampled_from(SIZES), st.integers(1, 40), st.integers(1, 700)))
        text = utf8_text(n, draw)
        edge = draw(st.integers(0, 9))             # now and then a NUL / blank / line end at either end (a codec must not trim anything)
        if edge == 0:
            text = text[:-1] + "\x00"
        elif edge == 1:
            text = draw(st.sampled_from(["\x00", " ", "\n", "\t"])) + text[1:]
        elif edge == 2:
            text = text[:-1] + draw(st.sampled_from([" ", "\n", "\r", "\t"]))
        return text
    if k[0] == "bytes":
        n = draw(st.one_of(st.sampled_from(SIZES), st.integers(1, 24), st.integers(1, 700)))
        return draw(st.binary(min_size=n, max_size=n)) if n <= 24 else pat(n, draw(st.integers(0, 255)))
    if k[0] == "seq":
        items = draw(st.lists(struct_value(k[1][2], depth + 1), min_size=1, max_size=4 if depth < 2 else 2))
        if draw(st.integers(0, 3)) == 0:
            items = items + [items[0]]          # byte-identical neighbours are legal (two equal configurations)
        if draw(st.integers(0, 4)) == 0:
            # an item with no field set, anywhere but last (there the encoding has nothing behind the separator, and the tree reads no item)
            items.insert(draw(st.integers(0, len(items) - 1)), {})
        return items
    raise HarnessError(f"no strategy for {k}")


def encodable(f):
    k = kind(f.type)
    if k[0] in ("float", "unknown"):
        return False
    if k[0] == "seq" and k[1][0] != "struct":
        return False          # packed integer lists are decode-only in the tree (no serializer)
    return True


@st.composite
def struct_value(draw, cls, depth=1, allow_alias=False):
    losers = decoder_alias_losers(cls)
    fs = [f for f in init_fields(cls) if encodable(f) and (allow_alias or f.name not in losers)]
    if not fs:
        raise HarnessError(f"{cls} has no encodable fields")
    mode = draw(st.integers(0, 3))
    if mode == 0 or len(fs) == 1:
        chosen = fs
    else:
        mask = draw(st.lists(st.booleans(), min_size=len(fs), max_size=len(fs)))
        chosen = [f for f, m in zip(fs, mask) if m] or [fs[draw(st.integers(0, len(fs) - 1))]]
    if len(chosen) > 12:      # Meshcop has 40 fields; keep cases small
        idx = draw(st.lists(st.integers(0, len(chosen) - 1), min_size=1, max_size=8, unique=True))
        chosen = [chosen[i] for i in sorted(idx)]
    return {f.name: draw(field_value(kind(f.type), depth)) for f in chosen}


@st.composite
def roundtrip_cases(draw):
    cls = CLASSES[draw(st.integers(0, len(CLASSES) - 1))]
    return {"cls": f"{cls.__module__}.{cls.__qualname__}", "val": draw(struct_value(cls))}


def enum_boundary(tier):
    """Every class x every encodable field set alone at each boundary value / size / member."""
    for cls in CLASSES:
        name = f"{cls.__module__}.{cls.__qualname__}"
        losers = decoder_alias_losers(cls)
        for f in init_fields(cls):
            if not encodable(f) or f.name in losers:
                continue
            k = kind(f.type)
            if k[0] == "int":
                top = (1 << (8 * INT_W[k[1]])) - 1
                vals = sorted({0, 1, 0x10, 0xFF, 0x100 & top, 0x1000 & top, 0xFF00 & top, top, top - 1} | (set(REAL_UUIDS) if INT_W[k[1]] == 16 else set()))
            elif k[0] == "enum":
                vals = [int(m) for m in k[2]]
            elif k[0] == "bytes":
                vals = [pat(n, 3) for n in SIZES] + [b"\x00\x00", b"\x00", b"\xff" * 255, b"\x00" * 256]
            elif k[0] == "str":
                vals = ["a" * n for n in SIZES] + ["é" * 127 + "a", "é" * 128, "€" * 85, "€" * 170 + "a", "a\x00", "\x00", "ab\x00\x00", "\x00a", " a ", "a\n", "\ta", "a" * 254 + "\x00"]
            else:
                continue
            for v in vals:
                yield {"cls": name, "val": {f.name: v}}


# ---------------------------------------------------------------- two threads decoding a struct type for the first time
def full_value(cls, depth=1):
    """Every encodable field of cls set to a small value."""
    losers = decoder_alias_losers(cls)
    val = {}
    for f in init_fields(cls):
        if not encodable(f) or f.name in losers:
            continue
        k = kind(f.type)
        if k[0] == "int":
            val[f.name] = 1
        elif k[0] == "enum":
            val[f.name] = int(list(k[2])[0])
        elif k[0] == "bytes":
            val[f.name] = b"\x01"
        elif k[0] == "str":
            val[f.name] = "a"
        elif k[0] in ("struct", "seq") and depth < 5:
            inner = full_value(k[2] if k[0] == "struct" else k[1][2], depth + 1)
            if inner:           # an item with no field set at the end of a list is outside the encode domain (see field_value)
                val[f.name] = inner if k[0] == "struct" else [inner]
    return val


_TLV8_FILE = tlv8.__file__


def _decode_pair(sub, encoded, k):
    """Thread A decodes `encoded` as `sub` and is held at its k-th line event inside aiohomekit/tlv8.py while thread B
    decodes the same bytes from start to end; then A goes on.  The harness owns the switch point (sys.settrace in
    thread A only), so the schedule is a function of k.  -> (result A, result B, whether A was held inside decode)"""
    import sys
    import threading
    held = threading.Event()
    b_done = threading.Event()
    out = {"held_inside": False}
    n = [0]

    def tracer(frame, event, arg):
        if frame.f_code.co_filename != _TLV8_FILE:
            return None
        if event == "line":
            n[0] += 1
            if n[0] == k:
                out["held_inside"] = True
                held.set()
                if not b_done.wait(20):
                    out["stuck"] = True
        return tracer

    def run_a():
        sys.settrace(tracer)
        try:
            out["a"] = ("ok", sub.decode(encoded))
        except Exception as e:  # noqa: BLE001
            out["a"] = ("exc", e)
        finally:
            sys.settrace(None)
            held.set()

    def run_b():
        held.wait(20)
        try:
            out["b"] = ("ok", sub.decode(encoded))
        except Exception as e:  # noqa: BLE001
            out["b"] = ("exc", e)
        finally:
            b_done.set()

    ta, tb = threading.Thread(target=run_a), threading.Thread(target=run_b)
    ta.start()
    tb.start()
    ta.join(60)
    tb.join(60)
    if ta.is_alive() or tb.is_alive() or out.get("stuck") or "a" not in out or "b" not in out:
        raise HarnessError("thread schedule did not complete")
    out["events"] = n[0]
    return out


def run_first_decode_threads(case, R):
    cls = BY_NAME.get(case["cls"])
    if cls is None:
        raise HarnessError(f"class {case['cls']} not found by reflection")
    val = case["val"]
    ref = refhap.enc_struct(ref_items(cls, val))
    R.cls("class:" + cls.__qualname__)
    ks = case.get("ks")
    held_any = False
    k = 0
    while True:
        k += 1
        if ks is not None:
            if not ks:
                break
            k = ks.pop(0)
        # a type nobody has decoded yet in this process: same fields, same module, new class object
        sub = type(cls.__name__, (cls,), {"__module__": cls.__module__})
        obj = build(sub, val)
        out = _decode_pair(sub, ref, k)
        held_any = held_any or out["held_inside"]
        for who in ("a", "b"):
            tag, res = out[who]
            if tag == "exc":
                R.fail("C16.decode-raises", f"{cls.__qualname__}: thread {who.upper()} of two threads decoding the type for the first time "
                       f"(A held at line event {k} of tlv8.py): {type(res).__name__}: {res}", exc=type(res).__name__, cls=cls.__qualname__, threads=1)
                R.nt(True)
                return
            if res != obj:
                R.fail("C16.roundtrip", f"{cls.__qualname__}: thread {who.upper()} (A held at line event {k}) decoded {res!r:.300} != {obj!r:.300}",
                       cls=cls.__qualname__, threads=1)
                R.nt(True)
                return
        if ks is None and not out["held_inside"]:
            break               # k is past the last line event of a decode: every switch point was tried
        if k > 5000:
            raise HarnessError("decode does not end")
    R.nt(held_any)
    if held_any:
        R.cls("held-inside-decode")


def enum_first_decode(tier):
    for cls in CLASSES:
        if any(encodable(f) for f in init_fields(cls)):
            yield {"cls": f"{cls.__module__}.{cls.__qualname__}", "val": full_value(cls)}


@st.composite
def first_decode_cases(draw):
    c = draw(roundtrip_cases())
    c["ks"] = sorted(draw(st.lists(st.integers(1, 400), min_size=1, max_size=6, unique=True)))
    return c


# ---------------------------------------------------------------- decode-only: reference-encoded signatures and databases
FORMATS = {  # format byte -> (name, struct code)
    0x01: ("bool", "B"), 0x04: ("uint8", "B"), 0x06: ("uint16", "H"), 0x08: ("uint32", "L"),
    0x0A: ("uint64", "Q"), 0x10: ("int", "l"), 0x14: ("float", "f"), 0x19: ("string", None), 0x1B: ("data", None)}
UNITS = {0x272F: "celsius", 0x2763: "arcdegrees", 0x27AD: "percentage", 0x2700: "unitless", 0x2731: "lux", 0x2703: "seconds"}
PERM_BITS = [(0x0010, "pr"), (0x0020, "pw"), (0x0080, "ev"), (0x0004, "aa"), (0x0008, "tw"), (0x0040, "hd")]


@st.composite
def char_desc(draw, with_service=False, iid=None):
    fmt = draw(st.sampled_from(sorted(FORMATS)))
    name, code = FORMATS[fmt]
    d = {"type": draw(st.one_of(st.sampled_from([0x25, 0x23, 0x10, 0x0100, 0xFF, 1 << 120] + REAL_UUIDS), st.integers(1, (1 << 128) - 1))),
         "iid": iid if iid is not None else draw(st.one_of(st.sampled_from([1, 0x10, 0x100, 0x1000, 0xFF00, 65535]), st.integers(1, 65535))),
         "props": draw(st.integers(0, 0x3FF)), "fmt": fmt,
         "unit": draw(st.sampled_from(sorted(UNITS) + [0x1234]))}
    if code and name != "bool" and draw(st.booleans()):
        if code == "f":
            lo = draw(st.integers(-200, 200)) / 2
            d["range"] = [lo, lo + draw(st.integers(0, 400)) / 4]
            d["step"] = draw(st.sampled_from([0.5, 0.25, 1.0, 2.0]))
        else:
            size = struct.calcsize("<" + code)
            lo_lim, hi_lim = (-(1 << 31), (1 << 31) - 1) if code == "l" else (0, (1 << (8 * size)) - 1)
            lo = draw(st.integers(lo_lim, hi_lim))
            d["range"] = [lo, draw(st.integers(lo, hi_lim))]
            if draw(st.booleans()):
                d["step"] = draw(st.integers(1, min(1000, max(1, hi_lim))))
    if draw(st.integers(0, 3)) == 0:
        n = draw(st.sampled_from([1, 20, 254, 255, 256, 300, 511]))
        d["descr"] = pat(n, 9)
    if draw(st.integers(0, 4)) == 0:
        d["valid_values"] = draw(st.binary(min_size=1, max_size=6))
    if with_service:
        d["svc_iid"] = draw(st.integers(1, 65535))
        d["svc_type"] = draw(st.integers(1, (1 << 128) - 1))
    return d


def char_items(d, descr_type=0x0B):
    name, code = FORMATS[d["fmt"]]
    items = [(0x04, d["type"].to_bytes(16, "little")), (0x05, struct.pack("<H", d["iid"])),
             (0x0A, struct.pack("<H", d["props"])),
             (0x0C, struct.pack("<BbHBH", d["fmt"], 0, d["unit"], 1, 0))]
    if "range" in d:
        items.append((0x0D, struct.pack("<" + code * 2, *d["range"])))
    if "step" in d:
        items.append((0x0E, struct.pack("<" + code, d["step"])))
    if "valid_values" in d:
        items.append((0x11, d["valid_values"]))
    if "descr" in d:
        items.append((descr_type, d["descr"]))
    if "svc_iid" in d:
        items.append((0x07, struct.pack("<H", d["svc_iid"])))
        items.append((0x06, d["svc_type"].to_bytes(16, "little")))
    return items


def char_expected_dict(d, ble):
    name, code = FORMATS[d["fmt"]]
    exp = {"type": f"{d['type']:X}", "iid": d["iid"], "perms": [p for bit, p in PERM_BITS if d["props"] & bit], "format": name}
    if ble:
        if d["props"] & 0x0200:
            exp["broadcast_events"] = True
        if d["props"] & 0x0100:
            exp["disconnected_events"] = True
    u = UNITS.get(d["unit"])
    if u and u != "unitless":
        exp["unit"] = u
    if d.get("step"):
        exp["minStep"] = d["step"]
    if "range" in d:
        exp["minValue"], exp["maxValue"] = d["range"]
    return exp


def run_ble_char_sig(case, R):
    from aiohomekit.controller.ble.structs import Characteristic
    d = case["char"]
    raw = refhap.enc_struct(char_items(d))
    R.nt(len(d.get("descr", b"")) >= 255)
    R.cls("blesig:char")
    try:
        c = Characteristic.decode(raw)
        got = c.to_dict()
    except Exception as e:  # noqa: BLE001
        R.fail("C16.sig-decode-raises", f"{type(e).__name__}: {e} for {raw.hex()[:300]}", exc=type(e).__name__, what="ble-char")
        return
    exp = char_expected_dict(d, ble=True)
    if got != exp:
        R.fail("C16.sig-fields", f"to_dict {got} expected {exp}", what="ble-char")
    checks = [(c.type, d["type"]), (c.instance_id, d["iid"]), (c.properties, d["props"]),
              (c.user_description, d.get("descr")), (c.valid_values, d.get("valid_values")),
              (c.service_instance_id, struct.pack("<H", d["svc_iid"]) if "svc_iid" in d else None),
              (c.service_type, d["svc_type"].to_bytes(16, "little") if "svc_type" in d else None)]
    for a, b in checks:
        if a != b:
            R.fail("C16.sig-fields", f"decoded field {a!r:.100} != encoded {b!r:.100}", what="ble-char")
            break


def link_trigger(ids):
    """Independent predicate for the recorded finding: a packed id list that the TLV list
    splitter cannot represent (>= 2 ids, or a single id whose low byte is the separator type)."""
    if len(ids) >= 2:
        return "multi-id"
    if len(ids) == 1 and ids[0] & 0xFF == 0:
        return "single-id-low-byte-00"
    return "none"


def run_ble_service_sig(case, R):
    from aiohomekit.controller.ble.structs import Service
    ids = [int(x) for x in case["linked"]]
    props = case.get("props")
    items = []
    if props is not None:
        items.append((0x0F, struct.pack("<H", props)))
    if case.get("order") == "links-first":
        items.insert(0, (0x10, b"".join(struct.pack("<H", i) for i in ids)))
    else:
        items.append((0x10, b"".join(struct.pack("<H", i) for i in ids)))
    raw = refhap.enc_struct(items)
    R.nt(len(ids) >= 2)
    R.cls(f"blesig:service links={len(ids)}")
    if any(i & 0xFF == 0 for i in ids):
        R.cls("blesig:id with low byte 00")
    try:
        s = Service.decode(raw)
        got = s.to_dict()
    except Exception as e:  # noqa: BLE001
        if link_trigger(ids) != "none" and isinstance(e, IndexError):
            R.fail("C16.linked-ids", f"linked ids {ids}: decode raised {type(e).__name__}: {e} for {raw.hex()[:300]}", trigger=link_trigger(ids))
        else:
            R.fail("C16.sig-decode-raises", f"{type(e).__name__}: {e} for {raw.hex()[:300]}", exc=type(e).__name__, what="ble-service")
        return
    exp = {"perms": ["hd"] if (props or 0) & 2 else []}
    if ids:
        exp["linked"] = ids
    if list(s.linked_services or []) != ids:
        R.fail("C16.linked-ids", f"linked ids {ids} decoded as {s.linked_services!r:.200}", trigger=link_trigger(ids))
        got.pop("linked", None)
        exp.pop("linked", None)
    if got != exp:
        R.fail("C16.sig-fields", f"to_dict {got} expected {exp}", what="ble-service")
    if props is not None and s.service_properties != props:
        R.fail("C16.sig-fields", f"service_properties {s.service_properties} != {props}", what="ble-service")


def enum_linked(tier):
    # every byte value in the low and in the high byte of an id, lists of 0..6 ids
    yield {"linked": [], "props": 0}
    yield {"linked": []}
    for b in range(256):
        for other in (0x00, 0x01, 0x10, 0xFF):
            yield {"linked": [b | (other << 8)], "props": 1}
            yield {"linked": [other | (b << 8)], "props": 2}
            yield {"linked": [b | (other << 8), other | (b << 8)], "props": 3, "order": "links-first"}
    for n in range(2, 7):
        for base in (1, 0x0F, 0x10, 0xFF, 0x100, 0x1000, 0xFFF0):
            yield {"linked": [(base + 16 * i) & 0xFFFF or 1 for i in range(n)], "props": 0}
            yield {"linked": [(base * (i + 1)) & 0xFFFF or 1 for i in range(n)]}


@st.composite
def service_sig_cases(draw):
    return {"linked": draw(st.lists(st.one_of(st.integers(1, 65535), st.sampled_from([16, 32, 256, 0x1000, 0xFF00, 255])), max_size=6)),
            "props": draw(st.one_of(st.none(), st.integers(0, 7))),
            "order": draw(st.sampled_from(["props-first", "links-first"]))}


@st.composite
def db_cases(draw):
    safe = draw(st.booleans())      # half of the databases keep clear of the recorded linked-ids finding
    accs = []
    for a in range(draw(st.integers(1, 3))):
        svcs = []
        for s in range(draw(st.integers(1, 3))):
            chars = [draw(char_desc()) for _ in range(draw(st.integers(0, 4)))]
            svc = {"type": draw(st.one_of(st.sampled_from([0x3E, 0x43, 0x49]), st.integers(1, (1 << 128) - 1))),
                   "iid": draw(st.integers(1, 65535)), "chars": chars,
                   "linked": draw(st.lists(st.integers(1, 65535), max_size=4)) if not safe else
                   draw(st.lists(st.integers(1, 255).map(lambda lo: lo | 0x2000), max_size=1))}
            if draw(st.booleans()):
                svc["props"] = draw(st.integers(0, 7))
            svcs.append(svc)
        accs.append({"aid": draw(st.one_of(st.integers(1, 65535), st.just(1))), "services": svcs})
    return {"db": accs}


def db_items(accs):
    def svc_items(s):
        it = [(0x06, s["type"].to_bytes(16, "little")), (0x07, struct.pack("<H", s["iid"])),
              (0x14, ("list", [[(0x13, char_items(c))] for c in s["chars"]]))]
        if "props" in s:
            it.append((0x0F, struct.pack("<H", s["props"])))
        if s["linked"]:
            it.append((0x10, b"".join(struct.pack("<H", i) for i in s["linked"])))
        return it
    return [(0x18, ("list", [[(0x19, [(0x1A, struct.pack("<H", a["aid"])),
                                      (0x16, ("list", [[(0x15, svc_items(s))] for s in a["services"]]))])] for a in accs]))]


def run_db(case, R):
    from aiohomekit.controller.coap.structs import Pdu09Database
    accs = case["db"]
    raw = refhap.enc_struct(db_items(accs))
    nchars = sum(len(s["chars"]) for a in accs for s in a["services"])
    R.nt(len(raw) > 255 and (len(accs) >= 2 or nchars >= 2))
    R.cls(f"db:accessories={len(accs)}")
    if any(len(s["linked"]) >= 2 for a in accs for s in a["services"]):
        R.cls("db:linked>=2")
    if any(len(c.get("descr", b"")) >= 255 for a in accs for s in a["services"] for c in s["chars"]):
        R.cls("db:field>=255")
    try:
        db = Pdu09Database.decode(raw)
        got = db.to_dict()
    except Exception as e:  # noqa: BLE001
        trig = sorted({link_trigger(s["linked"]) for a in accs for s in a["services"]} - {"none"})
        if trig and isinstance(e, IndexError):
            R.fail("C16.linked-ids", f"decode raised {type(e).__name__}: {e} for {raw.hex()[:300]}", trigger=trig[0])
            R.exclude("known:linked-ids hides the rest of the case")
        else:
            R.fail("C16.db-decode-raises", f"{type(e).__name__}: {e} for {raw.hex()[:300]}", exc=type(e).__name__)
        return
    exp = []
    for a in accs:
        ss = []
        for s in a["services"]:
            e = {"type": f"{s['type']:X}", "iid": s["iid"], "characteristics": [char_expected_dict(c, ble=False) for c in s["chars"]]}
            if s["linked"]:
                e["linked"] = list(s["linked"])
            ss.append(e)
        exp.append({"aid": a["aid"], "services": ss})
    for a, ga, ea in zip(accs, got, exp):
        for s, gs, es in zip(a["services"], ga.get("services", []), ea["services"]):
            if gs.get("linked") != es.get("linked"):
                R.fail("C16.linked-ids", f"linked ids {s['linked']} decoded as {gs.get('linked')!r:.200}", trigger=link_trigger(s["linked"]))
    if _strip_links(got) != _strip_links(exp):
        R.fail("C16.db-fields", f"to_dict {_strip_links(got)!r:.600} expected {_strip_links(exp)!r:.600}", what="coap-db")
        return
    # the connection stores raw values on the decoded characteristics; a later decode of the same bytes must not see them
    for da in db.accessories:
        for ds in da.services:
            for dc in ds.characteristics:
                dc.raw_value = b"\x01"
    try:
        got2 = Pdu09Database.decode(raw).to_dict()
    except Exception as e:  # noqa: BLE001
        R.fail("C16.db-decode-raises", f"second decode: {type(e).__name__}: {e}", exc=type(e).__name__)
        return
    if _strip_links(got2) != _strip_links(exp):
        R.fail("C16.decode-shares-state", f"second decode of the same database differs after raw values were stored on the first: {_strip_links(got2)!r:.400}", cls="Pdu09Database")
        return
    db = Pdu09Database.decode(raw)
    for a, da in zip(accs, db.accessories):
        for s, ds in zip(a["services"], da.services):
            for c, dc in zip(s["chars"], ds.characteristics):
                if dc.user_descriptor != c.get("descr") or dc.valid_values != c.get("valid_values") or \
                        dc.presentation_format != struct.pack("<BbHBH", c["fmt"], 0, c["unit"], 1, 0):
                    R.fail("C16.db-fields", f"characteristic bytes fields differ: {dc!r:.300} vs {c!r:.300}", what="coap-db")
                    return
            if "props" in s and ds.properties != s["props"]:
                R.fail("C16.db-fields", f"service properties {ds.properties} != {s['props']}", what="coap-db")
                return


INT_FORMATS = {"uint8", "uint16", "uint32", "uint64", "int"}


def _strip_links(d):
    """Drop `linked` (compared separately) and fold the integer format names together: the CoAP
    structs deliberately report every integer presentation format as "int"."""
    out = []
    for a in d:
        ss = []
        for s in a["services"]:
            s2 = {k: v for k, v in s.items() if k not in ("linked", "characteristics")}
            s2["characteristics"] = [dict(c, format="int") if c.get("format") in INT_FORMATS else c for c in s["characteristics"]]
            ss.append(s2)
        out.append({"aid": a["aid"], "services": ss})
    return out


def enum_alias(tier):
    """Fields sharing a TLV type with a later-declared field (Meshcop 128/129): recorded finding."""
    for cls in CLASSES:
        for name in sorted(decoder_alias_losers(cls)):
            f = next(f for f in init_fields(cls) if f.name == name)
            if kind(f.type)[0] == "bytes":
                yield {"cls": f"{cls.__module__}.{cls.__qualname__}", "val": {name: b"\x01"}}
                yield {"cls": f"{cls.__module__}.{cls.__qualname__}", "val": {name: pat(300)}}


SPEC = Property(
    P, "exploration",
    rule=(f"every dataclass TLVStruct subclass found by reflection ({len(CLASSES)} at this commit) with type-directed "
          "generated field values (ints at boundaries, str/bytes of sizes 1,254,255,256,510,511 and random, every IntEnum "
          "member, nested structs, lists of 1..4 structs, unset fields); reference-encoded BLE characteristic/service "
          "signatures (0..6 linked ids, every byte value) and CoAP databases of 1..3 accessories x 1..3 services x 0..4 "
          "characteristics. Non-trivial: a field >=255 bytes, a list >=2 items, nesting depth >=2, >=2 linked ids, or a "
          "database >255 bytes with >=2 accessories/characteristics. Distinct by canonical JSON."),
    layers=[
        Layer("roundtrip-boundary", run_roundtrip, enumerate=enum_boundary, exhaustive=True,
              space="every class x every scalar field alone x boundary values / sizes / enum members", min_nontrivial=200),
        Layer("roundtrip-gen", run_roundtrip, strategy=roundtrip_cases, n={"quick": 10000, "thorough": 150000}, min_nontrivial=300),
        Layer("alias-fields", run_roundtrip, enumerate=enum_alias, exhaustive=True, space="first-declared fields of duplicated TLV types"),
        Layer("characteristic-value-arrays", run_char_value, enumerate=enum_char_value, exhaustive=True,
              space="array-valued tlv8 characteristics read through Characteristic.value: empty list, every item, ordered pair and triple of boundary items"),
        Layer("characteristic-value", run_char_value, strategy=char_value_cases, n={"quick": 1500, "thorough": 30000}),
        Layer("ble-char-signature", run_ble_char_sig, strategy=lambda: st.builds(lambda c: {"char": c}, char_desc(with_service=True)),
              n={"quick": 5000, "thorough": 60000}),
        Layer("ble-service-linked-grid", run_ble_service_sig, enumerate=enum_linked, exhaustive=True,
              space="ids with every byte value in low/high position, lists of 0..6 ids", min_nontrivial=500),
        Layer("ble-service-signature", run_ble_service_sig, strategy=service_sig_cases, n={"quick": 5000, "thorough": 60000}),
        Layer("coap-database", run_db, strategy=db_cases, n={"quick": 2500, "thorough": 40000}, min_nontrivial=100),
        Layer("first-decode-two-threads", run_first_decode_threads, enumerate=enum_first_decode, exhaustive=True,
              space="every class with all encodable fields set x every line of aiohomekit/tlv8.py at which the first decoding thread "
                    "can be pre-empted by a second thread decoding the same, never before decoded, type"),
        Layer("first-decode-two-threads-gen", run_first_decode_threads, strategy=first_decode_cases, n={"quick": 300, "thorough": 6000}),
    ],
    assumptions=["reference struct encoder vlib/refhap.enc_struct written from HAP-BLE 7.3.3 / TLV8 rules",
                 "every encoded field is >= 1 byte; float-annotated fields (no serializer in the tree) and packed integer lists "
                 "(decode-only) are left unset in the encode direction",
                 "a conformant accessory encodes a service without characteristics as an empty list item (14 00)"],
    min_nontrivial=1000,
)

"""C11 - a pairing never holds more than one open connection and leaks none (DESIGN 4/C11)."""
import itertools

from hypothesis import strategies as st

from props._recon import ALL_OUTCOMES, CONNECT_FAIL, SUCCESS, VERIFY_FAIL, run_history
from vlib.runner import Layer, Property

P = "C11"


def judge_factory(R, case):
    def judge(tr, rw):
        script = case.get("script", [])
        for clause, msg, ctx in tr.problems:
            if clause in ("busy-loop", "deadlock"):
                R.fail("C11." + clause, msg)
        # (1) whenever a new connection opens, the controller holds no other one
        for t, held, outcome in tr.new_conn_held:
            if held > 1:
                prev = [a for a in tr.attempts if a["end"] is not None and a["end"] <= t + 1e-9]
                why = prev[-1]["exc"] if prev else None
                R.fail("C11.two-connections", f"t={t}: a new connection opened while the controller still held {held - 1} other(s); "
                       f"previous attempt ended with {why} (script {script})", after=str(why))
                break
        # (2) at every idle point at most one connection is held, and none that the accessory cannot attribute to the current session
        for o in tr.obs:
            if o["held"] > 1:
                R.fail("C11.two-connections", f"t={o['time']}: controller holds {o['held']} connections at an idle point (script {script})", after="idle")
                break
        # (3) a connection whose setup failed is closed by the controller before the next attempt (no held connection while not connected and no attempt active)
        for o in tr.obs:
            if o["held"] >= 1 and not o["connected"] and o["active"] == 0 and not o["connector_alive"]:
                R.fail("C11.leak-after-failed-setup", f"t={o['time']}: not connected, no attempt in progress, yet {o['held']} connection(s) held open (script {script})")
                break
        # (4) close()/shutdown() never raise and leave nothing open
        for t0, kind, raised, t1 in tr.closes:
            if raised is not None:
                R.fail("C11.close-raises", f"{kind}() at t={t0} raised {type(raised).__name__}: {raised} (script {script})", exc=type(raised).__name__)
        idx = [i for i, (_, op, _) in enumerate(tr.ops) if op[0] in ("close", "shutdown")]
        if idx:
            i = idx[-1]
            kind = tr.ops[i][1][0]
            reopened = kind == "close" and any(op[0] in ("call", "open", "sub", "zc", "soon") for _, op, _ in tr.ops[i + 1:])
            if not reopened:
                for o in tr.obs[i:]:
                    if o["held"] or o["acc_open"]:
                        R.fail("C11.open-after-close", f"t={o['time']}: {o['held']} held / {o['acc_open']} open on the accessory after {kind}() "
                               f"at t={tr.ops[i][0]} (script {script})", kind=kind)
                        break
        # (5) loss of an abandoned connection does not disturb the current one
        for i, (t0, op, note) in enumerate(tr.ops):
            if op[0] == "dropold" and note == "dropped-old":
                before = tr.obs[i - 1] if i > 0 else None
                after = tr.obs[i]
                if before and before["connected"] and not after["connected"]:
                    R.fail("C11.abandoned-loss-disturbs-current", f"t={t0}: the accessory closed an abandoned connection and the session in use went down")
                if before and after["attempts"] != before["attempts"] and before["connected"]:
                    R.fail("C11.abandoned-loss-disturbs-current", f"t={t0}: loss of an abandoned connection started a new attempt")
    return judge


def run_case(case, R):
    script = case.get("script", [])
    ops = [o[0] for o in case["ops"]]
    failed_then_more = any(s not in SUCCESS for s in script[:-1]) or (script and script[0] not in SUCCESS and len(script) >= 1)
    R.nt(bool(failed_then_more) or "close" in ops or "shutdown" in ops)
    for s in set(script):
        R.cls("outcome:" + s)
    run_history(case, judge_factory(R, case), R)


# ---------------------------------------------------------------- enumerations / strategies
def enum_outcome_pairs(tier):
    """Every setup outcome followed by every other (then success), with a close at different points."""
    outs = ALL_OUTCOMES
    for a in outs:
        yield {"hosts": ["main"], "script": [a], "ops": [["open"], ["adv", 12], ["adv", 70], ["close"]]}
        yield {"hosts": ["main"], "script": [a], "ops": [["open"], ["adv", 0.2], ["close"], ["adv", 5]]}
        yield {"hosts": ["main"], "script": [a], "ops": [["sub"], ["open"], ["adv", 12], ["drop", "fin"], ["adv", 3], ["shutdown"], ["adv", 70]]}
    for kind in ("close", "shutdown"):
        for how in ("fin", "reset"):
            yield {"hosts": ["main"], "script": ["ok"], "ops": [["open"], ["adv", 1], [kind, "after-drop", how], ["adv", 5]]}
            yield {"hosts": ["main"], "script": ["ok"], "ops": [["sub"], ["open"], ["adv", 1], ["call", "none"], [kind, "after-drop", how], ["adv", 70]]}
    pairs = list(itertools.product(outs, repeat=2))
    for a, b in pairs:
        yield {"hosts": ["main"], "script": [a, b], "ops": [["open"], ["adv", 12], ["adv", 30], ["dropold", "fin"], ["adv", 1], ["call", "5"], ["adv", 80], ["close"], ["adv", 2]]}
    for a in outs:
        yield {"hosts": ["main", "other"], "script": [a, a], "ops": [["open"], ["adv", 15], ["dropold", "reset"], ["adv", 40], ["close"]]}
        yield {"hosts": ["other", "main"], "script": [a], "ops": [["open"], ["adv", 15], ["drop", "reset"], ["adv", 40], ["shutdown"]]}


OPS = st.one_of(
    st.tuples(st.just("adv"), st.sampled_from([0.1, 0.5, 1, 5, 10, 11, 30, 61])).map(list),
    st.tuples(st.just("adv"), st.sampled_from([0.1, 1, 12])).map(list),
    st.tuples(st.just("call"), st.sampled_from(["none", "0.1", "5", "cancel:0.3", "cancel:3"])).map(list),
    st.just(["open"]), st.just(["sub"]), st.just(["soon"]),
    st.tuples(st.just("zc"), st.sampled_from(["same", "rotate", "add", "port", "drop-first", "move-main"])).map(list),
    st.tuples(st.just("drop"), st.sampled_from(["fin", "reset"])).map(list),
    st.tuples(st.just("dropold"), st.sampled_from(["fin", "reset"])).map(list),
    st.just(["close"]), st.just(["shutdown"]), st.just(["stall"]),
    st.tuples(st.just("shutdown"), st.just("racing"), st.sampled_from(["call", "open", "sub", "zc"])).map(list),
    st.tuples(st.sampled_from(["close", "shutdown"]), st.just("after-drop"), st.sampled_from(["fin", "reset"])).map(list),
    st.tuples(st.just("garble"), st.sampled_from(["text", "bytes"])).map(list),
)


@st.composite
def histories(draw):
    nh = draw(st.integers(1, 3))
    roles = [draw(st.sampled_from(["main", "main", "main", "other", "dead", "blackhole"])) for _ in range(nh)]
    if "main" not in roles:
        roles[draw(st.integers(0, nh - 1))] = "main"
    script = draw(st.lists(st.sampled_from(ALL_OUTCOMES + ["ok", "ok"]), min_size=0, max_size=8))
    ops = [["open"]] + draw(st.lists(OPS, min_size=2, max_size=14))
    return {"hosts": roles, "script": script, "ops": ops, "k": draw(st.integers(0, 20))}


def run_two_pairings(case, R):
    """What happens to one pairing's connections (loss, abandonment, close, timeout) must not disturb the connection another pairing of the same
    process is using (harness and clauses of C08's two-pairings layer)."""
    from props.c08 import run_two
    run_two(case, R)


def enum_two_pairings(tier):
    from props.c08 import enum_two
    return enum_two(tier)


@st.composite
def reuse_histories(draw):
    case = draw(histories())
    case["reuse"] = True
    ops = case["ops"]
    # make sure there is a close somewhere in the middle and something after it
    pos = draw(st.integers(1, max(1, len(ops) - 1)))
    ops.insert(pos, ["close"])
    ops.append(draw(st.sampled_from([["open"], ["call", "none"], ["call", "5"]])))
    ops.append(["adv", draw(st.sampled_from([1, 12, 40]))])
    ops.append(["close"])
    ops.append(["adv", 2])
    return case


from props.coap_layers import C11_COAP_LAYERS as _COAP11  # noqa: E402


def run_remove_pairing(case, R):
    """Controller.remove_pairing(alias): refused or not, the controller forgets the pairing - its connection must be closed (cells and harness of C04's ip-pairings layer)."""
    from props.ble_layers import run_c04_ip
    run_c04_ip(case, R)


def enum_remove_pairing(tier):
    from props.ble_layers import enum_c04_ip
    return (c for c in enum_c04_ip(tier) if c.get("via") == "controller")


SPEC = Property(
    P, "fault_enumeration",
    rule=("address lists of 1..3 hosts (paired accessory / another accessory / refusing / black hole) x a per-attempt outcome script over "
          f"{len(ALL_OUTCOMES)} outcomes (refused, connect timeout, peer FIN/reset after M1 or M3, HTTP 4xx, wrong pairing id, bad signature, bad "
          "auth tag, error TLVs incl. authentication, malformed TLV, stalled verify, controller unknown to the accessory, damaged stored keys (ValueError / KeyError of the state machine), success, success "
          "then drop, success then FIN/reset during re-subscription) x harness events {caller request with/without timeout or "
          "cancellation, subscribe, advance time, zeroconf update, reconnect_soon, peer FIN/reset of the current and of an older "
          "connection, close, shutdown, close / shutdown directly after a FIN / RST the loop has not polled}. Exhaustive over every outcome and every pair of consecutive outcomes "
          "in fixed event frames; generated histories beyond. Non-trivial: a failed setup followed by another attempt, or a close."),
    layers=[
        Layer("outcome-pairs", run_case, enumerate=enum_outcome_pairs, exhaustive=True,
              space="every outcome x 3 frames, every ordered pair of outcomes x 1 frame, every outcome x 2 two-host frames", min_nontrivial=150),
        Layer("generated", run_case, strategy=histories, n={"quick": 12000, "thorough": 150000}, min_nontrivial=500),
        Layer("two-pairings", run_two_pairings, enumerate=enum_two_pairings, exhaustive=True,
              space="two pairings in one process: 9 disturbances of A's connection while B has a request outstanding; both creation orders", min_nontrivial=10),
        Layer("reuse-after-close", run_case, strategy=reuse_histories, n={"quick": 4000, "thorough": 60000}, min_nontrivial=200),
        *_COAP11,
        Layer("remove-pairing-via-controller", run_remove_pairing, enumerate=enum_remove_pairing, exhaustive=True,
              space="Controller.remove_pairing(alias) x 13 states x 13 errors of the accessory's answer", min_nontrivial=100),
    ],
    assumptions=["'holds a connection' = the controller has not called close()/abort() on the transport and has not been told it is lost",
                 "observations are taken when the event loop is idle, and at the instant each new connection is opened"],
    min_nontrivial=600,
)

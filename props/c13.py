"""C13 - reads and writes report per-characteristic outcomes faithfully (DESIGN 4/C13).  IP layers here; CoAP and BLE layers are
added by props/c13_coap.py / props/c13_ble.py when their simulations are present."""
import asyncio
import copy
import itertools
import json

from hypothesis import strategies as st

from aiohomekit.controller.ip.pairing import format_characteristic_list
from vlib import vtime
from vlib.ipworld import IpWorld
from props._listeners import attach as attach_listeners, check_same as listeners_agree
from vlib.runner import Layer, Property

P = "C13"
CODES = [0, -70401, -70402, -70403, -70404, -70405, -70406, -70407, -70408, -70409, -70410, -70411, -70412, 70402, -1, -12345, 5]
WRITABLE = {(1, 9): True, (1, 10): True, (1, 12): True, (2, 10): True, (1, 11): False, (1, 3): False}     # id -> readable?
READABLE_IDS = [(1, 9), (1, 10), (1, 12), (2, 10), (2, 9), (1, 2)]
MALFORMED = [True, 3, "x", None, {}, {"aid": 1}, {"iid": 9}, {"value": 1}, [], [1, 2]]


# ---------------------------------------------------------------- reads
def read_reply(ids, outcomes, global_status, listed, malformed, dup):
    chars = []
    for (aid, iid), oc, keep in zip(ids, outcomes, listed):
        if not keep:
            continue
        if oc == "value":
            chars.append({"aid": aid, "iid": iid, "value": aid * 1000 + iid})
        elif oc == "value+0":
            chars.append({"aid": aid, "iid": iid, "value": aid * 1000 + iid, "status": 0})
        else:
            chars.append({"aid": aid, "iid": iid, "status": oc})
    for pos, m in malformed:
        chars.insert(pos % (len(chars) + 1), copy.deepcopy(m))
    if dup and chars:
        d = next((c for c in chars if isinstance(c, dict) and "aid" in c and "iid" in c), None)
        if d:
            chars.append(copy.deepcopy(d))
    reply = {"characteristics": chars}
    if global_status is not None:
        reply["status"] = global_status
    return reply


def check_read(R, result, ids, outcomes, global_status, listed, what):
    for (key, oc, keep) in zip(ids, outcomes, listed):
        got = result.get(key)
        if keep:
            if oc in ("value", "value+0"):
                if got is None or got.get("value") != key[0] * 1000 + key[1] or got.get("status", 0) != 0:
                    R.fail("C13.read-value", f"{what}: {key} was answered with a value, result has {got!r}")
                    return
            elif oc == 0:
                if got is not None and got.get("status", 0) != 0:
                    R.fail("C13.read-status", f"{what}: {key} answered with status 0, result has {got!r}")
                    return
            else:
                if got is None or got.get("status") != oc:
                    R.fail("C13.read-status", f"{what}: {key} answered with status {oc}, result has {got!r}", code="positive" if oc > 0 else "negative")
                    return
        else:
            if global_status not in (None, 0):
                if got is None or got.get("status") != global_status:
                    R.fail("C13.read-global-status", f"{what}: {key} not mentioned, request-wide status {global_status}, result has {got!r}")
                    return
            elif got is not None:
                R.fail("C13.read-invented", f"{what}: {key} not mentioned and no request-wide error, result has {got!r}")
                return


def run_read(case, R):
    ids = [tuple(x) for x in case["ids"]]
    outcomes = case["outcomes"]
    listed = case.get("listed") or [True] * len(ids)
    gs = case.get("global")
    malformed = [(p, m) for p, m in case.get("malformed", [])]
    reply = read_reply(ids, outcomes, gs, listed, malformed, case.get("dup"))
    statuses = [o for o in outcomes if isinstance(o, int)]
    R.nt((any(o in ("value", "value+0") for o in outcomes) and any(isinstance(o, int) and o != 0 for o in outcomes))
         or any(isinstance(o, int) and (o > 0 or o in (-1, -12345)) for o in outcomes) or bool(malformed) or gs not in (None, 0))
    R.cls("read", "via:" + case.get("via", "direct"))
    what = f"read {ids} reply {json.dumps(reply)[:300]}"
    if case.get("via") == "world":
        async def main(loop):
            w = IpWorld(loop)

            def hook(conn, req):
                if req.method == "GET" and req.target.startswith("/characteristics?"):
                    body = json.dumps(reply, separators=(",", ":")).encode()
                    conn.send_http(207 if any(isinstance(o, int) and o != 0 for o in outcomes) else 200, "OK", body)
                    return True
                return False
            w.acc.on_request = hook
            try:
                try:
                    # the parameter is an Iterable: callers pass lists, sets, tuples and one-shot iterables alike
                    arg = {"set": set, "tuple": tuple, "iter": iter, "gen": lambda x: (i for i in x), "keys": lambda x: dict.fromkeys(x).keys()}.get(case.get("arg"), list)(ids)
                    R.cls("arg:" + str(case.get("arg", "list")))
                    res = await w.pairing.get_characteristics(arg)
                except Exception as e:  # noqa: BLE001
                    R.fail("C13.read-raises", f"{what}: {type(e).__name__}: {e}", exc=type(e).__name__)
                    return
                check_read(R, res, ids, outcomes, gs, listed, what)
            finally:
                await w.pairing.shutdown()
                w.restore()
        vtime.run(main)
        return
    try:
        res = format_characteristic_list(copy.deepcopy(reply), set(ids))
    except Exception as e:  # noqa: BLE001
        R.fail("C13.read-raises", f"{what}: {type(e).__name__}: {e}", exc=type(e).__name__)
        return
    check_read(R, res, ids, outcomes, gs, listed, what)


def enum_read(tier):
    outs = ["value", "value+0"] + CODES
    ids3 = [(1, 9), (2, 10), (1, 12)]
    for n in (1, 2, 3):
        for vec in itertools.product(outs, repeat=n):
            yield {"ids": ids3[:n], "outcomes": list(vec)}
    # through the real request path: a slice of the table
    for n in (1, 2):
        for vec in itertools.product(["value"] + CODES[:6] + [70402, -12345], repeat=n):
            yield {"ids": ids3[:n], "outcomes": list(vec), "via": "world", "arg": "set" if n == 2 else "list"}
    # request-wide status with full / partial / empty lists
    for gs in (0, -70402, -70408, 70402, -12345):
        for listed in itertools.product([True, False], repeat=3):
            for vec in (["value", "value", "value"], ["value", -70402, 0], [-70409, "value", "value+0"]):
                yield {"ids": ids3, "outcomes": vec, "global": gs, "listed": list(listed)}
    for arg in ("list", "set", "tuple", "iter", "gen", "keys"):
        for gs in (None, -70402, 70402):
            for listed in ([True, True, True], [True, False, False], [False, False, False], [False, True, False]):
                yield {"ids": ids3, "outcomes": ["value", "value", -70409 if gs is None else "value"], "global": gs, "listed": listed, "via": "world", "arg": arg}
    for m in MALFORMED:
        for pos in (0, 1, 5):
            yield {"ids": ids3, "outcomes": ["value", -70402, "value"], "malformed": [[pos, m]]}
            yield {"ids": ids3[:1], "outcomes": ["value"], "malformed": [[pos, m]], "via": "world"}
    yield {"ids": ids3, "outcomes": ["value", -70402, "value"], "dup": True}


@st.composite
def read_cases(draw):
    n = draw(st.integers(1, 4))
    ids = draw(st.lists(st.sampled_from(READABLE_IDS), min_size=n, max_size=n, unique=True))
    return {"ids": ids, "outcomes": [draw(st.sampled_from(["value", "value", "value+0"] + CODES)) for _ in ids],
            "global": draw(st.sampled_from([None, None, 0, -70402, 70402, -12345, -70408])),
            "listed": [draw(st.sampled_from([True, True, False])) for _ in ids],
            "malformed": draw(st.lists(st.tuples(st.integers(0, 5), st.sampled_from(MALFORMED)).map(list), max_size=2)),
            "dup": draw(st.booleans()), "via": draw(st.sampled_from(["direct", "direct", "world"])), "arg": draw(st.sampled_from(["list", "set", "tuple", "iter", "gen", "keys"]))}


# ---------------------------------------------------------------- writes
def run_write(case, R):
    ids = [tuple(x) for x in case["ids"]]
    statuses = case["statuses"]
    mode = case.get("mode", "auto")          # auto: 204 when everything is accepted, else 207 listing everything
    malformed = case.get("malformed", [])
    R.nt((any(s == 0 for s in statuses) and any(s != 0 for s in statuses)) or any(s > 0 or s in (-1, -12345) for s in statuses) or bool(malformed))
    R.cls("write:ip", "reply:" + ("204" if all(s == 0 for s in statuses) and mode == "auto" else str(case.get("http", [207])[0])))
    values = {key: (True if key in ((1, 9), (2, 10), (1, 3)) else 7 + i) for i, key in enumerate(ids)}
    what = f"write {ids} statuses {statuses} mode {mode}" + (f" status line {case['http']}" if case.get("http") else "")

    async def main(loop):
        w = IpWorld(loop)

        def hook(conn, req):
            if req.method == "PUT" and req.target == "/characteristics":
                payload = json.loads(req.body)["characteristics"]
                if all("value" in i for i in payload):
                    if all(s == 0 for s in statuses) and mode == "auto":
                        conn.send_http(204, "No Content")
                        return True
                    if case.get("global_only") is not None:
                        # the whole request is refused with one request-wide status and no list (what some bridges answer)
                        conn.send_http(*case.get("http", [207, "Multi-Status"]), json.dumps({"status": case["global_only"]}).encode())
                        return True
                    chars = [{"aid": a, "iid": i, "status": s} for (a, i), s in zip(ids, statuses)]
                    for pos, m in malformed:
                        chars.insert(pos % (len(chars) + 1), copy.deepcopy(m))
                    conn.send_http(*case.get("http", [207, "Multi-Status"]), json.dumps({"characteristics": chars}, separators=(",", ":")).encode())
                    return True
            return False
        w.acc.on_request = hook
        p = w.pairing
        logs = attach_listeners(p)
        events = logs[0]
        try:
            await p.list_accessories_and_characteristics()
            for l_ in logs:
                l_.clear()
            raised = None
            try:
                res = await p.put_characteristics([(a, i, values[(a, i)]) for a, i in ids])
            except Exception as e:  # noqa: BLE001
                raised = e
                res = None
            await vtime.settle(loop)
            if case.get("global_only") is not None:
                R.cls("write-global-only")
                if raised is not None:
                    return          # "or the call fails": a reply without a list is malformed as a whole, any failure will do
                told = sorted(k_ for ev in events for k_ in ev)
                bad = [k_ for k_ in ids if not (res or {}).get(k_, {}).get("status")]
                if bad or told:
                    R.fail("C13.rejected-reported-as-written", f"{what}: the accessory refused the whole request with status {case['global_only']} and no list; "
                           f"result {res!r:.200}, listeners told about {told}", code="request-wide")
                return
            if raised is not None:
                if malformed or any(s != 0 for s in statuses) or case.get("http", [207])[0] >= 400:
                    R.cls("write-raised")
                    if not type(raised).__module__.startswith("aiohomekit"):
                        R.fail("C13.write-raises", f"{what}: {type(raised).__name__}: {raised}", exc=type(raised).__name__)
                    return
                R.fail("C13.write-raises", f"{what}: {type(raised).__name__}: {raised}", exc=type(raised).__name__)
                return
            if not listeners_agree(R, logs, what):
                return
            notified = {}
            for ev in events:
                for key, val in ev.items():
                    notified.setdefault(key, []).append(val)
            for key, s in zip(ids, statuses):
                got = res.get(key)
                if s != 0:
                    if got is None or got.get("status") != s:
                        R.fail("C13.rejected-reported-as-written", f"{what}: {key} rejected with {s}, result has {got!r}", code="positive" if s > 0 else "negative")
                        return
                    if key in notified:
                        R.fail("C13.rejected-notified", f"{what}: listeners were told {notified[key]} for rejected {key}")
                        return
                else:
                    if got is not None and got.get("status", 0) != 0:
                        R.fail("C13.accepted-reported-failed", f"{what}: {key} accepted, result has {got!r}")
                        return
                    if WRITABLE[key]:
                        if notified.get(key) != [{"value": values[key]}]:
                            R.fail("C13.accepted-not-notified", f"{what}: accepted readable {key}: listeners saw {notified.get(key)!r}, expected one "
                                   f"notification with value {values[key]!r}", mixed=any(x != 0 for x in statuses))
                            return
                    elif key in notified:
                        R.fail("C13.write-only-notified", f"{what}: write-only {key} notified {notified[key]}")
                        return
            extra = set(notified) - set(ids)
            if extra:
                R.fail("C13.rejected-notified", f"{what}: notifications for characteristics that were not written: {sorted(extra)}")
        finally:
            await p.shutdown()
            w.restore()
    vtime.run(main)


HTTP_LINES = [[200, "OK"], [500, "Internal Server Error"], [400, "Bad Request"], [422, "Unprocessable Entity"], [503, "Service Unavailable"], [207, "Multi-Status"]]


def run_write_after_late_reply(case, R):
    """Write A is accepted, but the accessory's 204 arrives only after the caller has given up (30 s reply timer).  The caller then issues write B,
    which the accessory rejects.  B must be reported as rejected (or fail) and no listener may be told B's value - A's late 204 is not B's answer."""
    delay, status = case["delay"], case["status"]
    a_ids, b_ids = [tuple(x) for x in case["a"]], [tuple(x) for x in case["b"]]
    R.nt(delay > 30)
    R.cls("write:ip-late-reply", "late" if delay > 30 else "in-time")
    what = f"write {a_ids} answered 204 after {delay}s, then write {b_ids} rejected with {status}"

    async def main(loop):
        w = IpWorld(loop)
        n = [0]
        first = {}

        def hook(conn, req):
            if req.method == "PUT" and req.target == "/characteristics":
                payload = json.loads(req.body)["characteristics"]
                if all("value" in i for i in payload):
                    n[0] += 1
                    if n[0] == 1:
                        first["at"], first["conn"] = loop.time() + delay, conn
                        conn.send_http(204, "No Content", delay=delay)
                    else:
                        # an accessory answers the requests of one connection in the order it got them: never before A's reply is out
                        wait = max(0.0, first["at"] - loop.time()) + 0.25 if conn is first.get("conn") else 0.0
                        chars = [{"aid": i["aid"], "iid": i["iid"], "status": status} for i in payload]
                        conn.send_http(207, "Multi-Status", json.dumps({"characteristics": chars}, separators=(",", ":")).encode(), delay=wait)
                    return True
            return False
        w.acc.on_request = hook
        p = w.pairing
        logs = attach_listeners(p)
        try:
            await p.list_accessories_and_characteristics()
            try:
                await p.put_characteristics([(a, i, True if (a, i) in ((1, 9), (2, 10), (1, 3)) else 5) for a, i in a_ids])
            except Exception:  # noqa: BLE001
                R.cls("first-write-failed")
            await asyncio.sleep(case.get("gap", 0))
            for l_ in logs:
                l_.clear()
            try:
                res = await p.put_characteristics([(a, i, False if (a, i) in ((1, 9), (2, 10), (1, 3)) else 6) for a, i in b_ids])
            except Exception as e:  # noqa: BLE001
                R.cls("second-write-failed")
                if not type(e).__module__.startswith("aiohomekit"):
                    R.fail("C13.write-raises", f"{what}: {type(e).__name__}: {e}", exc=type(e).__name__)
                res = None
            await vtime.settle(loop)
            told = sorted(k_ for ev in logs[0] for k_ in ev)
            if res is not None:
                bad = [k_ for k_ in b_ids if not res.get(k_, {}).get("status")]
                if bad:
                    R.fail("C13.rejected-reported-as-written", f"{what}: result {res!r:.200}", code="late-reply")
                    return
            if told:
                R.fail("C13.rejected-notified", f"{what}: listeners were told about {told}", code="late-reply")
        finally:
            try:
                await p.close()
            finally:
                w.restore()
    vtime.run(main)


def enum_late_reply(tier):
    for delay in (0, 29, 30.5, 31, 45, 100):
        for gap in (0, 1, 20, 40):
            for a, b in (([(1, 9)], [(1, 9)]), ([(1, 9)], [(1, 11)]), ([(1, 9), (1, 11)], [(2, 10)])):
                for status in (-70410, -70402):
                    yield {"delay": delay, "gap": gap, "a": a, "b": b, "status": status}


def enum_write(tier):
    idsets = [[(1, 9)], [(1, 9), (1, 11)], [(1, 9), (2, 10), (1, 11)]]
    for ids in idsets:
        for gs in (-70407, -70402, 70402, -12345):
            for http in ([207, "Multi-Status"], [200, "OK"]):
                yield {"ids": ids, "statuses": [gs] * len(ids), "global_only": gs, "http": http}
    for ids in idsets:
        for vec in itertools.product(CODES, repeat=len(ids)):
            if len(ids) == 3 and tier == "quick" and (CODES.index(vec[0]) + 2 * CODES.index(vec[1]) + 3 * CODES.index(vec[2])) % 4:
                continue
            yield {"ids": ids, "statuses": list(vec)}
    for ids in ([(1, 12), (1, 3)], [(1, 10), (1, 9)], [(2, 10), (1, 9), (1, 3), (1, 12)]):
        for vec in itertools.product([0, -70402, 70410], repeat=len(ids)):
            yield {"ids": ids, "statuses": list(vec)}
            yield {"ids": ids, "statuses": list(vec), "mode": "207"}
    # accessories also report rejected writes under other status lines (HAP: 400 for a single failed write; 200 and 5xx are seen in the field)
    for http in HTTP_LINES:
        for ids, vec in (([(1, 9)], [-70402]), ([(1, 9), (1, 11)], [0, -70410]), ([(1, 9), (2, 10), (1, 11)], [-70402, 0, 0]), ([(1, 9), (1, 11)], [0, 0])):
            yield {"ids": ids, "statuses": vec, "mode": "207", "http": http}
    for m in MALFORMED:
        yield {"ids": [(1, 9), (1, 10)], "statuses": [0, -70410], "malformed": [[1, m]]}
        yield {"ids": [(1, 9)], "statuses": [0], "mode": "207", "malformed": [[0, m]]}


@st.composite
def write_cases(draw):
    n = draw(st.integers(1, 4))
    ids = draw(st.lists(st.sampled_from(sorted(WRITABLE)), min_size=n, max_size=n, unique=True))
    return {"ids": ids, "statuses": [draw(st.sampled_from([0, 0, 0] + CODES)) for _ in ids], "mode": draw(st.sampled_from(["auto", "auto", "207"])),
            "malformed": draw(st.lists(st.tuples(st.integers(0, 4), st.sampled_from(MALFORMED)).map(list), max_size=2)),
            "http": draw(st.sampled_from([[207, "Multi-Status"]] * 4 + HTTP_LINES))}


LAYERS = [
    Layer("ip-read-table", run_read, enumerate=enum_read, exhaustive=True,
          space="19 outcomes ^ n for n <= 3 through format_characteristic_list; 9^n for n <= 2 through get_characteristics; request-wide status x "
                "listed subsets; 10 malformed entries x 3 positions", min_nontrivial=3000),
    Layer("ip-read-gen", run_read, strategy=read_cases, n={"quick": 10000, "thorough": 100000}, min_nontrivial=500),
    Layer("ip-write-table", run_write, enumerate=enum_write, exhaustive=True,
          space="17 statuses ^ n for 1, 2 and 3 written characteristics (quick: every 4th vector for n = 3) through put_characteristics; 204/207; malformed entries",
          min_nontrivial=400),
    Layer("ip-write-after-late-reply", run_write_after_late_reply, enumerate=enum_late_reply, exhaustive=True,
          space="6 reply delays around the 30 s timer x 4 pauses before the next write x 3 id pairs x 2 statuses"),
    Layer("ip-write-gen", run_write, strategy=write_cases, n={"quick": 6000, "thorough": 80000}, min_nontrivial=300),
]
from props.ble_layers import C13_LAYERS as _BLE  # noqa: E402
LAYERS += _BLE
try:
    from props.coap_layers import C13_LAYERS as _COAP
    LAYERS += _COAP
except ImportError:
    pass

SPEC = Property(
    P, "exploration",
    rule=("request sets of 1..4 characteristics over 2 accessory ids with permissions {pr, pw, pr+pw, pw+tw}; accessory replies: every "
          "vector of per-item outcomes over {value, value with status 0, 0, -70401..-70412, +70402, -1, -12345, 5} for n <= 3 (exhaustive) "
          "and random for n = 4; 204 vs 207; request-wide status with full/partial/empty lists; malformed entries (true, 3, \"x\", null, {}, "
          "id-less dicts, lists) and duplicates. Non-trivial: a mixed vector (>=1 accepted and >=1 rejected), a positive or unknown code, "
          "a malformed entry, or a request-wide error. Reads through the request path take the ids as list, set, tuple, iterator, generator or key view; "
          "CoAP read batches include characteristics without read permission."),
    layers=LAYERS,
    assumptions=["conformant reply shape: a 207 write reply lists every written characteristic with a status",
                 "a write call that raises a library exception for a rejected or malformed reply is allowed ('or the call fails')"],
    min_nontrivial=3000,
)

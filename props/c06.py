"""C06 - no nonce is reused and no encrypted message is accepted twice or out of order (DESIGN 4/C06).
IP layers here; BLE and CoAP layers come from props/c06_ble.py / props/c06_coap.py when present."""
import asyncio
import itertools
import json

from hypothesis import strategies as st

import aiohomekit.controller.ip.connection as conn_mod
from vlib import simnet, vtime
from vlib.ipworld import IpWorld
from vlib.runner import Layer, Property

P = "C06"


class AeadLog:
    """Recording wrappers rebound over the AEAD classes a transport module uses (DESIGN 2.3)."""

    def __init__(self):
        self.enc = []      # (key, nonce, ciphertext)
        self.dec = []      # (key, nonce, ciphertext, ok)

    def wrap(self, enc_cls, dec_cls):
        log = self

        class Enc(enc_cls):
            def __init__(self, key):
                super().__init__(key)
                self._k = bytes(key)

            def encrypt(self, aad, nonce, plaintext):
                ct = super().encrypt(aad, nonce, plaintext)
                log.enc.append((self._k, bytes(nonce), bytes(ct)))
                return ct

        class Dec(dec_cls):
            def __init__(self, key):
                super().__init__(key)
                self._k = bytes(key)

            def decrypt(self, aad, nonce, ciphertext):
                try:
                    pt = super().decrypt(aad, nonce, ciphertext)
                except Exception:
                    log.dec.append((self._k, bytes(nonce), bytes(ciphertext), False))
                    raise
                log.dec.append((self._k, bytes(nonce), bytes(ciphertext), True))
                return pt
        return Enc, Dec

    def check(self, R, genuine, what, transport):
        """genuine: {key: [ciphertext in the order the accessory produced them]}"""
        seen = set()
        for k, n, ct in self.enc:
            if (k, n) in seen:
                R.fail("C06.nonce-reused", f"{what}: ({k.hex()[:8]}.., nonce {n.hex()}) used for two encryptions", transport=transport)
                return False
            seen.add((k, n))
        last = {}
        accepted = {}
        index = {}
        for entry, (k, n, ct, ok) in enumerate(self.dec):
            if not ok:
                continue
            if getattr(R, "wants_entry", False):
                R.entry = entry
            order = genuine.get(k, [])
            pos = index.get(k)
            if pos is None:
                pos = index[k] = {c: i for i, c in enumerate(order)}
            if ct not in pos:
                R.fail("C06.forged-accepted", f"{what}: a ciphertext the accessory never produced under this key was accepted (nonce {n.hex()})", transport=transport)
                return False
            if ct in accepted.setdefault(k, set()):
                R.fail("C06.replay-accepted", f"{what}: the same ciphertext was accepted twice (nonce {n.hex()})", transport=transport)
                return False
            idx = pos[ct]
            if idx <= last.get(k, -1):
                R.fail("C06.reorder-accepted", f"{what}: message {idx} accepted after message {last[k]}", transport=transport)
                return False
            accepted[k].add(ct)
            last[k] = idx
        return True


class Pruned(Exception):
    pass


def run_ip(case, R):
    ops = [tuple(o) for o in case["ops"]]
    names = [o[0] for o in ops]
    faulty = {"replay", "skip", "corrupt", "drop-response", "cancel", "timeout", "reconnect-tape"}
    idx = [i for i, n in enumerate(names) if n in faulty]
    R.nt((bool(idx) and any(n in ("request", "deliver") for n in names[idx[0] + 1:])) or ("empty-frame" in names and "replay" in names))
    for n in set(names):
        R.cls("ip:" + n)

    async def main(loop):
        log = AeadLog()
        orig = (conn_mod.ChaCha20Poly1305Encryptor, conn_mod.ChaCha20Poly1305Decryptor)
        conn_mod.ChaCha20Poly1305Encryptor, conn_mod.ChaCha20Poly1305Decryptor = log.wrap(*orig)
        w = IpWorld(loop, k=case.get("k", 0))
        pending = []
        tasks = []

        def hook(conn, req):
            if req.target.startswith("/x"):
                pending.append((conn, req))
                return True
            return False
        w.acc.on_request = hook

        def cur():
            c = w.acc.conns[-1] if w.acc.conns else None
            return c if c is not None and c.open and not c.peer_closed and c.secure else None

        def enc_frames(conn, msg, sizes, skip=0):
            conn.a2c += skip
            wire = conn.encrypt(msg, sizes)          # registered as genuine by the AccConn.encrypt wrapper
            i = 0
            frames = []
            while i < len(wire):
                n = int.from_bytes(wire[i:i + 2], "little")
                frames.append(wire[i:i + 2 + n + 16])
                i += 2 + n + 16
            conn.sent_frames.extend(frames)
            return wire, frames
        p = w.pairing
        try:
            await p.list_accessories_and_characteristics()
            for i, op in enumerate(ops):
              try:
                name = op[0]
                conn = cur()
                if name == "request":
                    if not p.is_connected:
                        await asyncio.sleep(2)
                        await vtime.settle(loop)
                        conn = cur()
                        if conn is None or not p.is_connected:
                            raise Pruned
                    body = bytes((j * 7) & 0xFF for j in range(op[1])) or b"x"
                    t = asyncio.ensure_future(p.connection.post("/x", body))
                    tasks.append(t)
                elif name in ("deliver", "skip", "corrupt"):
                    if conn is None or not any(c is conn for c, _ in pending):
                        raise Pruned
                    j = next(k for k, (c, _) in enumerate(pending) if c is conn)
                    pending.pop(j)
                    body = b"r" * op[1]
                    if len(op) > 2 and op[1] / max(1, op[2]) > 40:
                        op = (op[0], op[1], 1024) + tuple(op[3:])
                    msg = b"HTTP/1.1 200 OK\r\nContent-Type: application/hap+json\r\nContent-Length: %d\r\n\r\n" % len(body) + body
                    if name == "corrupt":
                        wire, frames = enc_frames(conn, msg, [op[2] if len(op) > 2 else 1024])
                        bad = bytearray(wire)
                        bad[(op[3] if len(op) > 3 else 5) % len(bad)] ^= 0x01
                        # the genuine ciphertexts of this message were never delivered intact
                        conn.send_wire(bytes(bad))
                    else:
                        wire, frames = enc_frames(conn, msg, [op[2] if len(op) > 2 else 1024], skip=(1 + op[3] % 3 if name == "skip" else 0))
                        conn.send_wire(wire)
                elif name == "replay":
                    if conn is None or not conn.sent_frames:
                        raise Pruned
                    conn.send_wire(conn.sent_frames[op[1] % len(conn.sent_frames)])
                elif name == "event":
                    if conn is None:
                        raise Pruned
                    body = json.dumps({"characteristics": [{"aid": 1, "iid": 9, "value": i}]}).encode()
                    msg = b"EVENT/1.0 200 OK\r\nContent-Length: %d\r\n\r\n" % len(body) + body
                    wire, _ = enc_frames(conn, msg, [1024])
                    conn.send_wire(wire)
                elif name == "empty-frame":
                    # a block with an empty plaintext: legal framing, consumes the accessory's nonce like any other block
                    if conn is None:
                        raise Pruned
                    import struct as _struct
                    from vlib import refhap as _ref
                    aad = _struct.pack("<H", 0)
                    tag = _ref.aead_enc(conn.a2c_key, _ref.nonce(ctr=conn.a2c), b"", aad)
                    conn.a2c += 1
                    simnet.AccConn._c06_registry.setdefault(conn.a2c_key, []).append(tag)
                    conn.sent_frames.append(aad + tag)
                    conn.send_wire(aad + tag)
                elif name == "drop-response":
                    if conn is None or not any(c is conn for c, _ in pending):
                        raise Pruned
                    pending[:] = [(c, r) for c, r in pending if c is not conn]
                elif name == "cancel":
                    live = [t for t in tasks if not t.done()]
                    if not live:
                        raise Pruned
                    live[0].cancel()
                elif name == "timeout":
                    await asyncio.sleep(31)
                elif name == "reconnect":
                    if conn is not None:
                        conn.close("fin")
                    await asyncio.sleep(2)
                elif name == "reconnect-tape":
                    # the next pair-verify is answered by a peer that only replays the first handshake it recorded
                    once = [True]
                    w.acc.verify_policy = lambda c: "tape" if once and not once.clear() else "ok"
                    if conn is not None:
                        conn.close("fin")
                    await asyncio.sleep(2)
              except Pruned:
                if not case.get("lenient"):
                    raise
                continue
              await vtime.settle(loop)
              if not log.check(R, simnet.AccConn._c06_registry, f"after op {i} {op} of {case['ops']!r:.300}", "ip"):
                    return
        except Pruned:
            R.exclude("pruned: disabled event")
            R.nontrivial = False
        finally:
            for t in tasks:
                t.cancel()
            await p.shutdown()
            w.restore()
            conn_mod.ChaCha20Poly1305Encryptor, conn_mod.ChaCha20Poly1305Decryptor = orig
    vtime.run(main)


# The simulator's own replies (pair-verify is plaintext; /accessories and re-subscription replies are encrypted by AccConn.encrypt)
# are produced by the reference too.  To know their ciphertexts the harness records every AccConn.encrypt call.
def _patch_accconn():
    if getattr(simnet.AccConn, "_c06_patched", False):
        return
    orig = simnet.AccConn.encrypt

    def encrypt(self, msg, sizes=None):
        wire = orig(self, msg, sizes)
        i = 0
        reg = simnet.AccConn._c06_registry
        while i < len(wire):
            n = int.from_bytes(wire[i:i + 2], "little")
            reg.setdefault(self.a2c_key, []).append(wire[i + 2:i + 2 + n + 16])
            i += 2 + n + 16
        return wire
    simnet.AccConn._c06_registry = {}
    simnet.AccConn.encrypt = encrypt
    simnet.AccConn._c06_patched = True


def run_ip_case(case, R):
    _patch_accconn()
    simnet.AccConn._c06_registry.clear()
    run_ip(case, R)


ALPHA = [("request", 10), ("request", 2500), ("deliver", 5, 1024), ("deliver", 1500, 600), ("replay", 0), ("replay", 3), ("skip", 5, 1024, 0),
         ("corrupt", 5, 1024, 7), ("event",), ("drop-response",), ("cancel",), ("timeout",), ("reconnect",), ("reconnect-tape",), ("empty-frame",)]


def enum_ip(tier):
    depth = 4 if tier == "quick" else 5
    for d in range(1, depth + 1):
        for seq in itertools.product(ALPHA, repeat=d):
            if seq[0][0] not in ("request", "event", "replay", "reconnect", "reconnect-tape", "empty-frame"):
                continue
            yield {"ops": [list(o) for o in seq]}


@st.composite
def ip_histories(draw):
    n = draw(st.integers(3, 40))
    ops = []
    for _ in range(n):
        name = draw(st.sampled_from(["request", "request", "deliver", "deliver", "deliver", "replay", "skip", "corrupt", "event", "drop-response", "cancel", "timeout", "reconnect", "reconnect-tape", "empty-frame"]))
        if name == "request":
            ops.append([name, draw(st.sampled_from([1, 10, 1000, 1024, 2500, 5000]))])
        elif name in ("deliver", "skip", "corrupt"):
            ops.append([name, draw(st.sampled_from([0, 5, 1024, 3000])), draw(st.sampled_from([1, 16, 600, 1024])), draw(st.integers(0, 5000))])
        elif name == "replay":
            ops.append([name, draw(st.integers(0, 50))])
        else:
            ops.append([name])
    return {"ops": ops, "k": draw(st.integers(0, 20)), "lenient": True}


LAYERS = [
    Layer("ip-dfs", run_ip_case, enumerate=enum_ip, exhaustive=True, space="all event sequences over 15 events to depth 4 (quick) / 5 (thorough) that start with a request, event, replay or reconnect", min_nontrivial=100),
    Layer("ip-generated", run_ip_case, strategy=ip_histories, n={"quick": 4000, "thorough": 60000}),
]
from props.ble_layers import C06_LAYERS as _BLE  # noqa: E402
LAYERS += _BLE
try:
    from props.coap_layers import C06_LAYERS as _COAP
    LAYERS += _COAP
except ImportError:
    pass

SPEC = Property(
    P, "fault_enumeration",
    rule=("per transport, histories over {request with one or several frames/fragments, deliver the next genuine response, replay an earlier "
          "genuine ciphertext, deliver a genuine message encrypted under a future counter, deliver a corrupted message, withhold a response, "
          "cancel the in-flight request, let the timeout fire, reconnect, reconnect to a peer that replays the first recorded handshake, unsolicited event}; every AEAD call of the controller is recorded "
          "by wrappers rebound over the cipher classes (key, nonce, ciphertext, success). Bounded exhaustive DFS and generated histories. "
          "Non-trivial: a replay, skip, corruption, withheld response, cancel or timeout followed by a further send or delivery."),
    layers=LAYERS,
    assumptions=["the harness knows every ciphertext the reference accessory produced, in order; anything else that decrypts is a forgery",
                 "keys change only through a new pair-verify, which the simulated accessory performs with a fresh ephemeral key"],
    min_nontrivial=100,
)

"""BLE transport layers (real BlePairing against vlib.blesim) shared by C01, C04, C06, C13, C15, C17."""
import asyncio
import itertools
import struct

from bleak.exc import BleakError

from hypothesis import strategies as st

import aiohomekit.controller.ble.key as key_mod
from aiohomekit import exceptions as X
from aiohomekit.controller.ble.client import PDUStatusError
from vlib import refhap, vtime
from vlib.bleworld import FORMATS, BleWorld
from vlib.refhap import T_ERROR, T_ID, T_PK, T_STATE
from vlib.runner import Layer

READABLE = {iid for iid, (f, c, perms) in FORMATS.items() if "pr" in perms}
WRITABLE = {iid for iid, (f, c, perms) in FORMATS.items() if "pw" in perms}


def value_for(iid, sel):
    fmt, code, perms = FORMATS[iid]
    if fmt == "bool":
        return bool(sel & 1)
    if fmt == "string":
        return ["", "a", "héllo", "x" * 300][sel % 4]
    if fmt == "float":
        return [0.0, 21.5, -3.25][sel % 3]
    if fmt == "int":
        return [0, -5, 2**31 - 1][sel % 3]
    size = struct.calcsize(code)
    return [0, 1, (1 << (8 * size)) - 1, sel % (1 << (8 * size))][sel % 4]


def wire_value(iid, v):
    fmt, code, perms = FORMATS[iid]
    return v.encode() if fmt == "string" else struct.pack(code, v)


# ---------------------------------------------------------------- C13: per-characteristic outcomes of writes and reads
def run_c13_ble(case, R):
    ids = case["ids"]
    statuses = case["statuses"]
    R.nt((any(s == 0 for s in statuses) and any(s != 0 for s in statuses)))
    R.cls("write:ble", f"n={len(ids)}")

    async def main(loop):
        w = BleWorld(loop, k=case.get("k", 0), att_payload=case.get("att", 155))
        try:
            p = w.pairing
            from props._listeners import attach as attach_listeners, check_same as listeners_agree
            logs = attach_listeners(p)
            events = logs[0]
            for iid, s in zip(ids, statuses):
                if "tw" in FORMATS[iid][2] and s and case.get("fail_exec"):
                    w.acc.chars[iid]["exec_status"] = s
                else:
                    w.acc.chars[iid]["write_status"] = s
            values = {iid: value_for(iid, case.get("sel", 0) + i) for i, iid in enumerate(ids)}
            raised = None
            try:
                res = await p.put_characteristics([(1, iid, values[iid]) for iid in ids])
            except PDUStatusError as e:
                raised, res = e, None
            except Exception as e:  # noqa: BLE001
                R.fail("C13.write-raises", f"BLE write {ids} statuses {statuses}: {type(e).__name__}: {e}", exc=type(e).__name__)
                return
            await vtime.settle(loop)
            what = f"BLE write {ids} statuses {statuses} values {values}"
            if not listeners_agree(R, logs, what):
                return
            notified = {}
            for ev in events:
                for key, val in ev.items():
                    notified.setdefault(key[1], []).append(val)
            first_rej = next((i for i, (iid, s) in enumerate(zip(ids, statuses)) if s != 0 and iid in WRITABLE), None)
            if first_rej is None:
                if raised is not None:
                    R.fail("C13.write-raises", f"{what}: everything accepted, yet raised {raised}", exc="PDUStatusError")
                    return
            else:
                if raised is None:
                    got = res.get((1, ids[first_rej]))
                    if not got or not got.get("status"):
                        R.fail("C13.rejected-reported-as-written", f"{what}: {ids[first_rej]} was rejected by the accessory; the call returned {res!r}", code="ble")
                        return
                elif raised.status != statuses[first_rej]:
                    R.fail("C13.rejected-reported-as-written", f"{what}: raised status {raised.status}, accessory sent {statuses[first_rej]}", code="ble")
                    return
            upto = len(ids) if first_rej is None else first_rej
            for i, iid in enumerate(ids):
                n = notified.get(iid)
                if i < upto and iid in WRITABLE:
                    if iid in READABLE:
                        if n != [{"value": values[iid]}]:
                            R.fail("C13.accepted-not-notified", f"{what}: accepted readable {iid}: listeners saw {n!r}", mixed=first_rej is not None)
                            return
                    elif n:
                        R.fail("C13.write-only-notified", f"{what}: write-only {iid} notified {n}")
                        return
                    if (iid, wire_value(iid, values[iid])) not in w.acc.writes:
                        R.fail("C13.write-value", f"{what}: accessory received {w.acc.writes!r:.200} for {iid}")
                        return
                elif n:
                    R.fail("C13.rejected-notified", f"{what}: listeners were told {n} for {iid}, which was {'rejected' if i == first_rej else 'never written'}")
                    return
                if iid not in WRITABLE and res is not None and not (res.get((1, iid)) or {}).get("status"):
                    R.fail("C13.rejected-reported-as-written", f"{what}: {iid} is not writable, result {res!r}", code="ble-readonly")
                    return
            # reads decode by format
            if raised is None:
                rd = [iid for iid in ids if iid in READABLE and iid in WRITABLE]
                if rd:
                    got = await p.get_characteristics([(1, iid) for iid in rd])
                    for iid in rd:
                        v = (got.get((1, iid)) or {}).get("value")
                        exp = values[iid]
                        if v != exp and not (FORMATS[iid][0] == "float" and abs(v - exp) < 1e-6):
                            R.fail("C13.read-value", f"{what}: read back {iid} = {v!r}, accessory holds {exp!r}")
                            return
            await p.shutdown()
        finally:
            w.restore()
    vtime.run(main)


def enum_c13_ble(tier):
    sts = [0, 1, 3, 5, 6]
    idsets = [[10], [10, 13], [11, 10, 17], [16, 14, 12], [15, 10]]
    for ids in idsets:
        for vec in itertools.product(sts, repeat=len(ids)):
            yield {"ids": ids, "statuses": list(vec), "sel": len(ids)}
    for s in sts:
        yield {"ids": [14, 10], "statuses": [s, 0], "fail_exec": True}
        yield {"ids": [16], "statuses": [s], "att": 30, "sel": 3}


@st.composite
def c13_ble_cases(draw):
    n = draw(st.integers(1, 4))
    ids = draw(st.lists(st.sampled_from(sorted(FORMATS)), min_size=n, max_size=n, unique=True))
    return {"ids": ids, "statuses": [draw(st.sampled_from([0, 0, 0, 1, 2, 3, 4, 5, 6])) for _ in ids], "sel": draw(st.integers(0, 1000)),
            "att": draw(st.sampled_from([23, 30, 155, 512])), "fail_exec": draw(st.booleans()), "k": draw(st.integers(0, 10))}


def run_c13_ble_read(case, R):
    """Reads of several characteristics of which some are refused: every value in the result is the one the accessory holds for that very
    characteristic; a refused characteristic comes back without a value (with its status, or not at all - the BLE transport leaves it out)."""
    ids = case["ids"]
    statuses = case["statuses"]
    R.nt(any(s == 0 for s in statuses) and any(s != 0 for s in statuses))
    R.cls("read:ble", f"n={len(ids)}")

    async def main(loop):
        w = BleWorld(loop, k=case.get("k", 0), att_payload=case.get("att", 155))
        try:
            p = w.pairing
            values = {}
            for i, (iid, s) in enumerate(zip(ids, statuses)):
                values[iid] = value_for(iid, case.get("sel", 0) + 3 * i + 1)
                w.acc.chars[iid]["value"] = wire_value(iid, values[iid])
                w.acc.chars[iid]["read_status"] = s
            what = f"BLE read {ids} statuses {statuses} values {values}"
            try:
                res = await p.get_characteristics([(1, iid) for iid in ids])
            except Exception as e:  # noqa: BLE001
                R.fail("C13.read-raises", f"{what}: {type(e).__name__}: {e}", exc=type(e).__name__)
                return
            for iid, s in zip(ids, statuses):
                got = res.get((1, iid))
                if s != 0:
                    if got is not None and "value" in got:
                        R.fail("C13.read-status", f"{what}: the accessory refused {iid} with status {s}; result {got!r}", code="ble")
                        return
                else:
                    v = (got or {}).get("value")
                    exp = values[iid]
                    if got is None or (v != exp and not (FORMATS[iid][0] == "float" and isinstance(v, float) and abs(v - exp) < 1e-6)):
                        R.fail("C13.read-value", f"{what}: {iid} holds {exp!r}, result {got!r}")
                        return
            await p.shutdown()
        finally:
            w.restore()
    vtime.run(main)


def enum_c13_ble_read(tier):
    rd = [i for i in sorted(FORMATS) if "pr" in FORMATS[i][2]]
    for ids in ([10], [10, 11], [11, 12, 10], [12, 11, 14], [15, 14, 16], [16, 10, 11, 12]):
        for vec in itertools.product([0, 1, 2, 3, 5, 6], repeat=min(len(ids), 3)):
            yield {"ids": ids, "statuses": list(vec) + [0] * (len(ids) - len(vec)), "sel": len(ids)}
    assert set(x for ids in ([10, 11, 12, 14, 15, 16],) for x in ids) <= set(rd)


@st.composite
def c13_ble_read_cases(draw):
    rd = [i for i in sorted(FORMATS) if "pr" in FORMATS[i][2]]
    n = draw(st.integers(1, min(5, len(rd))))
    ids = draw(st.lists(st.sampled_from(rd), min_size=n, max_size=n, unique=True))
    return {"ids": ids, "statuses": [draw(st.sampled_from([0, 0, 0, 1, 2, 3, 4, 5, 6])) for _ in ids], "sel": draw(st.integers(0, 1000)),
            "att": draw(st.sampled_from([23, 30, 155, 512])), "k": draw(st.integers(0, 10))}


C13_LAYERS = [
    Layer("ble-read-table", run_c13_ble_read, enumerate=enum_c13_ble_read, exhaustive=True, space="6 PDU statuses ^ min(n, 3) for 6 readable sets (n <= 4), distinct values", min_nontrivial=100),
    Layer("ble-read-gen", run_c13_ble_read, strategy=c13_ble_read_cases, n={"quick": 1500, "thorough": 10000}),
    Layer("ble-write-table", run_c13_ble, enumerate=enum_c13_ble, exhaustive=True, space="5 PDU statuses ^ n for 5 characteristic sets (n <= 3); timed-write and small-MTU variants", min_nontrivial=100),
    Layer("ble-write-gen", run_c13_ble, strategy=c13_ble_cases, n={"quick": 2000, "thorough": 30000}),
]


# ---------------------------------------------------------------- C06: AEAD monitor on the BLE session
def run_c06_ble(case, R):
    from props.c06 import AeadLog
    ops = case["ops"]
    names = [o[0] for o in ops]
    faulty = {"replay", "skip", "corrupt", "no-response", "gatt-error", "cancel", "wrong-tid"}
    idx = [i for i, n in enumerate(names) if n in faulty]
    R.nt(bool(idx) and any(n in ("get", "put") for n in names[idx[0] + 1:]))
    for n in set(names):
        R.cls("ble:" + n)

    async def main(loop):
        log = AeadLog()
        orig = (key_mod.ChaCha20Poly1305Encryptor, key_mod.ChaCha20Poly1305Decryptor)
        key_mod.ChaCha20Poly1305Encryptor, key_mod.ChaCha20Poly1305Decryptor = log.wrap(*orig)
        w = BleWorld(loop, k=case.get("k", 0), att_payload=case.get("att", 155))
        next_fault = [None]

        def fault(acc, h, op, iid, body):
            if h.kind in ("verify", "pairings"):
                return None
            f, next_fault[0] = next_fault[0], None
            return f
        w.acc.fault = fault
        p = w.pairing
        try:
            for i, op in enumerate(ops):
                op = list(op) + [0, 0]
                name = op[0]
                if name in ("replay", "skip", "corrupt", "no-response", "wrong-tid"):
                    next_fault[0] = {"replay": {"replay": op[1]}, "skip": {"skip": 1 + op[1] % 3}, "corrupt": {"corrupt": True}, "no-response": {"action": "no-response"},
                                     "wrong-tid": {"wrong_tid": True}}[name]
                    continue
                if name == "gatt-error":
                    if w.client and w.client.is_connected:
                        w.client.gatt_error_at = w.client.ops + 1 + op[1] % 4
                    continue
                if name == "drop":
                    if w.client:
                        w.client.drop()
                    await vtime.settle(loop)
                    continue
                if name in ("get", "put", "cancel"):
                    iid = [10, 11, 12, 16][op[1] % 4]
                    if name == "put" or (name == "cancel" and op[1] & 1):
                        v = value_for(iid, op[2] if len(op) > 2 else 0)
                        coro = p.put_characteristics([(1, iid, v)])
                    else:
                        coro = p.get_characteristics([(1, iid), (1, 10)])
                    t = asyncio.ensure_future(coro)
                    if name == "cancel":
                        for _ in range(1 + (op[2] if len(op) > 2 else 0) % 12):
                            await asyncio.sleep(0)
                        t.cancel()
                    try:
                        await asyncio.wait_for(t, 120)
                    except (asyncio.CancelledError, asyncio.TimeoutError):
                        pass
                    except Exception:  # noqa: BLE001  failures are expected under faults; the invariants are about the AEAD log
                        pass
                    await vtime.settle(loop)
                genuine = {}
                for k, ct in w.acc.sent:
                    genuine.setdefault(k, []).append(ct)
                if not log.check(R, genuine, f"after op {i} {op} of {ops!r:.300}", "ble"):
                    return
            await p.shutdown()
        finally:
            w.restore()
            key_mod.ChaCha20Poly1305Encryptor, key_mod.ChaCha20Poly1305Decryptor = orig
    vtime.run(main, max_iterations=3_000_000)


BLE_ALPHA = [("get", 0), ("put", 3, 3), ("put", 1, 1), ("replay", 0), ("replay", 2), ("skip", 0), ("corrupt",), ("no-response",), ("wrong-tid",), ("gatt-error", 1),
             ("cancel", 0, 5), ("drop",)]


def enum_c06_ble(tier):
    depth = 3 if tier == "quick" else 4
    for d in range(1, depth + 1):
        for seq in itertools.product(BLE_ALPHA, repeat=d):
            if seq[-1][0] not in ("get", "put", "cancel"):
                continue          # a trailing fault arming has no effect
            yield {"ops": [list(o) for o in seq], "att": 40 if d % 2 else 155}


@st.composite
def c06_ble_histories(draw):
    ops = []
    for _ in range(draw(st.integers(3, 30))):
        name = draw(st.sampled_from(["get", "get", "put", "put", "replay", "skip", "corrupt", "no-response", "wrong-tid", "gatt-error", "cancel", "drop"]))
        ops.append([name, draw(st.integers(0, 20)), draw(st.integers(0, 20))])
    return {"ops": ops, "att": draw(st.sampled_from([23, 40, 155, 512])), "k": draw(st.integers(0, 10))}


C06_LAYERS = [
    Layer("ble-dfs", run_c06_ble, enumerate=enum_c06_ble, exhaustive=True, space="all sequences over 12 events to depth 3 (quick) / 4 (thorough) ending in a request", min_nontrivial=100),
    Layer("ble-generated", run_c06_ble, strategy=c06_ble_histories, n={"quick": 2000, "thorough": 30000}),
]


# ---------------------------------------------------------------- C04: add-/remove-pairing replies on BLE
PAIRING_ERRORS = {"absent": None, "1": b"\x01", "2": b"\x02", "3": b"\x03", "4": b"\x04", "5": b"\x05", "6": b"\x06", "7": b"\x07", "0": b"\x00", "8": b"\x08",
                  "255": b"\xff", "2-byte": b"\x02\x00", "empty": b""}


def pairing_reply(state, err, extra, order):
    from props.c04 import state_items
    items = state_items(state, 2)
    if PAIRING_ERRORS[err] is not None:
        items.append((T_ERROR, PAIRING_ERRORS[err]))
    if extra:
        items += [(T_ID, b"someone"), (T_PK, bytes(32))]
    if order == "reversed":
        items.reverse()
    return items


def run_c04_ble(case, R):
    op, state, err = case["op"], case["state"], case["err"]
    state = "expected" if state == "2" else state
    error_present = PAIRING_ERRORS[err] is not None
    control = not error_present and state in ("absent", "expected")
    R.nt(not control)
    R.cls("ble-pairings:" + op, "control" if control else "error-cell")

    async def main(loop):
        w = BleWorld(loop)
        try:
            p = w.pairing
            await p.get_characteristics([(1, 10)])
            w.acc.pairings_reply = pairing_reply(state, err, case.get("extra"), case.get("order", "spec"))
            what = f"BLE {op} state={state} error={err} extra={case.get('extra')} order={case.get('order')} shutdown-in-flight={bool(case.get('shutdown'))}"
            fired = []
            if case.get("shutdown"):
                # the owner shuts the pairing down while the request is with the accessory
                w.client.disconnect_delay = 1.0         # the link is still up when the accessory's reply is read

                def fault(acc, h, opcode, iid, body):
                    if h.kind == "pairings" and not fired:
                        fired.append(loop.create_task(p.shutdown()))
                        fired.append(len(w.client.log))
                    return None
                w.acc.fault = fault
            try:
                if op == "add":
                    res = await p.add_pairing("other-controller", "07" * 32, "User")
                elif case.get("via") == "controller":
                    # the alias-level API of the aggregate controller: forgets the pairing, asks the accessory, shuts the pairing down
                    from aiohomekit.characteristic_cache import CharacteristicCacheMemory
                    from aiohomekit.controller import Controller
                    ctl = Controller(char_cache=CharacteristicCacheMemory())
                    for reg in (ctl, w.controller):
                        reg.aliases["alias"] = p
                        reg.pairings[p.id] = p
                    await p.list_accessories_and_characteristics()          # connected, as a pairing in use is
                    R.cls("ip-pairings:via-controller")
                    await ctl.remove_pairing("alias")
                    res = True
                else:
                    res = await p.remove_pairing("other-controller")
                outcome = ("ok", res)
            except Exception as e:  # noqa: BLE001
                outcome = ("raise", e)
            if case.get("via") == "controller":
                # done or refused, the controller has forgotten the pairing: nothing of it may stay open or keep trying
                await asyncio.sleep(90)
                await vtime.settle(loop)
                held = [c for c in w.acc.conns if not c.t.is_closing()]
                if held or p.is_connected:
                    R.fail("C11.open-after-close", f"{what}: Controller.remove_pairing ended with {outcome[0]}; the forgotten pairing still holds {len(held)} connection(s)", kind="remove_pairing")
                    return
            if fired:
                await asyncio.gather(fired[0], return_exceptions=True)
                if not any(kind == "r" and iid_ == 4 for kind, iid_, _ in w.clients[0].log[fired[1]:]):
                    R.exclude("the accessory's reply was not read before the link went down")
                    return
                R.cls("ble-pairings:shutdown-in-flight")
            if control:
                if outcome[0] != "ok" and not fired:
                    R.fail("C04.control-cell-fails", f"{what}: {type(outcome[1]).__name__}: {outcome[1]}", step="ble-" + op)
            elif outcome[0] == "ok":
                R.fail("C04.error-reply-succeeds", f"{what}: reported as done ({outcome[1]!r})", step="ble-" + op, state="absent" if state == "absent" else ("expected" if state == "expected" else "wrong"))
            elif not isinstance(outcome[1], X.HomeKitException):
                R.fail("C04.wrong-exception-class", f"{what}: raised {type(outcome[1]).__name__}: {outcome[1]}, not a library error", step="ble-" + op, state=state, decode="ble")
            await p.shutdown()
        finally:
            w.restore()
    vtime.run(main)


def enum_c04_ble(tier):
    for op in ("add", "remove"):
        for state in ["absent", "expected"] + [str(s) for s in range(0, 8) if s != 2] + ["empty", "exp+byte", "dup-adjacent", "255"]:
            for err in PAIRING_ERRORS:
                for extra in (False, True):
                    for order in ("spec", "reversed"):
                        yield {"op": op, "state": state, "err": err, "extra": extra, "order": order}
                if tier == "ble":
                    yield {"op": op, "state": state, "err": err, "extra": False, "order": "spec", "shutdown": True}


def run_c04_ble_abort(case, R):
    """pair-verify over BLE whose M2 (or M4) arrives in FragmentData pieces; after some pieces the accessory aborts the step with a plain
    {State, Error} reply.  The operation must fail with the class documented for the code and no session may exist."""
    R.nt()
    R.cls("ble-fragment-abort:" + case["step"])

    async def main(loop):
        w = BleWorld(loop, k=case.get("k", 0))
        try:
            p = w.pairing
            w.acc.verify_reply_pieces = case["piece"]
            state = b"\x02" if case["step"] == "m2" else b"\x04"
            w.acc.abort_fragments["verify"] = (case["after"], [(T_STATE, state), (T_ERROR, bytes([case["code"]]))])
            if case["step"] == "m4":
                # M4 is 3 bytes: make it long enough to be sent in pieces by padding it with an ignorable vendor item
                w.acc.verify_fault = lambda stage, items, pv: items + [(0xF0, bytes(60))] if stage == "m4" else items
                w.acc.abort_only_stage = "m4"
            what = f"BLE pair-verify {case['step']} in pieces of {case['piece']}, aborted after {case['after']} piece(s) with error {case['code']}"
            try:
                r = await p.get_characteristics([(1, 10)])
                out = ("ok", r)
            except Exception as e:  # noqa: BLE001
                out = ("raise", e)
            if not w.acc.aborted_steps:
                R.exclude("the reply was too short to be cut after that many pieces")
                return
            if out[0] == "ok" or p._encryption_key is not None:
                R.fail("C04.error-reply-succeeds", f"{what}: {'the request succeeded' if out[0] == 'ok' else 'the controller holds session keys'}", step="ble-verify-" + case["step"], state="expected")
                return
            want = {2: X.AuthenticationError, 3: X.BackoffError, 4: X.MaxPeersError, 5: X.MaxTriesError, 6: X.UnavailableError, 7: X.BusyError}.get(case["code"], X.InvalidError)
            if type(out[1]) is not want:
                R.fail("C04.wrong-exception-class", f"{what}: raised {type(out[1]).__name__} ({out[1]}), documented class is {want.__name__}", step="ble-verify-" + case["step"], state="expected", decode="ble")
        finally:
            w.restore()
    vtime.run(main)


def enum_c04_ble_abort(tier):
    for step in ("m2", "m4"):
        for code in (1, 2, 3, 5, 6, 7):
            for piece in (20, 40):
                for after in (1, 2, 3):
                    yield {"step": step, "code": code, "piece": piece, "after": after}


C04_BLE_LAYERS = [Layer("ble-fragment-abort", run_c04_ble_abort, enumerate=enum_c04_ble_abort, exhaustive=True,
                        space="pair-verify M2/M4 delivered in FragmentData pieces of 20/40 bytes, aborted after 1..3 pieces with a plain error reply x 6 codes", min_nontrivial=20),
                  Layer("ble-pairings", run_c04_ble, enumerate=lambda tier: enum_c04_ble("ble"), exhaustive=True,
                        space="add/remove x 13 states x 13 errors x other fields present/absent x 2 orders, plus every state x error cell with pairing.shutdown() called while the request is in flight", min_nontrivial=800)]


# ---------------------------------------------------------------- C01: pair-verify through BlePairing (full, resumed, faulty)
class _Served(Exception):
    pass


def run_c01_ble(case, R):
    fault = case["fault"]
    R.nt(fault != "none" or case.get("reconnects", 0) > 0)
    R.cls("transport:ble", "fault:" + fault)

    async def main(loop):
        w = BleWorld(loop, k=case.get("k", 0), att_payload=case.get("att", 155))
        if case.get("pieces"):
            w.acc.verify_reply_pieces = case["pieces"]
        try:
            p = w.pairing
            armed = [fault != "none" and not case.get("fault_on_resume")]

            def vf(stage, items, pv):
                if not armed[0]:
                    return items
                if fault == "bad-sig" and stage == "m2" and not pv.resumed:
                    return pv.full_m2(pv.inner_m2(sign_key=refhap.ed_from_seed(b"\x09" * 32)))
                if fault == "wrong-id" and stage == "m2" and not pv.resumed:
                    return pv.full_m2(pv.inner_m2(ident_id=b"11:11:11:11:11:11"))
                if fault == "flip-enc" and stage == "m2" and not pv.resumed:
                    return [(t, (v[:-1] + bytes([v[-1] ^ 1])) if t == 5 else v) for t, v in items]
                if fault == "resume-bad-tag" and stage == "m2" and pv.resumed:
                    return [(t, (v[:-1] + bytes([v[-1] ^ 1])) if t == 5 else v) for t, v in items]
                if fault == "error-m4" and stage == "m4":
                    return [(T_STATE, b"\x04"), (T_ERROR, b"\x02")]
                if fault == "resume-error" and stage == "m2" and pv.resumed:
                    # a peer that knows nothing (no long-term key, no earlier session) refuses the resume with an error item: six plaintext bytes
                    pv.resumed = False
                    return [(T_STATE, b"\x02"), (T_ERROR, bytes([case.get("code", 2)]))]
                return items
            w.acc.verify_fault = vf
            what = f"BLE verify fault={fault} case={case}"
            try:
                r = await p.get_characteristics([(1, 10)])
                first = ("ok", r)
            except Exception as e:  # noqa: BLE001
                first = ("raise", e)
            if fault != "none" and not case.get("fault_on_resume"):
                if first[0] == "ok":
                    R.fail("C01.forged-reply-accepted", f"{what}: the request succeeded", family="ble-" + fault)
                elif w.acc.session is not None and fault != "error-m4":
                    R.fail("C01.forged-reply-accepted", f"{what}: the accessory holds a session", family="ble-" + fault)
                else:
                    # the link is still up after the refused pair-verify: whatever is asked next must go through a pair-verify again (and fail again),
                    # never be served without a session
                    for n_ in range(2):
                        try:
                            r2 = await (p.get_characteristics([(1, 11)]) if n_ == 0 else p.put_characteristics([(1, 11, 3)]))
                            R.fail("C01.forged-reply-accepted", f"{what}: operation {n_ + 2} on the same pairing was served ({r2!r:.100}) although no pair-verify ever succeeded",
                                   family="ble-" + fault + "-then-plain")
                            break
                        except Exception:  # noqa: BLE001
                            pass
                return
            if first[0] != "ok" or first[1] != {(1, 10): {"value": False}}:
                R.fail("C01.honest-rejected", f"{what}: first request: {first!r:.300}", exc=type(first[1]).__name__ if first[0] == "raise" else "wrong-result")
                return
            if w.acc.sessions_established != 1 or w.acc.decrypt_errors:
                R.fail("C01.keys-differ", f"{what}: accessory sessions {w.acc.sessions_established}, decrypt errors {w.acc.decrypt_errors}", resumed=False)
                return
            if case.get("impostor"):
                # the session is closed while the BLE stack fails to disconnect (no disconnected callback), and the next link is to a peer
                # that cannot prove anything: no request may go out on it under keys of the old session
                R.cls("ble:faulted-close-then-impostor")
                w.client.disconnect_fails = True
                try:
                    await (p.close() if case["impostor"] == "close" else p._close_while_locked())
                except Exception as e:  # noqa: BLE001
                    R.cls("ble:close-raised-" + type(e).__name__)
                armed[0] = True
                seen = len(w.acc.requests)
                nonlocal_fault = "bad-sig"

                def vf2(stage, items, pv):
                    return pv.full_m2(pv.inner_m2(sign_key=refhap.ed_from_seed(b"\x09" * 32))) if stage == "m2" and not pv.resumed else items
                w.acc.verify_fault = vf2
                w.ident.sessions.clear()          # the impostor knows no earlier session either
                try:
                    await p.get_characteristics([(1, 10)])
                    out = ("ok", None)
                except Exception as e:  # noqa: BLE001
                    out = ("raise", e)
                later = w.acc.requests[seen:]
                verify_msgs = [r for r in later if r[0] == 3]
                if out[0] == "ok" or w.acc.session is not None:
                    R.fail("C01.forged-reply-accepted", f"{what}: after a close with a failing disconnect, a peer without the long-term key was accepted ({out[0]})", family="ble-impostor")
                elif not verify_msgs or w.acc.decrypt_errors or w.acc.unauth_garbage or getattr(p, "_encryption_key", None) is not None:
                    R.fail("C01.forged-reply-accepted", f"{what}: after a close with a failing disconnect the controller used the new link without a pair-verify "
                                                        f"({len(verify_msgs)} verify messages, undecryptable writes {w.acc.decrypt_errors or w.acc.unauth_garbage}, keys held {getattr(p, '_encryption_key', None) is not None})",
                           family="ble-stale-keys")
                return
            for n in range(case.get("reconnects", 0)):
                armed[0] = fault != "none" and case.get("fault_on_resume")
                await w.client.disconnect()
                resumed_before = w.acc.resumed_sessions
                full_before = w.acc.sessions_established
                plain_before = len(w.acc.requests)
                try:
                    r = await p.put_characteristics([(1, 11, 5 + n)])
                    if armed[0] and fault == "resume-error":
                        raise _Served()
                    r2 = await p.get_characteristics([(1, 11)])
                    out = ("ok", r2)
                except _Served:
                    out = ("ok", r)
                except Exception as e:  # noqa: BLE001
                    out = ("raise", e)
                if armed[0] and fault == "resume-error":
                    # the operation may fail, or go through after a *full* pair-verify; it must not be served on a link without a session
                    served_plain = [r_ for r_ in w.acc.requests[plain_before:] if r_[0] not in (2, 3, 4, 5) and r_[1] in (2, 3)]
                    if (out[0] == "ok" and w.acc.sessions_established == full_before) or (served_plain and w.acc.sessions_established == full_before):
                        R.fail("C01.forged-reply-accepted", f"{what}: the resume was refused with error {case.get('code', 2)} by a peer that proved nothing; the operation was carried on "
                                                            f"without a session ({out[0]}; {len(served_plain)} plaintext request(s) reached the peer)", family="ble-resume-refused-then-plain")
                    return
                if armed[0]:
                    # a resume reply with a bad tag must not yield a session under the resumed keys
                    if out[0] == "ok" and w.acc.resumed_sessions > resumed_before and w.acc.sessions_established == 2 + n and fault == "resume-bad-tag":
                        # the controller may fall back to a full verify on the next attempt; it must not have used the forged resume
                        pass
                    return
                if out[0] != "ok" or out[1] != {(1, 11): {"value": 5 + n}}:
                    R.fail("C01.honest-rejected", f"{what}: after reconnect {n}: {out!r:.300}", exc=type(out[1]).__name__ if out[0] == "raise" else "wrong-result")
                    return
                if w.acc.resumed_sessions != resumed_before + 1:
                    R.fail("C01.resume-not-used", f"{what}: reconnect {n} did not resume the session (resumed {w.acc.resumed_sessions})", why="ble")
                    return
                if w.acc.decrypt_errors:
                    R.fail("C01.keys-differ", f"{what}: accessory could not decrypt after resume: {w.acc.decrypt_errors}", resumed=True)
                    return
            await p.shutdown()
        finally:
            w.restore()
    vtime.run(main)


def enum_c01_ble(tier):
    for att in (23, 155):
        for pieces in (None, 20, 60):
            yield {"fault": "none", "reconnects": 2, "att": att, "pieces": pieces}
    for f in ("bad-sig", "wrong-id", "flip-enc", "error-m4"):
        yield {"fault": f}
        yield {"fault": f, "pieces": 30}
    yield {"fault": "resume-bad-tag", "fault_on_resume": True, "reconnects": 1}
    for code in (1, 2, 3, 4, 5, 6, 7):
        yield {"fault": "resume-error", "fault_on_resume": True, "reconnects": 1, "code": code}
    for att in (23, 155):
        yield {"fault": "none", "impostor": "close", "att": att}
        yield {"fault": "none", "impostor": "locked", "att": att}


@st.composite
def c01_ble_cases(draw):
    return {"fault": draw(st.sampled_from(["none", "none", "none", "bad-sig", "wrong-id", "flip-enc", "error-m4"])), "reconnects": draw(st.integers(0, 3)),
            "att": draw(st.sampled_from([23, 40, 155, 512])), "pieces": draw(st.sampled_from([None, None, 4, 7, 20, 100])), "k": draw(st.integers(0, 50))}


C01_BLE_LAYERS = [
    Layer("ble-transport", run_c01_ble, enumerate=enum_c01_ble, exhaustive=True, space="honest (2 resumes) x 2 MTUs x 3 reply fragmentations; 4 faults x 2; resume with bad tag", min_nontrivial=5),
    Layer("ble-transport-gen", run_c01_ble, strategy=c01_ble_cases, n={"quick": 600, "thorough": 5000}),
]


# ---------------------------------------------------------------- C15: FragmentData / FragmentLast reassembly of pairing replies
def run_c15_ble(case, R):
    R.nt(True)
    R.cls("ble-fragment-reassembly")

    async def main(loop):
        w = BleWorld(loop, k=case.get("k", 0), att_payload=case.get("att", 155))
        w.acc.verify_reply_pieces = case["pieces"]
        w.acc.empty_last_fragment = bool(case.get("empty_last"))
        w.acc.response_frag = case.get("rfrag", 512)          # size of the HAP-BLE PDU fragments the pairing TLV travels in, one layer below
        env = case.get("envelope")
        if env:
            def envelope(stage, raw, env=env):
                good = refhap.tlv_enc([(1, raw)])
                if stage != env[1]:
                    return good
                if env[0] == "short":             # the Value item declares more bytes than follow
                    return bytes([1, min(255, len(raw) + 1 + env[2] % 60)]) + raw
                if env[0] == "dangling":          # a lone type byte behind a complete envelope
                    return good + bytes([[1, 6, 9, 255][env[2] % 4]])
                if env[0] == "split":             # the Value in two adjacent items, the first shorter than 255 bytes: a decoder joins equal-typed neighbours
                    cut = 1 + env[2] % (len(raw) - 1)
                    return bytes([1, cut]) + raw[:cut] + bytes([1, len(raw) - cut]) + raw[cut:]
                if env[0] == "cut":               # the envelope itself cut short
                    return good[:1 + env[2] % (len(good) - 1)]
                raise AssertionError(env)
            w.acc.envelope_fault = envelope
        try:
            p = w.pairing
            if env and env[0] != "split":
                # malformed envelope: the codec's own parse error (or another library error), never a result and never a foreign exception
                R.cls("ble-envelope:" + env[0])
                try:
                    r = await p.get_characteristics([(1, 10)])
                    if env[0] == "dangling" and r == {(1, 10): {"value": False}}:
                        return            # a decoder may also stop at the complete envelope
                    R.fail("C15.decode-short-value", f"BLE pair-verify {env[1]} reply with a {env[0]} envelope ({env[2]}) was accepted: {r!r:.100}")
                except Exception as e:  # noqa: BLE001
                    if not type(e).__module__.startswith("aiohomekit") or type(e).__module__.startswith("aiohomekit.tlv8"):
                        R.fail("C15.decode-foreign-exception", f"BLE pair-verify {env[1]} reply with a {env[0]} envelope ({env[2]}): {type(e).__module__}.{type(e).__name__}: {e}",
                               exc=type(e).__name__, shape="ble-envelope")
                return
            try:
                r = await p.get_characteristics([(1, 10)])
            except Exception as e:  # noqa: BLE001
                R.fail("C15.ble-fragment-reassembly", f"pair-verify replies split into {case['pieces']}-byte FragmentData pieces (PDU fragments of {case.get('rfrag', 512)}, "
                                                      f"empty last fragment {bool(case.get('empty_last'))}, envelope {env}): {type(e).__name__}: {e}", exc=type(e).__name__)
                return
            if r != {(1, 10): {"value": False}} or w.acc.sessions_established != 1 or w.acc.decrypt_errors:
                R.fail("C15.ble-fragment-reassembly", f"pieces {case['pieces']}: result {r!r}, sessions {w.acc.sessions_established}")
            await p.shutdown()
        finally:
            w.restore()
    vtime.run(main)


def enum_c15_ble(tier):
    for n in (4, 5, 7, 13, 31, 32, 33, 64, 100, 140, 141, 200):
        for a in (23, 155):
            yield {"pieces": n, "att": a}
    # unfragmented at the TLV level, but the reply PDU itself arrives in fragments of every size 8..120 (the last one may carry 1 or 2 bytes)
    for rfrag in range(8, 121):
        yield {"pieces": None, "att": 155, "rfrag": rfrag}
    for rfrag in (9, 20, 33, 50):
        yield {"pieces": 64, "att": 155, "rfrag": rfrag}
    # every piece size, the reply ending with a zero-length FragmentLast
    for n in range(3, 150):
        yield {"pieces": n, "att": 155, "empty_last": True}
    # the HAP-Param envelope around the pairing TLV: malformed (must be refused with the codec's own error) or split into two Value items (must be joined)
    for stage in ("m2", "m4"):
        for kind in ("short", "dangling", "split", "cut"):
            for v in range(6):
                yield {"pieces": None, "att": 155, "envelope": [kind, stage, v * 11]}


C15_BLE_LAYERS = [Layer("ble-fragment-reassembly", run_c15_ble, enumerate=enum_c15_ble,
                        exhaustive=True, space="pair-verify replies (about 140 bytes) cut into FragmentData pieces of 12 sizes (at most 50 pieces, the library's stated limit) x 2 MTUs; "
                                               "the reply PDU in HAP-BLE fragments of every size 8..120", min_nontrivial=10)]


# ---------------------------------------------------------------- C08 on BLE: a request abandoned half way never poisons the next one
def run_c08_ble(case, R):
    """An honest accessory; some requests are cancelled by their caller after k loop iterations (between the GATT write and the GATT read for some k)
    or hit a GATT error.  Every request that is allowed to finish gets its own answer."""
    R.nt(any(o[0] in ("cancel", "gatt-error") for o in case["ops"]))
    R.cls("c08-ble")

    async def main(loop):
        w = BleWorld(loop, k=case.get("k", 0), att_payload=case.get("att", 155))
        if case.get("disc"):
            # the stack's disconnect() fails with one of the exceptions the library's retry set names; the link is dead or still reports connected
            exc = {"BleakError": BleakError, "EOFError": EOFError, "BrokenPipeError": BrokenPipeError, "TimeoutError": asyncio.TimeoutError, "AttributeError": AttributeError}[case["disc"][0]]
            w.on_client = lambda c: setattr(c, "disconnect_fails", (exc, bool(case["disc"][1])))
            R.cls("c08-ble:disconnect-fails")
        try:
            p = w.pairing
            val = 0
            for i, op in enumerate(case["ops"]):
                name = op[0]
                val += 1
                what = f"BLE op {i} {op} of {case['ops']}"
                if name == "gatt-error":
                    if w.client is not None:
                        w.client.gatt_error_at = w.client.ops + 1 + op[1] % 6
                    continue
                write = name == "put" or (name == "cancel" and op[1] & 1)
                coro = p.put_characteristics([(1, 11, val % 200)]) if write else p.get_characteristics([(1, 11), (1, 10)])
                t = asyncio.ensure_future(coro)
                if name == "cancel":
                    for _ in range(1 + op[2] % 16):
                        await asyncio.sleep(0)
                    t.cancel()
                    try:
                        await t
                    except BaseException:  # noqa: BLE001
                        pass
                    if write:
                        # the write may or may not have reached the accessory
                        known = None
                    await vtime.settle(loop)
                    continue
                try:
                    r = await asyncio.wait_for(t, 300)
                except Exception as e:  # noqa: BLE001
                    R.fail("C08.wrong-error", f"{what}: the accessory is healthy, the request failed with {type(e).__name__}: {e}", exc=type(e).__name__)
                    return
                if write:
                    if r:
                        R.fail("C08.wrong-response", f"{what}: write reported {r!r}", got="other-request")
                        return
                    if w.acc.chars[11]["value"] != bytes([val % 200]):
                        R.fail("C08.wrong-response", f"{what}: the accessory holds {w.acc.chars[11]['value']!r}, written {val % 200}", got="other-request")
                        return
                else:
                    exp11 = w.acc.chars[11]["value"][0]
                    if r != {(1, 11): {"value": exp11}, (1, 10): {"value": False}}:
                        R.fail("C08.wrong-response", f"{what}: read returned {r!r}, the accessory holds {exp11}", got="other-request")
                        return
            await p.shutdown()
        finally:
            w.restore()
    vtime.run(main)


def enum_c08_ble(tier):
    for k_ in range(16):
        for w_ in (0, 1):
            yield {"ops": [["put"], ["cancel", w_, k_], ["get"], ["put"], ["get"]]}
            yield {"ops": [["get"], ["cancel", w_, k_], ["cancel", 1 - w_, (k_ * 3) % 16], ["put"], ["get"]], "att": 40}
    for k_ in range(6):
        yield {"ops": [["get"], ["gatt-error", k_], ["put"], ["get"], ["gatt-error", k_ + 1], ["get"]]}
    for exc in ("BleakError", "EOFError", "BrokenPipeError", "TimeoutError", "AttributeError"):
        for alive in (0, 1):
            for k_ in (1, 3, 5, 8):
                yield {"ops": [["put"], ["cancel", 1, k_], ["get"], ["put"], ["cancel", 0, k_ + 1], ["get"]], "disc": [exc, alive]}
            yield {"ops": [["get"], ["gatt-error", 1], ["put"], ["get"]], "disc": [exc, alive]}


C08_BLE_LAYERS = [Layer("ble-abandoned-requests", run_c08_ble, enumerate=enum_c08_ble, exhaustive=True,
                        space="honest BLE accessory; a read or write cancelled after 1..16 loop iterations (every point of the write/read exchange) or hit by a GATT error, then further requests", min_nontrivial=20)]


# ---------------------------------------------------------------- C17: PDUs through the API
def run_c17_ble(case, R):
    n = case["len"]
    R.nt(n + 20 > case["att"])
    R.cls("ble-api")

    async def main(loop):
        w = BleWorld(loop, k=0, att_payload=case["att"])
        w.acc.response_frag = case.get("rfrag", 512)
        for h_ in w.acc.handles:
            h_.max_write_without_response_size = max(0, case["att"] + case["mwwrs"]) if case.get("mwwrs") is not None else 0
        try:
            p = w.pairing
            text = ("é" * (n // 2) + "a" * (n % 2))
            try:
                await p.put_characteristics([(1, 16, text)])
                got = await p.get_characteristics([(1, 16)])
            except Exception as e:  # noqa: BLE001
                over = [o for c in w.clients for o in c.oversize]
                if over:
                    R.fail("C17.ble-fragment-too-large", f"a write of {over[0][1]} bytes on a link that carries {over[0][2]} (ATT payload {case['att']}, reported write size "
                                                         f"{case.get('mwwrs')}); then {type(e).__name__}")
                    return
                R.fail("C17.ble-api", f"string of {n} bytes at ATT payload {case['att']}: {type(e).__name__}: {e}", exc=type(e).__name__)
                return
            if (16, text.encode()) not in w.acc.writes:
                R.fail("C17.ble-reassembly", f"accessory reassembled {w.acc.writes[-1:]!r:.100} for a {n}-byte value at ATT payload {case['att']}")
                return
            if got != {(1, 16): {"value": text}}:
                R.fail("C17.ble-response", f"read back {got!r:.100} (response fragments of {case.get('rfrag')})")
            over = [o for c in w.clients for o in c.oversize]
            if over:
                R.fail("C17.ble-fragment-too-large", f"a write of {over[0][1]} bytes on a link that carries {over[0][2]} (ATT payload {case['att']}, reported write size {case.get('mwwrs')})")
            await p.shutdown()
        finally:
            w.restore()
    vtime.run(main)


@st.composite
def c17_ble_cases(draw):
    return {"len": draw(st.one_of(st.integers(0, 64), st.integers(0, 1200))), "att": draw(st.sampled_from([23, 24, 30, 64, 155, 244, 512])),
            "rfrag": draw(st.sampled_from([20, 23, 100, 512])), "mwwrs": draw(st.sampled_from([None, None, -10, 0, 1, 20, 200]))}


def run_c17_ble_twins(case, R):
    """Characteristics of one type in one service: every request reaches the instance it names (PDU instance id and GATT handle agree) and every
    answer is attributed to it, whatever was resolved before on the link."""
    order = case["order"]
    R.nt(len({i for _, i in order}) >= 2)
    R.cls("ble-twins")

    async def main(loop):
        w = BleWorld(loop, k=case.get("k", 0))
        try:
            p = w.pairing
            held = {}
            for n, (kind, iid) in enumerate(order):
                what = f"BLE twins {order}: step {n} {kind} {iid}"
                try:
                    if kind == "w":
                        held[iid] = 10 + n
                        r = await p.put_characteristics([(1, iid, 10 + n)])
                        if r:
                            R.fail("C17.pdu-misattributed", f"{what}: write reported {r!r}", transport="ble-twins")
                            return
                    else:
                        r = await p.get_characteristics([(1, iid)])
                        exp = {(1, iid): {"value": held.get(iid, 0)}}
                        if r != exp:
                            R.fail("C17.pdu-misattributed", f"{what}: read returned {r!r}, the accessory holds {exp!r}", transport="ble-twins")
                            return
                except Exception as e:  # noqa: BLE001
                    R.fail("C17.ble-api", f"{what}: {type(e).__name__}: {e}", exc=type(e).__name__)
                    return
                for iid_, v in held.items():
                    if w.acc.chars[iid_]["value"] != bytes([v]):
                        R.fail("C17.pdu-misattributed", f"{what}: the accessory holds {w.acc.chars[iid_]['value']!r} for {iid_}, written {v}", transport="ble-twins")
                        return
                if case.get("drop_at") == n:
                    w.client.drop()
                    await vtime.settle(loop)
            await p.shutdown()
        finally:
            w.restore()
    vtime.run(main)


def enum_c17_ble_twins(tier):
    for perm in itertools.permutations([20, 21, 22]):
        yield {"order": [["w", i] for i in perm] + [["r", i] for i in reversed(perm)]}
        yield {"order": [["r", perm[0]], ["w", perm[1]], ["r", perm[1]], ["w", perm[0]], ["r", perm[2]], ["r", perm[0]]], "drop_at": 2}


C17_BLE_LAYERS = [Layer("ble-api", run_c17_ble, strategy=c17_ble_cases, n={"quick": 1500, "thorough": 20000}),
                  Layer("ble-same-type-instances", run_c17_ble_twins, enumerate=enum_c17_ble_twins, exhaustive=True,
                        space="3 characteristics of one type in one service: writes and reads in all 6 orders, with a link loss in between", min_nontrivial=10)]


# ---------------------------------------------------------------- C04: add-/remove-pairing replies on IP (same cells as BLE)
def run_c04_ip(case, R):
    from vlib.ipworld import IpWorld
    from vlib.refhap import tlv_enc
    op, state, err = case["op"], case["state"], case["err"]
    state = "expected" if state == "2" else state
    error_present = PAIRING_ERRORS[err] is not None
    control = not error_present and state in ("absent", "expected")
    R.nt(not control)
    R.cls("ip-pairings:" + op, "control" if control else "error-cell")

    async def main(loop):
        w = IpWorld(loop)
        w.acc.header_names = case.get("hdr", "title")
        reply = pairing_reply(state, err, case.get("extra"), case.get("order", "spec"))

        def hook(conn, req):
            if req.target == "/pairings":
                ct = HTTP_CTYPES[case.get("ctype", "exact")]
                conn.send_http(case.get("http", 200), "OK", tlv_enc(reply), ctype=ct[0], ctype_name=ct[1])
                return True
            return False
        w.acc.on_request = hook
        try:
            p = w.pairing
            what = f"IP {op} state={state} error={err} extra={case.get('extra')} order={case.get('order')} http={case.get('http', 200)} content-type={case.get('ctype', 'exact')} header-names={case.get('hdr', 'title')}"
            try:
                if op == "add":
                    res = await p.add_pairing("other-controller", "07" * 32, "User")
                elif case.get("via") == "controller":
                    # the alias-level API of the aggregate controller: forgets the pairing, asks the accessory, shuts the pairing down
                    from aiohomekit.characteristic_cache import CharacteristicCacheMemory
                    from aiohomekit.controller import Controller
                    ctl = Controller(char_cache=CharacteristicCacheMemory())
                    for reg in (ctl, w.controller):
                        reg.aliases["alias"] = p
                        reg.pairings[p.id] = p
                    await p.list_accessories_and_characteristics()          # connected, as a pairing in use is
                    R.cls("ip-pairings:via-controller")
                    await ctl.remove_pairing("alias")
                    res = True
                else:
                    res = await p.remove_pairing("other-controller")
                outcome = ("ok", res)
            except Exception as e:  # noqa: BLE001
                outcome = ("raise", e)
            if case.get("via") == "controller":
                # done or refused, the controller has forgotten the pairing: nothing of it may stay open or keep trying
                await asyncio.sleep(90)
                await vtime.settle(loop)
                held = [c for c in w.acc.conns if not c.t.is_closing()]
                if held or p.is_connected:
                    R.fail("C11.open-after-close", f"{what}: Controller.remove_pairing ended with {outcome[0]}; the forgotten pairing still holds {len(held)} connection(s)", kind="remove_pairing")
                    return
            if control:
                if outcome != ("ok", True):
                    R.fail("C04.control-cell-fails", f"{what}: {outcome!r:.200}", step="ip-" + op)
            elif outcome[0] == "ok":
                R.fail("C04.error-reply-succeeds", f"{what}: reported as done ({outcome[1]!r})", step="ip-" + op, state="absent" if state == "absent" else ("expected" if state == "expected" else "wrong"))
            elif not isinstance(outcome[1], X.HomeKitException):
                R.fail("C04.wrong-exception-class", f"{what}: raised {type(outcome[1]).__name__}: {outcome[1]}, not a library error", step="ip-" + op, state=state, decode="ip")
            elif op == "add" and state in ("absent", "expected"):
                want = {"2": X.AuthenticationError, "3": X.BackoffError, "4": X.MaxPeersError, "5": X.MaxTriesError, "6": X.UnavailableError, "7": X.BusyError}.get(err, X.InvalidError)
                if type(outcome[1]) is not want:
                    R.fail("C04.wrong-exception-class", f"{what}: raised {type(outcome[1]).__name__}, documented class is {want.__name__}", step="ip-add", state=state, decode="ip")
            await p.shutdown()
        finally:
            w.restore()
    vtime.run(main)


HTTP_CTYPES = {"exact": ("application/pairing+tlv8", "Content-Type"), "charset": ("application/pairing+tlv8; charset=utf-8", "Content-Type"),
               "case": ("Application/Pairing+TLV8", "Content-Type"), "lower-name": ("application/pairing+tlv8", "content-type"),
               "octets": ("application/octet-stream", "Content-Type"), "json": ("application/hap+json", "Content-Type"), "absent": (None, "Content-Type")}


def enum_c04_ip(tier):
    for c in enum_c04_ble(tier):
        yield c
        if c["op"] == "remove" and not c["extra"] and c["order"] == "spec":
            yield dict(c, via="controller")
        if c["err"] in ("2", "6", "1") and c["state"] in ("expected", "absent", "3") and not c["extra"] and c["order"] == "spec":
            for http in (200, 400, 470, 500):
                for ct in HTTP_CTYPES:
                    if (http, ct) != (200, "exact"):
                        yield dict(c, http=http, ctype=ct)
                for hdr in ("lower", "upper"):
                    yield dict(c, http=http, hdr=hdr)


def run_c04_ip_verify(case, R):
    """pair-verify over the IP connection answered with an error code, under every HTTP status / Content-Type the reply may carry."""
    from vlib.ipworld import IpWorld
    R.nt()
    R.cls("ip-verify:" + case["step"])

    async def main(loop):
        w = IpWorld(loop)
        w.acc.header_names = case.get("hdr", "title")
        ct = HTTP_CTYPES[case["ctype"]]
        w.acc.error_http = (case["http"], "X", ct[0], ct[1])
        w.acc.verify_policy = lambda conn: f"error-{case['step']}:{case['code']}"
        what = f"IP pair-verify {case['step']} error={case['code']} http={case['http']} content-type={case['ctype']}" + (" on a reconnection after an earlier session" if case.get("later") else "")
        try:
            p = w.pairing
            if case.get("later"):
                # the first session is fine; the error comes when the controller reconnects (the pairing was removed on the accessory meanwhile)
                err_policy = w.acc.verify_policy
                w.acc.verify_policy = lambda conn: "ok"
                await p.list_accessories_and_characteristics()
                w.acc.verify_policy = err_policy
                w.acc.conns[-1].close("fin")
                await vtime.settle(loop)
                w.acc.all_requests.clear()
            try:
                await asyncio.wait_for(p.list_accessories_and_characteristics(), 30)
                outcome = ("ok", None)
            except Exception as e:  # noqa: BLE001
                outcome = ("raise", e)
            if outcome[0] == "raise" and case["code"] == 2 and not isinstance(outcome[1], X.AuthenticationError):
                R.fail("C04.wrong-exception-class", f"{what}: raised {type(outcome[1]).__name__} ({outcome[1]}), documented class is AuthenticationError",
                       step="ip-verify-" + case["step"], state="expected", decode="ip")
            secure = [r for r in w.acc.all_requests if r.target != "/pair-verify"]
            if outcome[0] == "ok" or p.connection.is_secure or secure:
                R.fail("C04.error-reply-succeeds", f"{what}: the session was treated as established (outcome {outcome[0]}, is_secure {p.connection.is_secure}, "
                                                   f"{len(secure)} further requests sent)", step="ip-verify-" + case["step"], state="expected")
            await p.shutdown()
        finally:
            w.restore()
    vtime.run(main)


def enum_c04_ip_verify(tier):
    for step in ("m2", "m4"):
        for code in (1, 2, 3, 5, 6, 7, 9):
            for http in (200, 400, 470, 500):
                for ct in HTTP_CTYPES:
                    yield {"step": step, "code": code, "http": http, "ctype": ct}
                for hdr in ("lower", "upper"):
                    yield {"step": step, "code": code, "http": http, "ctype": "exact", "hdr": hdr}
            yield {"step": step, "code": code, "http": 200, "ctype": "exact", "later": True}
            yield {"step": step, "code": code, "http": 470, "ctype": "charset", "later": True}


C04_IP_LAYERS = [Layer("ip-pairings", run_c04_ip, enumerate=enum_c04_ip, exhaustive=True,
                       space="add/remove x 13 states x 13 errors x other fields present/absent x 2 orders (+ HTTP status 200/400/470/500 x 7 Content-Type spellings for 9 cells)", min_nontrivial=800),
                 Layer("ip-verify-http", run_c04_ip_verify, enumerate=enum_c04_ip_verify, exhaustive=True,
                       space="pair-verify M2/M4 error replies x 7 codes x HTTP status 200/400/470/500 x 7 Content-Type spellings through the IP connection", min_nontrivial=300)]


# ---------------------------------------------------------------- C01: pair-verify through the IP connection
def run_c01_ip(case, R):
    from vlib.ipworld import IpWorld
    policy = case["policy"]
    R.nt(policy != "ok")
    R.cls("transport:ip", "fault:" + policy)

    async def main(loop):
        w = IpWorld(loop, k=case.get("k", 0), hosts=(case.get("host", "10.0.0.5"),))
        w.acc.verify_policy = lambda conn: policy
        w.acc.frame_sizes = case.get("sizes") or [1024]
        if case.get("http"):        # status line / Content-Type spelling / header-name spelling of the error replies
            ct = HTTP_CTYPES[case["http"][1]]
            w.acc.error_http = (case["http"][0], "X", ct[0], ct[1])
            w.acc.header_names = case["http"][2]
        try:
            p = w.pairing
            t = asyncio.ensure_future(p.get_characteristics([(1, 9)]))
            await asyncio.sleep(15)
            await vtime.settle(loop)
            what = f"IP verify policy={policy}" + (f" http={case['http']}" if case.get("http") else "")
            if policy == "ok":
                if not t.done() or t.exception() or t.result() != {(1, 9): {"value": False}}:
                    R.fail("C01.honest-rejected", f"{what}: request {t!r:.200}", exc="request")
                elif any(c.frame_errors or c.errors for c in w.acc.conns):
                    R.fail("C01.keys-differ", f"{what}: the reference accessory could not decrypt/parse: {[c.frame_errors + c.errors for c in w.acc.conns]}", resumed=False)
            else:
                if p.is_connected or any(c.secure for c in w.acc.conns) and policy not in ("error-m4:2",):
                    R.fail("C01.forged-reply-accepted", f"{what}: connected={p.is_connected}", family="ip-" + policy)
                elif t.done() and not t.cancelled() and t.exception() is None:
                    R.fail("C01.forged-reply-accepted", f"{what}: the request succeeded", family="ip-" + policy)
            t.cancel()
            await p.shutdown()
        finally:
            w.restore()
    vtime.run(main)


def enum_c01_ip(tier):
    for pol in ("ok", "bad-sig", "wrong-id", "bad-tag", "error-m2:2", "error-m4:2", "garbage-m2"):
        for k in range(2 if tier == "quick" else 20):
            for h, s in (("10.0.0.5", [1024]), ("fd00::9", [1, 300])):
                yield {"policy": pol, "k": k, "host": h, "sizes": s}
    # the accessory refuses the controller (its pairing was removed ...) and says so under every HTTP envelope
    for pol in ("error-m2:2", "error-m4:2", "error-m4:6"):
        for status in (200, 400, 470, 500):
            for ct in HTTP_CTYPES:
                yield {"policy": pol, "k": 0, "http": [status, ct, "title"]}
            yield {"policy": pol, "k": 0, "http": [status, "exact", "lower"]}


C01_IP_LAYERS = [Layer("ip-transport", run_c01_ip, enumerate=enum_c01_ip,
                       exhaustive=True, space="honest + 6 verify faults x 2 (quick) / 20 (thorough) key sets x IPv4/IPv6 peer and frame sizes; error replies under 4 status lines x 7 Content-Type "
                                              "spellings / lower-case header names", min_nontrivial=10)]


# ---------------------------------------------------------------- C12: GATT notifications armed for every subscription, events delivered once
def run_c12_ble(case, R):
    from props._listeners import attach as attach_listeners, check_same as listeners_agree
    """Subscriptions on a connected BLE pairing: after the debounce every subscribed characteristic the stack did not refuse has its GATT
    notification armed (a refusal for one does not stop the others), a notification makes the library read the value and deliver it to every
    listener once, and after the link is lost and re-established the notifications are armed again."""
    ids = case["ids"]
    fail = {int(k_): v for k_, v in case.get("fail", {}).items()}
    R.nt(len(ids) >= 2 and (bool(fail) or case.get("reconnect")))
    R.cls("ble-subscriptions", "refusal" if fail else "no-refusal")

    async def main(loop):
        w = BleWorld(loop, k=case.get("k", 0))
        try:
            p = w.pairing
            logs = attach_listeners(p)
            await p.get_characteristics([(1, 10)])
            c0 = w.client
            c0.notify_fail = dict(fail)
            what = f"BLE subscribe {ids} (start_notify refused for {sorted(fail)})"
            for part in case.get("parts", [ids]):
                await p.subscribe([(1, i) for i in part])
                await asyncio.sleep(case.get("gap", 0))
            await asyncio.sleep(30)
            await vtime.settle(loop)
            if w.client is not c0 or not c0.is_connected:
                R.fail("C12.event-breaks-connection", f"{what}: the link went down while subscribing", exc="none")
                return
            for i in ids:
                if i not in fail and i not in c0.notify:
                    R.fail("C12.not-resubscribed", f"{what}: 30 s after subscribing no GATT notification is armed for {i} (armed: {sorted(c0.notify)}, start_notify calls {c0.notify_calls})", first=True)
                    return
            for l_ in logs:
                l_.clear()
            # a notification for every armed characteristic, one at a time
            for n_, i in enumerate(sorted(c0.notify)):
                if i != 11:
                    continue
                w.acc.chars[11]["value"] = bytes([40 + n_])
                h = next(h_ for h_ in w.acc.handles if h_.iid == i)
                c0.notify[i](h, bytearray())
                await asyncio.sleep(5)
                await vtime.settle(loop)
                if not listeners_agree(R, logs, what):
                    return
                got = [ev for ev in logs[0] if (1, 11) in ev]
                R.cls("ble-notification-delivered")
                if got != [{(1, 11): {"value": 40 + n_}}]:
                    R.fail("C12.listener-log", f"{what}: notification for 11 (value {40 + n_}): listeners saw {logs[0]!r:.300}", kind="missing" if not got else "different", raising_peer=False)
                    return
            if case.get("double") is not None and 11 in c0.notify:
                # two changes in quick succession: the second indication arrives while the read the first one started is still in flight.
                # Whatever is coalesced, the listeners end up with the accessory's last value
                for l_ in logs:
                    l_.clear()
                h = next(h_ for h_ in w.acc.handles if h_.iid == 11)
                w.acc.chars[11]["value"] = bytes([101])
                c0.notify[11](h, bytearray())
                for _ in range(case["double"]):
                    await asyncio.sleep(0)
                w.acc.chars[11]["value"] = bytes([102])
                c0.notify[11](h, bytearray())
                await asyncio.sleep(10)
                await vtime.settle(loop)
                if not listeners_agree(R, logs, what):
                    return
                seen = [ev[(1, 11)]["value"] for ev in logs[0] if (1, 11) in ev]
                R.cls("ble-double-indication")
                if not seen or seen[-1] != 102:
                    R.fail("C12.listener-log", f"{what}: two indications {case['double']} loop iterations apart (values 101, 102): listeners saw {seen}; the accessory holds 102",
                           kind="missing", raising_peer=False)
                    return
            if case.get("reconnect"):
                c0.drop()
                await vtime.settle(loop)
                await p.get_characteristics([(1, 10)])
                await asyncio.sleep(30)
                await vtime.settle(loop)
                c1 = w.client
                if c1 is c0 or not c1.is_connected:
                    R.fail("C12.not-resubscribed", f"{what}: no new link after the loss", first=False)
                    return
                for i in ids:
                    if i not in c1.notify:
                        R.fail("C12.not-resubscribed", f"{what}: after the link was re-established no GATT notification is armed for {i} (armed: {sorted(c1.notify)})", first=False)
                        return
            await p.shutdown()
        finally:
            w.restore()
    vtime.run(main)


def enum_c12_ble(tier):
    pool = [10, 11, 12, 14, 15, 16]
    for n in range(1, len(pool) + 1):
        ids = pool[:n]
        yield {"ids": ids, "reconnect": True}
        for f in ids:
            for how in ("once", "always"):
                yield {"ids": ids, "fail": {str(f): how}}
        if n >= 3:
            yield {"ids": ids, "fail": {str(ids[0]): "always", str(ids[1]): "once"}, "parts": [ids[:1], ids[1:]], "gap": 0.1}
    for d in range(0, 14):
        yield {"ids": [10, 11], "double": d}
        yield {"ids": [11, 12, 14], "double": d, "reconnect": True}


@st.composite
def c12_ble_cases(draw):
    ids = draw(st.lists(st.sampled_from([10, 11, 12, 14, 15, 16]), min_size=1, max_size=6, unique=True))
    fail = {str(i): draw(st.sampled_from(["once", "always"])) for i in ids if draw(st.integers(0, 3)) == 0}
    cut = draw(st.integers(0, len(ids)))
    return {"ids": ids, "fail": fail, "parts": [x for x in (ids[:cut], ids[cut:]) if x], "gap": draw(st.sampled_from([0, 0.1, 5])), "reconnect": not fail and draw(st.booleans()),
            "k": draw(st.integers(0, 5)), "double": draw(st.one_of(st.none(), st.integers(0, 20)))}


def run_c12_ble_poll(case, R):
    """Disconnected events: the accessory changes a subscribed characteristic while no link is up and says so with a new state number in its
    advertisement; the library connects, reads and tells the listeners. Another change may fall anywhere inside that catch-up poll (the accessory then
    advertises the next number): whatever the timing, the listeners end up with the accessory's last value."""
    from bleak.backends.device import BLEDevice
    from bleak.backends.scanner import AdvertisementData
    from props._listeners import attach as attach_listeners, check_same as listeners_agree
    R.nt(case.get("mid") is not None)
    R.cls("ble-disconnected-events", "change-during-poll" if case.get("mid") is not None else "quiet-poll")

    async def main(loop):
        w = BleWorld(loop, k=case.get("k", 0), proto=True, disconnected_events=(11, 12))
        try:
            p = w.pairing
            ctl = w.controller
            dev = BLEDevice("00:11:22:33:44:55", "Sim", None)

            def adv(gsn):
                mfr = bytes([0x06, 0x31, 0x00]) + bytes.fromhex("aabbccddeeff") + struct.pack("<HHBB", 5, gsn & 0xFFFF, 1, 2) + b"\x01\x02\x03\x04"
                ctl._device_detected(dev, AdvertisementData(local_name="Sim", manufacturer_data={76: mfr}, service_data={}, service_uuids=[], tx_power=None, rssi=-60, platform_data=()))
            logs = attach_listeners(p)
            w.acc.gsn = 5
            adv(5)
            await p.get_characteristics([(1, 10)])
            await p.subscribe([(1, 11), (1, 12)])
            await asyncio.sleep(30)
            await vtime.settle(loop)
            what = f"BLE disconnected events, second change after {case.get('mid')} reads of the catch-up poll"
            for round_ in range(case.get("rounds", 1)):
                if w.client is not None and w.client.is_connected:
                    w.client.drop()
                await vtime.settle(loop)
                for l_ in logs:
                    l_.clear()
                # first change, while disconnected
                v1 = 50 + 10 * round_
                w.acc.chars[11]["value"] = bytes([v1])
                w.acc.gsn += 1
                reads = [0]
                changed = [False]

                def on_read(iid, v1=v1):
                    reads[0] += 1
                    if case.get("mid") is not None and not changed[0] and reads[0] > case["mid"]:
                        # second change, during the connection the poll opened: the state number moves once more
                        changed[0] = True
                        w.acc.chars[11]["value"] = bytes([v1 + 1])
                        w.acc.gsn += 1
                w.acc.on_char_read = on_read
                adv(w.acc.gsn if not changed[0] else w.acc.gsn)
                await asyncio.sleep(60)
                await vtime.settle(loop)
                w.acc.on_char_read = None
                # the accessory keeps advertising its current state number (after the link of the poll is gone)
                if w.client is not None and w.client.is_connected:
                    w.client.drop()
                await vtime.settle(loop)
                adv(w.acc.gsn)
                await asyncio.sleep(60)
                await vtime.settle(loop)
                adv(w.acc.gsn)
                await asyncio.sleep(60)
                await vtime.settle(loop)
                if not listeners_agree(R, logs, what):
                    return
                seen = [ev[(1, 11)]["value"] for ev in logs[0] if (1, 11) in ev]
                want = w.acc.chars[11]["value"][0]
                if not seen or seen[-1] != want:
                    R.fail("C12.listener-log", f"{what} (round {round_}): the accessory holds {want} and advertises state number {w.acc.gsn}; listeners saw {seen}, "
                           f"the pairing remembers state number {p.description.state_num if p.description else None}", kind="missing", raising_peer=True)
                    return
            await p.shutdown()
        finally:
            w.restore()
    vtime.run(main)


def enum_c12_ble_poll(tier):
    yield {"mid": None}
    for mid in range(0, 6):
        yield {"mid": mid}
        yield {"mid": mid, "rounds": 2, "k": 1}


C12_BLE_LAYERS = [
    Layer("ble-disconnected-events", run_c12_ble_poll, enumerate=enum_c12_ble_poll, exhaustive=True,
          space="a change while disconnected and a second one after 0..5 reads of the catch-up poll (1 or 2 rounds)", min_nontrivial=10),
    Layer("ble-subscriptions-fixed", run_c12_ble, enumerate=enum_c12_ble, exhaustive=True,
          space="1..6 subscribed characteristics x {no refusal + link loss, start_notify refused once / always for each one, two refusals in two subscribe calls}", min_nontrivial=30),
    Layer("ble-subscriptions", run_c12_ble, strategy=c12_ble_cases, n={"quick": 600, "thorough": 6000}),
]

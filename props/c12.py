"""C12 - subscriptions survive reconnects and every event reaches every listener once (DESIGN 4/C12)."""
import asyncio
import json

from hypothesis import strategies as st

from props._recon import description
from vlib import vtime
from vlib.ipworld import IpWorld
from vlib.runner import Layer, Property

P = "C12"
IDS = [(1, 9), (1, 10), (1, 12), (1, 2), (2, 9), (2, 10), (2, 2), (1, 11)]


class ListenerBoom(Exception):
    pass


HDR = {"title": (b"Content-Type", b"Content-Length"), "lower": (b"content-type", b"content-length"), "upper": (b"CONTENT-TYPE", b"CONTENT-LENGTH"),
       "mixed": (b"Content-type", b"Content-length")}


def event_msg(body: bytes, hdr="title") -> bytes:
    # header names are case-insensitive (RFC 7230 3.2); accessories do not all spell them the same way
    ct, cl = HDR[hdr]
    return b"EVENT/1.0 200 OK\r\n" + ct + b": application/hap+json\r\n" + cl + b": %d\r\n\r\n" % len(body) + body


def run_case(case, R):
    ops = case["ops"]
    names = [o[0] for o in ops]
    R.nt((("drop" in names or "pdrop" in names) and "sub" in names) or "offsub" in names or any(o[0] == "burst" and len(o[1]) >= 2 for o in ops) or any(o[0] == "addl" and o[1] == "raising" for o in ops))
    for n in set(names):
        R.cls("op:" + n)

    async def main(loop):
        w = IpWorld(loop, k=case.get("k", 0))
        p = w.pairing
        hdr = case.get("hdr", "title")
        if hdr != "title":
            R.cls("hdr:" + hdr)
            w.acc.header_names = hdr if hdr in ("lower", "upper") else "title"
        wanted = set()
        listeners = []          # dict(id, kind, alive, log, remove)
        polling_fallback = False
        seen_conns = 0
        event_no = [0]

        def add_listener(kind):
            rec = {"id": len(listeners), "kind": kind, "alive": True, "log": [], "expect": []}

            def cb(ev):
                rec["log"].append(json.loads(json.dumps({f"{k[0]}.{k[1]}": v for k, v in ev.items()})))
                if kind == "raising":
                    raise ListenerBoom("listener failure")
            rec["remove"] = p.dispatcher_connect(cb)
            listeners.append(rec)

        def expect_all(ev):
            for l in listeners:
                if l["alive"]:
                    l["expect"].append(ev)

        def cur():
            c = w.acc.conns[-1] if w.acc.conns else None
            return c if c is not None and c.open and not c.peer_closed and c.secure else None

        async def check(where):
            nonlocal seen_conns, polling_fallback
            await vtime.settle(loop, 5000)
            # new secure sessions since the last check
            conns = [c for c in w.acc.conns if c.verified_at is not None]
            while seen_conns < len(conns):
                c = conns[seen_conns]
                seen_conns += 1
                if c is not cur() or not p.is_connected:
                    continue           # lost again before the connector reported completion: judged on the next one
                asked = {(i["aid"], i["iid"]) for ci, payload in w.acc.put_log if ci == c.index for i in payload if i.get("ev") is True}
                if not polling_fallback and not wanted <= asked:
                    R.fail("C12.not-resubscribed", f"{where}: session {c.index} established; wanted {sorted(wanted)}, asked again only for {sorted(asked)}",
                           first=c.index == 0)
            for l in listeners:
                if l["log"] != l["expect"]:
                    others_raise = any(x["kind"] == "raising" and x["alive"] for x in listeners if x is not l)
                    R.fail("C12.listener-log", f"{where}: listener {l['id']} ({l['kind']}) saw {l['log']!r:.400} expected {l['expect']!r:.400}",
                           kind="missing" if len(l["log"]) < len(l["expect"]) else ("extra" if len(l["log"]) > len(l["expect"]) else "different"),
                           raising_peer=others_raise)
                    return False
            return True

        def on_connected_expect():
            expect_all({})

        try:
            add_listener("normal")
            # first connection
            t = asyncio.ensure_future(p.list_accessories_and_characteristics())
            await vtime.settle(loop, 5000)
            if not p.is_connected:
                raise AssertionError("harness: initial connection failed")
            on_connected_expect()
            await t
            if not await check("after the initial connection"):
                return
            for k, op in enumerate(ops):
                name = op[0]
                where = f"after op {k} {op!r:.120}"
                if name == "subbig":
                    # a subscription set whose request does not fit one encrypted frame (1024 bytes of plaintext)
                    ids = [(op[1], 100 + j) for j in range(op[2])]
                    wanted |= set(ids)
                    await asyncio.wait_for(p.subscribe(ids), 45)
                elif name == "sub":
                    ids = [tuple(x) for x in op[1]]
                    drop_during = len(op) > 2 and op[2] in ("fin", "reset")
                    if drop_during and cur() is not None and not polling_fallback:
                        c = cur()

                        def hook(conn, req, c=c, how=op[2]):
                            if conn is c and req.method == "PUT" and b'"ev"' in req.body:
                                w.acc.on_request = None
                                conn.close(how)
                                return True
                            return False
                        w.acc.on_request = hook
                    connected = p.is_connected
                    wanted |= set(ids)
                    res = await asyncio.wait_for(p.subscribe(ids), 45)
                    w.acc.on_request = None
                    if drop_during and connected and not polling_fallback:
                        polling_fallback = True      # the exemption written into the statement
                        R.cls("polling-fallback")
                        await asyncio.sleep(1)       # let it reconnect
                        await vtime.settle(loop, 5000)
                        if p.is_connected:
                            on_connected_expect()
                elif name == "offsub":
                    # subscribe while the accessory is unreachable (nothing can be sent, so no request is "cut off"), then it comes back
                    ids = [tuple(x) for x in op[1]]
                    w.net.connect_policy = lambda host, n: "refuse"
                    c = cur()
                    if c is not None:
                        c.close("fin")
                    await vtime.settle(loop, 5000)
                    await asyncio.sleep(0.5)
                    wanted |= set(ids)
                    if not p.is_connected:
                        R.cls("subscribe-while-unreachable")
                    await asyncio.wait_for(p.subscribe(ids), 45)
                    await asyncio.sleep(op[2])
                    w.net.connect_policy = lambda host, n: "accept"
                    await asyncio.sleep(70)          # one back-off period at most
                    await vtime.settle(loop, 5000)
                    if p.is_connected:
                        on_connected_expect()
                    else:
                        R.fail("C12.not-resubscribed", f"{where}: accessory reachable again for 70 s, pairing not connected", first=False)
                        return
                elif name == "unsub":
                    ids = [tuple(x) for x in op[1]]
                    connected = p.is_connected
                    res = await asyncio.wait_for(p.unsubscribe(ids), 45)
                    failed = set(res or {})
                    wanted -= (set(ids) - failed)
                elif name == "reject":
                    key = tuple(op[1])
                    if op[2]:
                        w.acc.subscribe_status[key] = op[2]
                    else:
                        w.acc.subscribe_status.pop(key, None)
                elif name == "addl":
                    add_listener(op[1])
                elif name == "rml":
                    alive = [l for l in listeners if l["alive"]]
                    if alive:
                        l = alive[op[1] % len(alive)]
                        l["remove"]()
                        l["alive"] = False
                elif name == "drop":
                    c = cur()
                    if c is None:
                        continue
                    c.close(op[1])
                    await vtime.settle(loop, 5000)
                    await asyncio.sleep(op[2] if len(op) > 2 else 1)
                    await vtime.settle(loop, 5000)
                    if p.is_connected:
                        on_connected_expect()
                elif name == "pdrop":
                    # the connection is lost while an encrypted block is only partly received; nothing of it may survive into the next session
                    c = cur()
                    if c is None:
                        continue
                    wire = c.encrypt(event_msg(json.dumps({"characteristics": [{"aid": 1, "iid": 9, "value": -1}]}).encode(), hdr))
                    c.send_wire(wire[:1 + op[2] % (len(wire) - 1)])
                    await vtime.settle(loop, 5000)
                    c.close(op[1])
                    await vtime.settle(loop, 5000)
                    await asyncio.sleep(1)
                    await vtime.settle(loop, 5000)
                    if p.is_connected:
                        on_connected_expect()
                elif name == "burst":
                    c = cur()
                    if c is None:
                        continue
                    plain = b""
                    for body in op[1]:
                        kind = body[0]
                        if kind == "valid":
                            chars = []
                            ev = {}
                            for (a, i) in [tuple(x) for x in body[1]]:
                                event_no[0] += 1
                                chars.append({"aid": a, "iid": i, "value": event_no[0]})
                                ev[f"{a}.{i}"] = {"value": event_no[0]}
                            plain += event_msg(json.dumps({"characteristics": chars}, separators=(",", ":")).encode(), hdr)
                            expect_all(ev)
                        elif kind == "empty":
                            plain += event_msg(b"", hdr)
                        elif kind == "text":
                            plain += event_msg(body[1].encode(), hdr)
                        elif kind == "bytes":
                            plain += event_msg(bytes(body[1]), hdr)
                    wire = c.encrypt(plain, op[3] if len(op) > 3 else None)
                    c.send_wire(wire, cuts=[x % max(1, len(wire)) for x in op[2]])
                    await vtime.settle(loop, 5000)
                    if c is not cur() or not p.is_connected:
                        R.fail("C12.event-breaks-connection", f"{where}: the connection went down while handling an event burst "
                               f"(fatal={c.t.fatal!r:.200})", exc=type(c.t.fatal).__name__ if c.t.fatal else "none")
                        return
                elif name == "zc":
                    p._async_description_update(description(["10.0.0.5"], 51826, 2 + k))
                elif name == "adv":
                    await asyncio.sleep(op[1])
                else:
                    raise AssertionError(name)
                if not await check(where):
                    return
        except asyncio.TimeoutError:
            R.fail("C12.call-hangs", "subscribe/unsubscribe did not return within 45 s")
        finally:
            try:
                await p.shutdown()
            except Exception:  # noqa: BLE001
                pass
            w.restore()
    vtime.run(main)


# ---------------------------------------------------------------- strategies
IDSETS = st.lists(st.sampled_from(IDS), min_size=1, max_size=5, unique=True)
BODY = st.one_of(
    st.tuples(st.just("valid"), st.lists(st.sampled_from(IDS), min_size=1, max_size=3, unique=True)).map(list),
    st.tuples(st.just("valid"), st.lists(st.sampled_from(IDS), min_size=1, max_size=2, unique=True)).map(list),
    st.just(["empty"]),
    st.tuples(st.just("text"), st.sampled_from(["not json", "{", "{\"characteristics\": [", "<html>", "nul\x00l", "{'a': 1}"])).map(list),
    st.tuples(st.just("bytes"), st.sampled_from([b"\xff\xfe", b"\x80abc", b"{\"characteristics\":[{\"aid\":1,\"iid\":9,\"value\":\"\xff\"}]}", b"\xc3"])).map(list),
)
OP = st.one_of(
    st.tuples(st.just("sub"), IDSETS).map(list), st.tuples(st.just("sub"), IDSETS).map(list),
    st.tuples(st.just("sub"), IDSETS, st.sampled_from(["fin", "reset"])).map(list),
    st.tuples(st.just("unsub"), IDSETS).map(list),
    st.tuples(st.just("reject"), st.sampled_from(IDS), st.sampled_from([0, -70406, -70402])).map(list),
    st.tuples(st.just("addl"), st.sampled_from(["normal", "raising"])).map(list),
    st.tuples(st.just("rml"), st.integers(0, 5)).map(list),
    st.tuples(st.just("drop"), st.sampled_from(["fin", "reset"])).map(list),
    st.tuples(st.just("drop"), st.sampled_from(["fin", "reset"])).map(list),
    st.tuples(st.just("burst"), st.lists(BODY, min_size=1, max_size=4), st.lists(st.integers(1, 3000), max_size=4),
              st.lists(st.sampled_from([16, 40, 1024]), min_size=1, max_size=2)).map(list),
    st.tuples(st.just("burst"), st.lists(BODY, min_size=1, max_size=4), st.lists(st.integers(1, 3000), max_size=4)).map(list),
    st.just(["zc"]),
    st.tuples(st.just("adv"), st.sampled_from([0.1, 5, 61])).map(list),
    st.tuples(st.just("offsub"), IDSETS, st.sampled_from([0.5, 5, 30])).map(list),
    st.tuples(st.just("pdrop"), st.sampled_from(["fin", "reset"]), st.integers(0, 200)).map(list),
    st.tuples(st.just("subbig"), st.sampled_from([1, 2]), st.sampled_from([30, 40, 70, 130])).map(list),
)


@st.composite
def histories(draw):
    return {"k": draw(st.integers(0, 30)), "ops": draw(st.lists(OP, min_size=2, max_size=18)),
            "hdr": draw(st.sampled_from(["title", "title", "lower", "upper", "mixed"]))}


def enum_fixed(tier):
    v = ["valid", [[1, 9]]]
    v2 = ["valid", [[1, 9], [2, 10]]]
    bad = [["empty"], ["text", "not json"], ["bytes", b"\xff\xfe"], ["text", "{"], ["bytes", b"\xc3"]]
    for hdr in ("lower", "upper", "mixed"):
        yield {"hdr": hdr, "ops": [["sub", [[1, 9], [2, 10]]], ["burst", [v, v2], [7]], ["drop", "fin"], ["burst", [v2, ["empty"], v], []]]}
    for n in (30, 40, 70, 130):
        yield {"ops": [["subbig", 1, n], ["sub", [[2, 10], [1, 9]]], ["burst", [v2], []], ["drop", "fin"], ["burst", [v], []], ["subbig", 2, n], ["drop", "reset"], ["burst", [v2], []]]}
    for b in bad:
        yield {"ops": [["sub", [[1, 9]]], ["burst", [b, v], []], ["burst", [v, b, v2], [7, 90]], ["burst", [v], []]]}
        yield {"ops": [["addl", "raising"], ["addl", "normal"], ["sub", [[1, 9], [2, 10]]], ["burst", [v, b, v], [3]], ["drop", "fin"], ["burst", [v2], []]]}
    for how in ("fin", "reset"):
        for k in (0, 1, 2, 17, 40):
            yield {"ops": [["sub", [[1, 9], [2, 10]]], ["pdrop", how, k], ["burst", [v], []], ["pdrop", how, k + 3], ["burst", [v2, v], [5]]]}
    for secs in (0.5, 12, 40):
        yield {"ops": [["offsub", [[1, 9], [2, 10]], secs], ["burst", [v2], []], ["drop", "fin"], ["burst", [v], []]]}
        yield {"ops": [["sub", [[1, 9]]], ["offsub", [[2, 10]], secs], ["burst", [v2, v], []]]}
    for how in ("fin", "reset"):
        yield {"ops": [["sub", [[1, 9], [2, 10], [1, 10]]], ["drop", how], ["burst", [v], []], ["drop", how], ["sub", [[2, 9]]], ["drop", how], ["burst", [v2, v], [5]]]}
        yield {"ops": [["sub", [[1, 9]]], ["sub", [[2, 10]], how], ["burst", [v], []], ["sub", [[1, 10]]], ["drop", "fin"], ["burst", [v], []]]}
        yield {"ops": [["addl", "normal"], ["sub", [[1, 9], [2, 9]]], ["unsub", [[1, 9]]], ["drop", how], ["rml", 0], ["burst", [v, v2], []], ["drop", how], ["burst", [v], []]]}
        yield {"ops": [["reject", [1, 10], -70406], ["sub", [[1, 9], [1, 10]]], ["drop", how], ["unsub", [[1, 10]]], ["drop", how], ["burst", [v], []]]}


from props.ble_layers import C12_BLE_LAYERS as _BLE12  # noqa: E402
from props.coap_layers import C12_COAP_LAYERS as _COAP  # noqa: E402

SPEC = Property(
    P, "exploration",
    rule=("histories of 2..18 operations over {subscribe / unsubscribe overlapping id sets over 2 accessory ids (the accessory may reject "
          "items), subscribe cut by a FIN/reset (polling fallback), subscribe while the accessory is unreachable followed by its return, add normal/raising listener, remove listener, peer FIN/reset (also in the middle of an encrypted block) followed by "
          "reconnection, event burst of 1..4 EVENT messages in one read or split across reads (valid with 1..3 characteristics, empty, "
          "non-JSON text, non-UTF-8 bytes) under generated frame sizes, zeroconf update, advance time}; model = wanted set, listener set, "
          "polling-fallback flag. BLE: 1..6 subscriptions with start_notify refused once / always per characteristic, link loss, one notification read back. CoAP: 1..4 event notifications of 1..4 records each (instance ids may repeat inside one notification) to 1..3 listeners. Non-trivial: a reconnect while something is subscribed, a burst of >=2 messages, or a raising listener."),
    layers=[
        Layer("fixed-shapes", run_case, enumerate=enum_fixed, exhaustive=True, space="5 unparsable body kinds x 2 frames; FIN/reset x 4 frames", min_nontrivial=10),
        Layer("generated", run_case, strategy=histories, n={"quick": 12000, "thorough": 150000}, min_nontrivial=500),
        *_COAP,
        *_BLE12,
    ],
    assumptions=["valid JSON that is not an object is not generated as an event body",
                 "listener order within one event is not constrained (listeners are kept in a set); per-listener order is",
                 "after a subscribe request cut by a disconnection the library falls back to polling (statement's exemption): re-subscription is then not demanded"],
    min_nontrivial=500,
)

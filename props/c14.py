"""C14 - values prepared for writing respect format, range and step (DESIGN 4/C14).

Oracle: exact rational arithmetic (fractions.Fraction) on the decimal reading of the inputs."""
import math
import re
from fractions import Fraction
from functools import lru_cache

from hypothesis import strategies as st

from aiohomekit.exceptions import FormatError
from aiohomekit.model import Accessory
from aiohomekit.model.characteristics.characteristic import check_convert_value
from vlib.runner import Layer, Property

P = "C14"
# Six significant digits: the relative spacing of 6-digit decimals is up to 1e-5 (at 1.00000), so one rounding errs by up to
# 5e-6 relative; the conversion rounds four intermediate values (difference, quotient, product, sum).
TOL = Fraction(25, 10**6)
INT_FORMATS = ["uint8", "uint16", "uint32", "uint64", "int"]
CHAR_TYPE = "0000FF01-0000-1000-8000-0026BB765291"
NUM_RE = re.compile(r"^\s*[+-]?(\d+\.?\d*|\.\d+)([eE][+-]?\d+)?\s*$")
GARBAGE = ["", " ", "abc", "1.2.3", "0x10", "1,5", "--1", "1e", "e5", "nan", "NaN", "inf", "-inf", "Infinity", "sNaN",
           "12abc", "true", "None", "1/2", "+", ".", "1 2", "0b1", "²"]


def dr(x):
    """Decimal reading of an input as an exact rational; None if it is not a finite number."""
    if isinstance(x, bool):
        return Fraction(int(x))
    if isinstance(x, int):
        return Fraction(x)
    if isinstance(x, float):
        if not math.isfinite(x):
            return None
        return Fraction(repr(x))
    if isinstance(x, str):
        if not NUM_RE.match(x):
            return None
        return Fraction(x.strip())
    return None


def sig_digits(q: Fraction) -> int:
    """Number of significant decimal digits of q (99 if not a short terminating decimal)."""
    if q == 0:
        return 1
    n, d = abs(q.numerator), q.denominator
    k = 0
    while d != 1 and k < 40:
        n *= 10
        g = math.gcd(n, d)
        n //= g
        d //= g
        k += 1
    if d != 1:
        return 99
    s = str(n).rstrip("0")
    return len(s)


SPEC_TYPE = "00000035-0000-1000-8000-0026BB765291"     # target temperature: the type's own defaults are 10..38 step 0.1


@lru_cache(maxsize=1)
def _ble_identity():
    from vlib.refhap import RefIdentity
    return RefIdentity(b"AA:BB:CC:DD:EE:FF", bytes(range(32)))


def make_service(fmt, mn, mx, stp, construct="kwargs"):
    return _make_service(fmt, mn, type(mn).__name__, mx, type(mx).__name__, stp, type(stp).__name__, construct)


@lru_cache(maxsize=4096)
def _make_service(fmt, mn, _t1, mx, _t2, stp, _t3, construct):
    """construct: how the metadata reaches the model - constructor keywords (tests, IP discovery of a fresh model), attributes assigned after
    construction (the BLE GATT database fetch, vendor type or a type with other defaults of its own), or the JSON entity map (IP, cache)."""
    acc = Accessory(1)
    svc = acc.add_service("0000FF00-0000-1000-8000-0026BB765291")
    if construct in ("assign", "assign-spec"):
        ch = svc.add_char(SPEC_TYPE if construct == "assign-spec" else CHAR_TYPE)
        ch.perms = ["pr", "pw"]
        ch.format = fmt
        if stp is not None:
            ch.minStep = stp
        if mn is not None:
            ch.minValue = mn
        if mx is not None:
            ch.maxValue = mx
        return svc, ch
    if construct in ("ble-signature", "ble-signature-spec"):
        # the way a Bluetooth accessory declares it: a characteristic signature (HAP-BLE 7.3.4.x) with Valid-Range and Step-Value descriptors in
        # the characteristic's own wire format, served by the simulated accessory and read by the tree's own GATT database fetch
        # (BlePairing._async_fetch_gatt_database); "-spec": a type with defaults of its own (target temperature), complete declarations only
        from aiohomekit.controller.ble.pairing import BlePairing
        from vlib import vtime
        from vlib.blesim import SVC_TEST, FakeBleClient, RefBleAccessory

        class _FetchOnly(BlePairing):
            name = "sim"
            rssi = None

            def __init__(self, client):
                self.client = client
        ctype = SPEC_TYPE if construct == "ble-signature-spec" else CHAR_TYPE
        decl = {"uuid": ctype, "format": fmt, "perms": ["pr", "pw"], "value": b"", "min": mn, "max": mx, "step": stp}
        sim = RefBleAccessory(_ble_identity(), {9: decl})
        accs = vtime.run_shared(_FetchOnly(FakeBleClient(sim))._async_fetch_gatt_database())
        ch = accs.aid(1).characteristics.iid(9)
        return ch.service, ch
    if construct == "coap-database":
        # the way a Thread accessory declares it: the PDU 09 database, decoded and turned into the model by the tree (Pdu09Database -> to_dict -> Accessories)
        import struct

        from aiohomekit.controller.coap.structs import Pdu09Database
        from aiohomekit.model import Accessories
        from vlib import refhap
        fmt_byte, code = {"int": (0x10, "i"), "float": (0x14, "f")}[fmt]
        items = [(0x04, (0xFF01).to_bytes(16, "little")), (0x05, struct.pack("<H", 9)), (0x0A, struct.pack("<H", 0x0030)), (0x0C, struct.pack("<BbHBH", fmt_byte, 0, 0x2700, 1, 0))]
        if mn is not None and mx is not None:
            items.append((0x0D, struct.pack("<" + code * 2, mn, mx)))
        if stp is not None:
            items.append((0x0E, struct.pack("<" + code, stp)))
        svc_items = [(0x15, [(0x06, (0x43).to_bytes(16, "little")), (0x07, struct.pack("<H", 8)), (0x14, ("list", [[(0x13, items)]])), (0x0F, struct.pack("<H", 1))])]
        raw = refhap.enc_struct([(0x18, ("list", [[(0x19, [(0x1A, struct.pack("<H", 1)), (0x16, ("list", [svc_items]))])]]))])
        accs = Accessories.from_list(Pdu09Database.decode(raw).to_dict())
        ch = accs.aid(1).characteristics.iid(9)
        return ch.service, ch
    kw = {"format": fmt, "perms": ["pr", "pw"]}
    if mn is not None:
        kw["min_value"] = mn
    if mx is not None:
        kw["max_value"] = mx
    if stp is not None:
        kw["min_step"] = stp
    ch = svc.add_char(CHAR_TYPE, **kw)
    if construct == "json":
        from aiohomekit.model import Accessories
        accs = Accessories()
        accs.add_accessory(acc)
        again = Accessories.from_list(accs.serialize())
        svc = again.aid(1).services.iid(svc.iid)
        ch = svc.characteristics.get(ch.iid)
    return svc, ch


def num(v):
    """JSON round trip may turn a tuple-encoded number back; cases carry plain ints/floats."""
    return v


def run_case(case, R):
    fmt, mn, mx, stp, v = case["fmt"], case.get("min"), case.get("max"), case.get("step"), case["v"]
    via = case.get("via", "build_update")
    construct = case.get("construct", "kwargs")
    if construct == "ble-signature" and fmt == "float" and None not in (mn, mx, stp) and case.get("spec"):
        construct = "ble-signature-spec"
    if construct == "coap-database" and fmt not in ("int", "float"):
        construct = "ble-signature"          # (CoAP reports every integer format as "int": only that one and float are compared through this path)
    if construct in ("ble-signature", "ble-signature-spec", "coap-database"):
        # representable in the wire format only: both bounds or none, integral and in range for integer formats, float32-exact for float
        import struct as _st
        ok = fmt != "bool" and (mn is None) == (mx is None)
        for x in (mn, mx, stp):
            if x is None or not ok:
                continue
            if fmt == "float":
                ok = ok and isinstance(x, (int, float)) and abs(x) < 3e38 and _st.unpack("<f", _st.pack("<f", x))[0] == x
            else:
                lo_, hi_ = INT_LIMITS[fmt]
                ok = ok and isinstance(x, int) and not isinstance(x, bool) and lo_ <= x <= hi_
        if not ok:
            construct = "assign"
    if construct == "assign-spec" and (fmt != "float" or None in (mn, mx, stp)):
        construct = "assign"          # without a declared bound the type's own default would apply; only complete declarations are compared
    svc, ch = make_service(fmt, mn, mx, stp, construct)

    def convert():
        if via == "build_update":
            out = svc.build_update({ch.type: v})
            assert len(out) == 1 and out[0][0] == svc.accessory.aid and out[0][1] == ch.iid
            return out[0][2]
        return check_convert_value(v, ch)
    try:
        if case.get("thread"):
            # callers prepare values on worker threads too (executor jobs): a fresh thread has a fresh decimal context and a fresh contextvars context
            import threading
            box = []

            def work():
                try:
                    box.append((convert(), None))
                except BaseException as e:  # noqa: BLE001
                    box.append((None, e))
            th = threading.Thread(target=work)
            th.start()
            th.join()
            R.cls("on-worker-thread")
            if box[0][1] is not None:
                raise box[0][1]
            res = box[0][0]
        else:
            res = convert()
        exc = None
    except FormatError as e:
        res, exc = None, e
    except Exception as e:  # noqa: BLE001
        res, exc = None, e

    if fmt == "bool":
        s = str(v).lower()
        truthy = s in ("y", "yes", "t", "true", "on", "1")
        falsy = s in ("n", "no", "f", "false", "off", "0")
        R.nt(not (truthy or falsy))
        R.cls("bool:garbage" if not (truthy or falsy) else "bool:valid")
        if exc is not None:
            if not isinstance(exc, FormatError):
                R.fail("C14.garbage-foreign-exception", f"bool input {v!r}: {type(exc).__name__}: {exc}", exc=type(exc).__name__, fmt="bool")
            elif truthy or falsy:
                R.fail("C14.valid-input-raises", f"bool input {v!r} raised FormatError")
            return
        if res not in (0, 1) or isinstance(res, bool) and False:
            R.fail("C14.bool-result", f"bool input {v!r} -> {res!r}")
        elif (truthy and res != 1) or (falsy and res != 0) or not (truthy or falsy):
            R.fail("C14.bool-result", f"bool input {v!r} -> {res!r}")
        return

    x = dr(v)
    if x is None:
        R.nt()
        R.cls("garbage:" + type(v).__name__)
        if exc is None:
            R.fail("C14.garbage-accepted", f"{fmt}: garbage {v!r} converted to {res!r}", kind=type(v).__name__)
        elif not isinstance(exc, FormatError):
            R.fail("C14.garbage-foreign-exception", f"{fmt}: input {v!r} raised {type(exc).__name__}: {exc}",
                   exc=type(exc).__name__, kind=type(v).__name__)
        return
    if exc is not None:
        R.fail("C14.valid-input-raises", f"{fmt} min={mn} max={mx} step={stp}: input {v!r} raised {type(exc).__name__}: {exc}",
               exc=type(exc).__name__)
        return

    fmn = dr(mn) if mn is not None else None
    fmx = dr(mx) if mx is not None else None
    fst = dr(stp) if stp else None
    xp = x
    if fmn is not None:
        xp = max(fmn, xp)
    if fmx is not None:
        xp = min(fmx, xp)
    off = fmn if fmn is not None else Fraction(0)
    is_int_fmt = fmt in INT_FORMATS
    clamped = xp != x
    offgrid = fst is not None and ((xp - off) / fst).denominator != 1
    R.nt(clamped or offgrid or abs(x) > 10**6)
    R.cls("fmt:" + fmt, "step" if fst else "nostep")
    if clamped:
        R.cls("clamped")
    if offgrid:
        R.cls("off-grid")
    if abs(x) > 10**6:
        R.cls("magnitude>1e6")

    # (4) type of the result
    if is_int_fmt and (type(res) is not int):
        R.fail("C14.result-type", f"{fmt}: result {res!r} is {type(res).__name__}, not int")
        return
    if not is_int_fmt and type(res) is not float:
        R.fail("C14.result-type", f"float: result {res!r} is {type(res).__name__}, not float")
        return
    if not is_int_fmt and not math.isfinite(res):
        R.fail("C14.result-type", f"float: result {res!r} not finite for input {v!r}")
        return
    r = Fraction(res)

    # expected grid point(s)
    tie = False
    if fst is not None:
        q = (xp - off) / fst
        kf = math.floor(q)
        fr = q - kf
        if fr > Fraction(1, 2):
            ks = [kf + 1]
        elif fr < Fraction(1, 2):
            ks = [kf]
        else:
            tie = True
            ks = [kf + 1] if q >= 0 else [kf, kf + 1]
        targets = [off + k * fst for k in ks]
    else:
        q = None
        targets = [xp]
    if tie:
        R.cls("tie")
    all_int = all(t is None or t.denominator == 1 for t in (x, fmn, fmx, fst))
    desc = f"{fmt} min={mn!r} max={mx!r} step={stp!r} input={v!r} -> {res!r}"

    if is_int_fmt and all_int:
        # (1) exact, any magnitude
        R.cls("regime:integer-exact")
        if r not in targets:
            R.fail("C14.integer-exact", f"{desc}; expected {[int(t) for t in targets]}",
                   magnitude=">1e6" if abs(x) >= 10**6 or abs(off) >= 10**6 else "<=1e6")
            return
        regime = "exact"
    else:
        exact = (fst is None) or (max(sig_digits(xp - off), sig_digits(q), sig_digits(targets[0]), sig_digits(targets[0] - off),
                                      sig_digits(x), sig_digits(fst), sig_digits(off),
                                      sig_digits(fmx) if fmx is not None else 1) <= 6 and abs(q) < 10**6)
        regime = "exact" if exact else "tolerance"
        R.cls("regime:" + regime)
        if exact:
            if is_int_fmt:
                # nearest integer(s) to the (possibly fractional) target; either neighbour on an exact .5
                want = set()
                for t in targets:
                    fl = math.floor(t)
                    d = t - fl
                    want |= {fl} if d < Fraction(1, 2) else ({fl + 1} if d > Fraction(1, 2) else {fl, fl + 1})
                if int(r) not in want:
                    R.fail("C14.grid-exact", f"{desc}; expected one of {sorted(want)}", regime="exact-int")
                    return
            else:
                want = {float(t) for t in targets}
                if res not in want:
                    R.fail("C14.grid-exact", f"{desc}; expected {sorted(want)}", regime="exact-float", tie=tie)
                    return
        else:
            big = max(abs(xp - off), abs(off), abs(xp), fst)
            tol = TOL * big + (Fraction(1, 2) if is_int_fmt else 0)
            j0 = round((r - off) / fst)
            ok = False
            for j in (j0 - 1, j0, j0 + 1):
                g = off + j * fst
                if abs(r - g) <= tol and abs(xp - g) <= fst / 2 + tol:
                    ok = True
                    break
            if not ok:
                R.fail("C14.grid-tolerance", f"{desc}; no grid point within tolerance {float(tol):g} of the result that is nearest to {float(xp)!r}")
                return
    # (3) range
    max_on_grid = fmx is None or fst is None or ((fmx - off) / fst).denominator == 1
    slack = 0 if regime == "exact" else TOL * max(abs(xp - off), abs(off), abs(xp), fst or 0) + (Fraction(1, 2) if is_int_fmt else 0)
    if is_int_fmt:
        below = fmn is not None and r < fmn - slack - (Fraction(1, 2) if fmn.denominator != 1 else 0)
        above = fmx is not None and max_on_grid and r > fmx + slack + (Fraction(1, 2) if fmx.denominator != 1 else 0)
    else:
        # a float result is compared with the float nearest to the declared bound
        below = fmn is not None and res < float(fmn - slack)
        above = fmx is not None and max_on_grid and res > float(fmx + slack)
    if below:
        R.fail("C14.range", f"{desc}; below declared minimum")
    if above:
        R.fail("C14.range", f"{desc}; above declared maximum (which is on the grid)")


# ---------------------------------------------------------------- generators
INT_LIMITS = {"uint8": (0, 255), "uint16": (0, 65535), "uint32": (0, 2**32 - 1), "uint64": (0, 2**64 - 1), "int": (-2**31, 2**31 - 1)}


@st.composite
def cases(draw):
    fmt = draw(st.sampled_from(["bool", "uint8", "uint16", "uint32", "uint64", "int", "float", "float", "uint8", "int"]))
    via = draw(st.sampled_from(["build_update", "check_convert_value"]))
    if fmt == "bool":
        v = draw(st.one_of(st.booleans(), st.sampled_from([0, 1, 2, -1, 1.0, 0.0, "true", "false", "True", "FALSE", "on", "off", "yes", "no",
                                                           "y", "n", "t", "f", "1", "0", "2", "maybe", "", None, "1.0", b"1", float("nan")])))
        return {"fmt": fmt, "v": v, "via": via}
    case = {"fmt": fmt, "via": via, "construct": draw(st.sampled_from(["kwargs", "kwargs", "assign", "assign-spec", "json", "ble-signature", "ble-signature", "coap-database"])),
            "spec": draw(st.booleans()), "thread": draw(st.integers(0, 5)) == 0}
    if fmt == "float":
        mn = draw(st.sampled_from([None, None, 0, 0.0, 1, 10, 10.0, -100, 0.5, -2**31, 7.2, -50.5, 35]))
        stp = draw(st.sampled_from([None, None, 1, 1.0, 2, 5, 10, 0.1, 0.5, 0.01, 0.25, 0.2, 2.5]))
        span = draw(st.one_of(st.none(), st.integers(0, 400), st.sampled_from([0.5, 37.0, 99.9, 100, 1000, 65535, 2**32, 2**64 - 1])))
    else:
        lo, hi = INT_LIMITS[fmt]
        mn = draw(st.sampled_from([None, None, 0, 1, 10, -100, -2**31, 3, lo]))
        if mn is not None and mn < lo:
            mn = lo
        stp = draw(st.sampled_from([None, None, 1, 1, 2, 5, 10, 3, 100, 1.0]))
        span = draw(st.one_of(st.none(), st.integers(0, 400), st.sampled_from([100, 255, 1000, 65535, 2**32 - 1, 2**64 - 1])))
    mx = None
    if span is not None:
        base = mn if mn is not None else 0
        mx = base + span
        if fmt != "float":
            mx = min(int(mx), INT_LIMITS[fmt][1])
            if mn is not None and mx < mn:
                mx = mn
        elif isinstance(mx, float):
            mx = float(repr(mx))
    case.update({"min": mn, "max": mx, "step": stp})
    lo_v = (mn if mn is not None else 0)
    hi_v = (mx if mx is not None else lo_v + 1000)
    kind = draw(st.integers(0, 11))
    if kind <= 2:     # integers around the range
        v = draw(st.one_of(st.integers(int(lo_v) - 5, int(min(hi_v, lo_v + 10**6)) + 5), st.integers(-10, 300)))
    elif kind == 3:   # large magnitudes
        v = draw(st.one_of(st.integers(10**6, 2**64 - 1), st.sampled_from([1234567, 2**64 - 1, 2**63, 2**32, 10**15 + 1, 99999999, -1234567, 10**6 + 1])))
    elif kind <= 6:   # decimals with few digits
        digits = draw(st.integers(0, 4))
        n = draw(st.integers(int(lo_v * 10**digits) - 50, int(min(hi_v, lo_v + 5000) * 10**digits) + 50))
        v = n / 10**digits
    elif kind == 7:   # arbitrary floats
        v = draw(st.floats(min_value=-1e9, max_value=1e12, allow_nan=False, allow_infinity=False))
    elif kind <= 9:   # numeric strings
        base = draw(st.one_of(st.integers(-1000, 100000), st.integers(0, 2**64 - 1),
                              st.decimals(min_value=-1000, max_value=100000, places=draw(st.integers(1, 4)), allow_nan=False, allow_infinity=False)))
        s = str(base)
        deco = draw(st.integers(0, 5))
        if deco == 1:
            s = " " + s + " "
        elif deco == 2 and not s.startswith("-"):
            s = "+" + s
        elif deco == 3:
            s = s + "e0"
        elif deco == 4 and "." not in s and "E" not in s:
            s = s + "."
        elif deco == 5 and "E" not in s and "e" not in s:
            s = s + "E1"
        v = s
    else:             # garbage
        v = draw(st.one_of(st.sampled_from(GARBAGE), st.none(), st.just(b"12"), st.just(float("nan")), st.just(float("inf")),
                           st.just(float("-inf")), st.text(alphabet="abcxyz.-+e, ", min_size=1, max_size=6).filter(lambda s: not NUM_RE.match(s))))
    case["v"] = v
    return case


def enum_grid(tier):
    """Deterministic grid: the suite's thermostat shapes, ties, boundaries and the large-integer cells."""
    for fmt in INT_FORMATS:
        lo, hi = INT_LIMITS[fmt]
        for stp in (None, 1, 2, 5, 10):
            for mn in (None, 0, 1, 10):
                if mn is not None and mn < lo:
                    continue
                for v in (0, 1, 2, 3, 4, 5, 7, 9, 10, 11, 14, 15, 16, 99, 100, 101, 254, 255, 256, 65535, 65536, 999999, 1000000,
                          1234567, 2**31 - 1, 2**32 - 1, 2**32, 2**53 + 1, 2**63, 2**64 - 1, -1, -5, "7", "15", "1234567", 2.5, 3.5, "2.5", 7.0):
                    for mx in (None, hi):
                        yield {"fmt": fmt, "min": mn, "max": mx, "step": stp, "v": v, "via": "build_update"}
    for mn, mx, stp in [(7.2, 33.4, 0.1), (10, 38, 0.5), (0, 100, 1), (0, 1, 0.01), (-50.5, 50.5, 0.5), (0, 360, 2.5), (None, None, 0.1), (0.5, 10.5, 0.25)]:
        for i in range(-20, 1200):
            yield {"fmt": "float", "min": mn, "max": mx, "step": stp, "v": i / 20, "via": "build_update"}
            if i % 7 == 0:
                yield {"fmt": "float", "min": mn, "max": mx, "step": stp, "v": str(i / 20), "via": "check_convert_value"}
            if i % 5 == 0:
                yield {"fmt": "float", "min": mn, "max": mx, "step": stp, "v": i / 20, "via": "build_update", "thread": True}
    # signed ranges the way a Bluetooth accessory declares them
    for mn, mx, stp in [(-90, 90, 1), (-40, 0, 5), (-100, -10, None), (-2**31, 2**31 - 1, None), (-2**31, -1, 7), (-1, 1, 1), (0, 100, 5)]:
        for v in (-2**31, -101, -100, -91, -90, -89, -45, -41, -40, -38, -12, -10, -9, -1, 0, 1, 3, 89, 90, 91, 2**31 - 1, "-30", -30.0):
            yield {"fmt": "int", "min": mn, "max": mx, "step": stp, "v": v, "via": "build_update", "construct": "ble-signature"}
    for mn, mx, stp in [(10.0, 30.0, 0.5), (-50.5, 50.5, 0.5), (0.0, 1.0, 0.25), (0.0, 25.0, 0.5), (-20.0, 0.0, 0.5)]:
        for i in range(-30, 130, 3):
            yield {"fmt": "float", "min": mn, "max": mx, "step": stp, "v": i / 4, "via": "build_update", "construct": "ble-signature"}
            # the same declaration on a type that has defaults of its own (10..38 step 0.1): what the accessory declares wins, zero included
            yield {"fmt": "float", "min": mn, "max": mx, "step": stp, "v": i / 4, "via": "build_update", "construct": "ble-signature", "spec": True}
    # declarations as a Thread accessory makes them, partial ones included (a step without a range, a range without a step)
    for fmt, shapes in (("int", [(None, None, 5), (0, 100, None), (0, 100, 5), (-40, 40, 10), (None, None, None)]),
                        ("float", [(None, None, 0.5), (10.0, 30.0, None), (10.0, 30.0, 0.5), (None, None, 0.25), (0.0, 1.0, 0.25)])):
        for mn, mx, stp in shapes:
            for v in (-50, -41, -3, 0, 1, 2, 7, 8, 12.3, 21.3, 21.26, 29.9, 33, 99, 101, 1000, "7", 0.6):
                yield {"fmt": fmt, "min": mn, "max": mx, "step": stp, "v": v, "via": "build_update", "construct": "coap-database"}
    # integer formats whose limits arrive as JSON floats (IP accessories, restored entity maps): the result is an integer all the same
    for construct in ("kwargs", "assign", "json"):
        for fmt, mn, mx in (("uint8", 0.0, 100.0), ("int", -40.0, 40.0), ("uint16", 10.0, 1000.0), ("uint32", 0, 100.0), ("int", -40.0, 40)):
            for stp in (None, 1, 5, 1.0):
                for v in (-1000, -41, -40, -1, 0, 9, 10, 50, 100, 101, 250, 1000, 1001, 70000, "250", 250.0, True):
                    yield {"fmt": fmt, "min": mn, "max": mx, "step": stp, "v": v, "via": "build_update", "construct": construct}
    # declared limits and steps that no double represents exactly, through every way metadata reaches the model
    for construct in ("kwargs", "assign", "json"):
        for mn, mx, stp in [(0, 2**64 - 1, None), (0, 2**64 - 1, 1), (0, 2**53 + 1, None), (2**60 + 1, 2**64 - 1, 2), (2**53 + 1, 2**62 + 3, None), (0, 2**63 + 1, 2**53 + 1)]:
            for v in (0, 1, 2**53, 2**53 + 1, 2**53 + 2, 2**60 + 1, 2**60 + 2, 2**60 + 3, 2**62 + 3, 2**63 + 1, 2**64 - 2, 2**64 - 1, 2**64, 2**64 + 5, 2**70):
                yield {"fmt": "uint64", "min": mn, "max": mx, "step": stp, "v": v, "via": "build_update", "construct": construct}
    for g in GARBAGE + [None, b"12", float("nan"), float("inf"), float("-inf")]:
        for fmt in INT_FORMATS + ["float"]:
            for stp in (None, 1):
                yield {"fmt": fmt, "min": 0, "max": 100, "step": stp, "v": g, "via": "build_update"}
                yield {"fmt": fmt, "min": None, "max": None, "step": stp, "v": g, "via": "check_convert_value"}


def run_blob(case, R):
    """data / tlv8 characteristics: a text value that is not valid for the format fails with FormatError and nothing else; a valid one passes unchanged."""
    import base64

    from vlib import refhap
    fmt, v = case["fmt"], case["v"]
    acc = Accessory(1)
    svc = acc.add_service("0000FF00-0000-1000-8000-0026BB765291")
    ch = svc.add_char(CHAR_TYPE, format=fmt, perms=["pr", "pw"])
    try:
        raw = base64.b64decode(v.encode(), validate=True)
        valid = True
        if fmt == "tlv8":
            try:
                list(refhap.tlv_walk(raw))
            except Exception:  # noqa: BLE001
                valid = False
    except Exception:  # noqa: BLE001
        valid = False
    R.nt(not valid)
    R.cls("blob:" + fmt, "valid" if valid else "invalid")
    try:
        res = check_convert_value(v, ch) if case.get("via") == "check_convert_value" else svc.build_update({ch.type: v})[0][2]
    except FormatError:
        if valid:
            R.fail("C14.valid-input-raises", f"{fmt} value {v!r:.80} is valid, FormatError raised")
        return
    except Exception as e:  # noqa: BLE001
        R.fail("C14.garbage-foreign-exception", f"{fmt} value {v!r:.80}: {type(e).__name__}: {e}", exc=type(e).__name__, fmt=fmt)
        return
    if res != v:
        R.fail("C14.result-type", f"{fmt} value {v!r:.80} came back as {res!r:.80}")


def enum_blob(tier):
    import base64
    good = [b"", b"\x01\x01\x02", b"\x01\x00", bytes([6, 1, 3, 255, 0, 1, 2, 9, 9]), bytes([1, 255]) + bytes(255) + bytes([1, 3, 1, 2, 3])]
    bad_tlv = [b"\x01", b"\x01\x05\x00", bytes([6, 1, 3, 255]), bytes([1, 255]) + bytes(200), b"\x09\x02\x01"]
    texts = [base64.b64encode(x).decode() for x in good + bad_tlv] + ["%%%", "AQ", "AQI", "A", "====", "AQID\n", "not base64!", "ä"]
    for fmt in ("data", "tlv8"):
        for v in texts:
            for via in ("build_update", "check_convert_value"):
                yield {"fmt": fmt, "v": v, "via": via}


SPEC = Property(
    P, "exploration",
    rule=("format in {bool,uint8..uint64,int,float} x (min,max,step) none/partial/full (negative minima to -2^31, fractional steps, "
          "maxima to 2^64-1) x input as int, float, numeric string (plain, signed, padded, exponent) or garbage (text, None, bytes, "
          "NaN/inf); through Service.build_update and check_convert_value. Non-trivial: input clamped by the range, or off the step "
          "grid, or magnitude > 1e6, or garbage. Distinct by canonical JSON of (format, min, max, step, input). Metadata reaches the model by constructor "
          "keywords, later assignment, JSON, or a HAP-BLE signature read by the tree's own GATT database fetch; one case in six converts on a fresh thread."),
    layers=[
        Layer("blob-formats", run_blob, enumerate=enum_blob, exhaustive=True, space="data / tlv8 x 18 text values (valid, truncated TLV, broken base64) x 2 entry points", min_nontrivial=20),
        Layer("grid", run_case, enumerate=enum_grid, exhaustive=True,
              space="5 integer formats x 5 steps x 4 minima x 2 maxima x 39 inputs; 8 float range/step shapes x 1220 inputs; 29 garbage inputs x 6 formats", min_nontrivial=1000),
        Layer("generated", run_case, strategy=cases, n={"quick": 60000, "thorough": 3000000}, min_nontrivial=5000),
    ],
    assumptions=["decimal reading of floats is their repr (0.1 means 1/10)",
                 "tolerance regime: 2.5e-5 (four roundings at six significant digits) relative to the largest magnitude handled (|x'-min|, |min|, |x'|, step), as the six-digit "
                 "conversion applies to every intermediate value",
                 "metadata format set explicitly; integer formats get integer min/max/step"],
    min_nontrivial=5000,
)

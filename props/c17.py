"""C17 - HAP PDUs are fragmented, reassembled and attributed correctly (BLE, CoAP) (DESIGN 4/C17)."""
import itertools
import struct

from hypothesis import strategies as st

from aiohomekit.controller.ble import client as ble_client
from aiohomekit.controller.ble.key import DecryptionKey, EncryptionKey
from aiohomekit.controller.coap import pdu as coap_pdu
from aiohomekit.exceptions import EncryptionError
from aiohomekit.pdu import OpCode, PDUStatus, encode_pdu
from vlib import refhap, vtime
from vlib.runner import Layer, Property

P = "C17"
OPCODES = list(OpCode)
KEY_W = bytes(range(32))
KEY_R = bytes(range(32, 64))


def body_of(n, salt=0):
    return bytes((i * 7 + n + salt * 3) & 0xFF for i in range(n))


# ---------------------------------------------------------------- reference reassembly of a request (accessory side)
def ref_reassemble(frags):
    """HAP-BLE 7.3.3/7.3.4: first fragment = control(0) opcode tid iid16 [len16 body...]; continuation = control(0x80) tid body..."""
    h = frags[0]
    if len(h) < 5:
        return None, "first fragment shorter than the 5-byte header"
    ctl, op, tid, iid = struct.unpack("<BBBH", h[:5])
    if ctl & 0x80:
        return None, "continuation bit set on the first fragment"
    if len(h) == 5:
        body, ln = b"", 0
        if len(frags) != 1:
            return None, "fragments after a body-less request"
    else:
        if len(h) < 7:
            return None, "truncated length field"
        ln = struct.unpack("<H", h[5:7])[0]
        body = h[7:]
        for f in frags[1:]:
            if len(body) >= ln:
                return None, "fragment after the body was complete"
            if len(f) < 3:
                return None, "empty continuation fragment"
            if not f[0] & 0x80:
                return None, "continuation without bit 7"
            if f[0] & 0x0E:
                return None, "continuation control field has request/response type bits"
            if f[1] != tid:
                return None, "continuation with another tid"
            body += f[2:]
        if len(body) != ln:
            return None, f"reassembled {len(body)} bytes, header says {ln}"
    return (op, tid, iid, bytes(body)), None


def check_encode(R, op, tid, iid, body, size, ctx):
    try:
        frags = [bytes(f) for f in encode_pdu(op, tid, iid, body, size)]
    except Exception as e:  # noqa: BLE001
        R.fail("C17.ble-encode-raises", f"{ctx}: {type(e).__name__}: {e}", exc=type(e).__name__)
        return None
    if any(len(f) > size for f in frags):
        R.fail("C17.ble-fragment-too-large", f"{ctx}: fragment sizes {[len(f) for f in frags][:8]} exceed {size}")
        return None
    got, err = ref_reassemble(frags)
    if err:
        R.fail("C17.ble-reassembly", f"{ctx}: reference accessory rejects the fragments: {err}")
        return None
    if got != (op.value, tid, iid, bytes(body or b"")):
        R.fail("C17.ble-reassembly", f"{ctx}: reassembled {got!r:.200} expected {(op.value, tid, iid)} + {len(body or b'')} body bytes")
        return None
    return frags


def run_encode_grid(case, R):
    size = case["size"]
    n = 0
    for ln in range(0, 201):
        op = OPCODES[(size + ln) % len(OPCODES)]
        tid = (size * 31 + ln) & 0xFF
        iid = (size * 257 + ln * 13) & 0xFFFF
        frags = check_encode(R, op, tid, iid, body_of(ln, size), size, f"size={size} len={ln}")
        n += 1
        if frags is None:
            break
    R.nt(True)
    R.cls("ble-encode-grid")
    R.sub = n - 1


def enum_encode_grid(tier):
    for size in range(8, 65):
        yield {"size": size}


@st.composite
def encode_cases(draw):
    size = draw(st.one_of(st.sampled_from([20, 155, 244, 496, 512]), st.integers(8, 600)))
    ln = draw(st.one_of(st.sampled_from([0, 1, 5000, 4999, 512, 1000]), st.integers(0, 5000),
                        st.sampled_from([size - 8, size - 7, size - 6, 2 * size - 9, 2 * size - 8, 3 * size - 11]).map(lambda x: max(0, x))))
    return {"size": size, "len": ln, "op": draw(st.integers(0, len(OPCODES) - 1)), "tid": draw(st.integers(0, 255)),
            "iid": draw(st.one_of(st.integers(0, 65535), st.sampled_from([0, 1, 255, 256, 65535]))),
            "enc": draw(st.booleans()), "ctr": draw(st.sampled_from([0, 0, 1, 7, 255, 256, 2**32]))}


class _Handle:
    def __init__(self, props=("read", "write")):
        self.properties = list(props)
        self.uuid = "00000000-0000-0000-0000-000000000000"


class _Gatt:
    """Duck-typed AIOHomeKitBleakClient: only what _write_pdu/_read_pdu use."""
    address = "00:00:00:00:00:00"

    def __init__(self, att_payload, reads=()):
        self.att_payload = att_payload
        self.writes = []
        self.reads = list(reads)
        self.read_count = 0

    def determine_fragment_size(self, overhead, handle):
        return self.att_payload - overhead

    async def write_gatt_char(self, handle, data, response):
        self.writes.append(bytes(data))

    async def read_gatt_char(self, handle):
        self.read_count += 1
        if not self.reads:
            raise AssertionError("harness: read beyond the response")
        return bytearray(self.reads.pop(0))


def run_encode(case, R):
    size, ln = case["size"], case["len"]
    op, tid, iid = OPCODES[case["op"]], case["tid"], case["iid"]
    body = body_of(ln, tid)
    nfr = 1 if ln <= size - 7 else 1 + -(-(ln - (size - 7)) // (size - 2))
    R.nt(nfr >= 2)
    R.cls("ble-encode:" + ("encrypted" if case["enc"] else "plain"), f"fragments={min(nfr, 4)}{'+' if nfr > 4 else ''}")
    if not case["enc"]:
        check_encode(R, op, tid, iid, body, size, f"size={size} len={ln}")
        # the same through _write_pdu without a key
        gatt = _Gatt(size)
        vtime.run_shared(ble_client._write_pdu(gatt, None, op, _Handle(), iid, body, tid))
        got, err = ref_reassemble(gatt.writes)
        if err or got != (op.value, tid, iid, body) or any(len(w) > size for w in gatt.writes):
            R.fail("C17.ble-write-pdu", f"plain _write_pdu size={size} len={ln}: {err or got!r:.200}")
        return
    # encrypted: negotiated ATT payload = size + 16; every write <= that, decrypts under consecutive counters
    att = size + 16
    key = EncryptionKey(KEY_W)
    key.counter = case["ctr"]
    gatt = _Gatt(att)
    try:
        vtime.run_shared(ble_client._write_pdu(gatt, key, op, _Handle(), iid, body, tid))
    except Exception as e:  # noqa: BLE001
        R.fail("C17.ble-encode-raises", f"_write_pdu size={size} len={ln}: {type(e).__name__}: {e}", exc=type(e).__name__)
        return
    if any(len(w) > att for w in gatt.writes):
        R.fail("C17.ble-fragment-too-large", f"encrypted writes {[len(w) for w in gatt.writes][:6]} exceed ATT payload {att}")
        return
    plain = []
    for i, w in enumerate(gatt.writes):
        pt = refhap.aead_dec(KEY_W, refhap.nonce(ctr=case["ctr"] + i), w, b"")
        if pt is None:
            R.fail("C17.ble-fragment-counter", f"fragment {i} does not decrypt under counter {case['ctr'] + i}")
            return
        plain.append(pt)
    got, err = ref_reassemble(plain)
    if err or got != (op.value, tid, iid, body):
        R.fail("C17.ble-reassembly", f"encrypted size={size} len={ln}: {err or got!r:.200}")
    if key.counter != case["ctr"] + len(gatt.writes):
        R.fail("C17.ble-fragment-counter", f"key counter {key.counter} after {len(gatt.writes)} fragments from {case['ctr']}")


# ---------------------------------------------------------------- responses: _read_pdu
def build_response(tid, status, body, parts, short_header=False, fault=None):
    """parts: sizes of the pieces of `body` (first piece travels in the first fragment, may be 0)."""
    frags = []
    pieces = []
    i = 0
    for p in parts:
        pieces.append(body[i:i + p])
        i += p
    assert i == len(body)
    first = pieces[0] if pieces else b""
    if not body and short_header:
        frags.append(struct.pack("<BBB", 0x02, tid, status))
    else:
        frags.append(struct.pack("<BBBH", 0x02, tid, status, len(body)) + first)
    for pc in pieces[1:]:
        frags.append(struct.pack("<BB", 0x82, tid) + pc)
    if fault:
        kind, k = fault
        k = k % len(frags)
        if kind == "tid":
            f = bytearray(frags[k])
            f[1] = (f[1] + 1 + (k % 200)) & 0xFF
            frags[k] = bytes(f)
        elif kind == "nocont":
            if k == 0:
                k = 1 % len(frags)
            if k == 0:
                return frags, None
            f = bytearray(frags[k])
            f[0] &= 0x7F
            frags[k] = bytes(f)
        return frags, (kind, k)
    return frags, None


def run_read(case, R):
    tid, status = case["tid"], case["status"]
    body = body_of(case["len"], tid)
    parts = list(case["parts"])
    if sum(parts) != len(body):       # normalise (replay of a shrunk case)
        parts = [len(body)]
    frags, fault = build_response(tid, status, body, parts, case.get("short"), tuple(case["fault"]) if case.get("fault") else None)
    enc = case["enc"]
    ctr0 = case.get("ctr", 0)
    wire = [refhap.aead_enc(KEY_R, refhap.nonce(ctr=ctr0 + i), f, b"") for i, f in enumerate(frags)] if enc else list(frags)
    corrupt = case.get("corrupt")
    if enc and corrupt is not None:
        k = corrupt % len(wire)
        w = bytearray(wire[k])
        w[(corrupt // 7) % len(w)] ^= 1 << (corrupt % 8)
        wire[k] = bytes(w)
        fault = ("corrupt", k)
    R.nt(len(frags) >= 2)
    R.cls("ble-read:" + ("encrypted" if enc else "plain"), "fault:" + (fault[0] if fault else "none"), f"rfrags={min(len(frags), 4)}")
    gatt = _Gatt(512, wire)
    key = None
    if enc:
        key = DecryptionKey(KEY_R)
        key.counter = ctr0
    try:
        st_, data = vtime.run_shared(ble_client._read_pdu(gatt, key, _Handle(), tid))
        exc = None
    except (ValueError, EncryptionError) as e:
        exc = e
    except AssertionError as e:
        R.fail("C17.ble-read-overrun", f"_read_pdu read past the response: {e}")
        return
    except Exception as e:  # noqa: BLE001
        R.fail("C17.ble-read-raises", f"{type(e).__name__}: {e}", exc=type(e).__name__)
        return
    desc = f"tid={tid} status={status} len={len(body)} parts={parts[:8]} enc={enc} fault={fault}"
    if fault:
        if exc is None:
            R.fail("C17.ble-fault-accepted", f"{desc}: returned {st_!r}, {len(data)} bytes", fault=fault[0])
            return
        want_reads = fault[1] + 1
        if gatt.read_count != want_reads:
            R.fail("C17.ble-read-count", f"{desc}: {gatt.read_count} reads, fault in fragment {fault[1]}")
        if enc:
            want_ctr = ctr0 + fault[1] + (0 if fault[0] == "corrupt" else 1)
            if key.counter != want_ctr:
                R.fail("C17.ble-read-counter", f"{desc}: decryption counter {key.counter}, expected {want_ctr}")
        return
    if exc is not None:
        R.fail("C17.ble-read-raises", f"{desc}: {type(exc).__name__}: {exc}", exc=type(exc).__name__)
        return
    if int(getattr(st_, "value", st_)) != status or bytes(data) != body:
        R.fail("C17.ble-response", f"{desc}: got status {st_!r} and {len(data)} bytes {bytes(data)[:40]!r}")
        return
    if gatt.read_count != len(frags):
        R.fail("C17.ble-read-count", f"{desc}: {gatt.read_count} reads for {len(frags)} fragments")
    if enc and key.counter != ctr0 + len(frags):
        R.fail("C17.ble-read-counter", f"{desc}: decryption counter {key.counter} after {len(frags)} fragments from {ctr0}")


def compositions(n):
    """All ways to cut a body of n bytes into a first piece (>=0) and further pieces (>=1)."""
    if n == 0:
        yield [0]
        return
    for first in range(0, n + 1):
        rest = n - first
        if rest == 0:
            yield [first]
            continue
        for mask in range(1 << (rest - 1)):
            parts = [first]
            cur = 1
            for b in range(rest - 1):
                if mask >> b & 1:
                    parts.append(cur)
                    cur = 1
                else:
                    cur += 1
            parts.append(cur)
            yield parts


def enum_read(tier):
    top = 10 if tier == "quick" else 12
    i = 0
    for n in range(0, top + 1):
        for parts in compositions(n):
            i += 1
            yield {"tid": (i * 7) & 0xFF, "status": i % 7, "len": n, "parts": parts, "enc": bool(i & 1), "ctr": (i % 3) * 200,
                   "short": n == 0 and bool(i & 2)}
    for n in (0, 1):
        for status in range(7):
            for short in (False, True):
                for enc in (False, True):
                    yield {"tid": 9, "status": status, "len": n, "parts": [n], "enc": enc, "short": short and n == 0}


@st.composite
def read_cases(draw):
    ln = draw(st.one_of(st.integers(0, 60), st.integers(0, 1200)))
    cuts = sorted(draw(st.sets(st.integers(0, ln), max_size=8))) if ln else []
    parts = []
    prev = 0
    first_done = False
    for c in cuts + [ln]:
        if not first_done:
            parts.append(c - prev)
            first_done = True
        elif c - prev > 0:
            parts.append(c - prev)
        prev = c
    if not parts:
        parts = [0]
    case = {"tid": draw(st.integers(0, 255)), "status": draw(st.integers(0, 6)), "len": ln, "parts": parts,
            "enc": draw(st.booleans()), "ctr": draw(st.sampled_from([0, 1, 300, 2**32])), "short": draw(st.booleans())}
    f = draw(st.integers(0, 5))
    if f == 1:
        case["fault"] = ["tid", draw(st.integers(0, 8))]
    elif f == 2 and len(parts) > 1:
        case["fault"] = ["nocont", draw(st.integers(1, 8))]
    elif f == 3 and case["enc"]:
        case["corrupt"] = draw(st.integers(0, 10000))
    return case


# ---------------------------------------------------------------- CoAP batches
KINDS = ["ok0", "okn", "err", "errbody", "tid", "ctl", "ctl0"]


def coap_item(i, kind, n, salt):
    body = body_of(n, salt + i)
    ctl, tid, status = 0x02, i, 0
    exp = None
    if kind == "ok0":
        body = b""
    elif kind == "okn":
        body = body or b"\x2a"
    elif kind == "err":
        status = 1 + (salt + i) % 6
        body = b""
        exp = ("E", status)
    elif kind == "errbody":
        status = 1 + (salt + 2 * i) % 6
        body = body or b"\x01"
        exp = ("E", status)
    elif kind == "tid":
        tid = (i + 1 + (salt % 250)) % 256
        exp = ("E", 256)
    elif kind == "ctl":
        ctl = [0x00, 0x04, 0x0E, 0x0C][(salt + i) % 4]
        exp = ("E", 257)
    elif kind == "ctl0":
        ctl = 0x00
        body = b""
        exp = ("E", 257)
    raw = struct.pack("<BBBH", ctl, tid, status, len(body)) + body
    return raw, (exp if exp else ("B", body))


def run_coap(case, R):
    kinds = case["kinds"]
    lens = case.get("lens") or [3] * len(kinds)
    salt = case.get("salt", 0)
    raw = b""
    exp = []
    for i, k in enumerate(kinds):
        r, e = coap_item(i, k, lens[i % len(lens)], salt)
        raw += r
        exp.append(e)
    failed_then_more = any(e[0] == "E" for e in exp[:-1])
    R.nt(failed_then_more)
    R.cls(f"coap-batch k={len(kinds)}")
    try:
        got = coap_pdu.decode_all_pdus(0, raw)
    except Exception as e:  # noqa: BLE001
        R.fail("C17.coap-decode-raises", f"kinds={kinds}: {type(e).__name__}: {e}", exc=type(e).__name__)
        return
    g2 = [("E", int(x.value)) if isinstance(x, coap_pdu.PDUStatus) else ("B", bytes(x)) for x in got]
    if g2 != exp:
        R.fail("C17.coap-attribution", f"kinds={kinds} lens={lens[:6]}: decoded {g2!r:.300} expected {exp!r:.300}")


def enum_coap(tier):
    for k in range(1, 5):
        for kinds in itertools.product(KINDS, repeat=k):
            yield {"kinds": list(kinds), "lens": [0, 1, 9, 300][:k] if k > 1 else [5], "salt": k}


@st.composite
def coap_cases(draw):
    k = draw(st.integers(1, 6))
    return {"kinds": draw(st.lists(st.sampled_from(KINDS), min_size=k, max_size=k)),
            "lens": draw(st.lists(st.one_of(st.integers(0, 20), st.integers(0, 300)), min_size=1, max_size=6)),
            "salt": draw(st.integers(0, 255))}


def run_coap_encode(case, R):
    iids = case["iids"]
    datas = [body_of(n, i) for i, n in enumerate(case["lens"])][:len(iids)]
    iids = iids[:len(datas)]
    op = list(coap_pdu.OpCode)[case["op"] % len(list(coap_pdu.OpCode))]
    R.nt(len(iids) >= 2)
    R.cls("coap-encode")
    raw = coap_pdu.encode_all_pdus(op, iids, datas)
    off = 0
    items = []
    while off < len(raw):
        if len(raw) - off < 7:
            R.fail("C17.coap-encode", f"truncated request PDU at {off}")
            return
        ctl, o, tid, iid, ln = struct.unpack("<BBBHH", raw[off:off + 7])
        items.append((ctl, o, tid, iid, raw[off + 7:off + 7 + ln]))
        off += 7 + ln
    want = [(0, op.value, i, iid, d) for i, (iid, d) in enumerate(zip(iids, datas))]
    if items != want:
        R.fail("C17.coap-encode", f"request batch {items!r:.300} expected {want!r:.300}")


@st.composite
def coap_encode_cases(draw):
    k = draw(st.integers(1, 6))
    return {"iids": draw(st.lists(st.integers(0, 65535), min_size=k, max_size=k)),
            "lens": draw(st.lists(st.integers(0, 300), min_size=k, max_size=k)), "op": draw(st.integers(0, 8))}


from props.ble_layers import C08_BLE_LAYERS as _BLE_ABANDONED, C17_BLE_LAYERS  # noqa: E402
from props.coap_layers import C13_LAYERS as _COAP_TRANSPORT  # noqa: E402
from props.coap_layers import C17_COAP_INITIAL_LAYERS  # noqa: E402

SPEC = Property(
    P, "exploration",
    rule=("BLE requests: every fragment size 8..64 x body length 0..200 (one case per size), sizes {20,155,244,496,512} and random x "
          "lengths <=5000, every opcode/tid/iid, plain and encrypted through _write_pdu; BLE responses: every composition of bodies "
          "<=10 (quick) / <=12 (thorough) bytes into fragments and random fragmentations <=1200 bytes, status 0..6, wrong tid / missing "
          "continuation flag / corrupted ciphertext in a generated fragment; CoAP: every outcome vector over {ok0, okn, err, err+body, "
          "wrong tid, wrong control, control 0} for batches of 1..4 and random 1..6. Non-trivial: >=2 fragments, or a batch with a "
          "failed item followed by another item. CoAP first contact: services of 1..40 characteristics (some write-only, some failing) with distinct values; "
          "BLE: requests following a request cancelled at each point of its exchange."),
    layers=[
        Layer("ble-encode-grid", run_encode_grid, enumerate=enum_encode_grid, exhaustive=True,
              space="fragment sizes 8..64 x body lengths 0..200 = 11,457 cells", min_nontrivial=50),
        Layer("ble-encode-gen", run_encode, strategy=encode_cases, n={"quick": 12000, "thorough": 120000}, min_nontrivial=500),
        Layer("ble-read-compositions", run_read, enumerate=enum_read, exhaustive=True,
              space="all fragmentations (first piece >=0, later pieces >=1) of bodies of 0..10 (quick) / 0..12 (thorough) bytes", min_nontrivial=1000),
        Layer("ble-read-gen", run_read, strategy=read_cases, n={"quick": 16000, "thorough": 160000}, min_nontrivial=500),
        Layer("coap-batch-exhaustive", run_coap, enumerate=enum_coap, exhaustive=True,
              space="all outcome vectors over 7 item kinds for batches of 1..4 items (2800)", min_nontrivial=1000),
        Layer("coap-batch-gen", run_coap, strategy=coap_cases, n={"quick": 12000, "thorough": 120000}),
        Layer("coap-encode-gen", run_coap_encode, strategy=coap_encode_cases, n={"quick": 1000, "thorough": 20000}),
        *C17_BLE_LAYERS,
        *C17_COAP_INITIAL_LAYERS,
        # requests issued after an abandoned one (cancelled at every point of its fragment writes / reads) still reach the accessory whole
        *[Layer("ble-requests-after-abandonment", l.run_case, enumerate=l.enumerate, exhaustive=l.exhaustive, space=l.space) for l in _BLE_ABANDONED],
        *[Layer("coap-transport-" + l.name.replace("coap-", ""), l.run_case, strategy=l.strategy, enumerate=l.enumerate, n=l.n, exhaustive=l.exhaustive, space=l.space) for l in _COAP_TRANSPORT],
    ],
    assumptions=["reference reassembly written from HAP-BLE 7.3.3-7.3.5; how full each fragment is, is not constrained",
                 "fake GATT client at the bleak API boundary (determine_fragment_size, write_gatt_char, read_gatt_char)"],
    min_nontrivial=2000,
)

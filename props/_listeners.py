"""Several listeners on one pairing, one of which raises: what the others are told must not depend on it (shared by the C13 layers)."""


class ListenerBoom(Exception):
    pass


def attach(pairing, n=3):
    """Registers n recording listeners and, between them, one that raises.  Returns the n logs (lists of event dicts)."""
    logs = [[] for _ in range(n)]

    def make(log):
        def cb(ev):
            log.append(dict(ev))
        return cb

    def boom(ev):
        raise ListenerBoom("listener failure")
    for i, log in enumerate(logs):
        if i == 1:
            pairing.dispatcher_connect(boom)
        pairing.dispatcher_connect(make(log))
    return logs


def check_same(R, logs, what, clause="C13.listener-missed"):
    for i, log in enumerate(logs[1:], 1):
        if log != logs[0]:
            R.fail(clause, f"{what}: listener 0 was told {logs[0]!r:.200}, listener {i} {log!r:.200} (another listener raises)")
            return False
    return True

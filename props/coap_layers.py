"""CoAP transport layers (real CoAPPairing against vlib.coapsim) shared by C01, C06, C13, C17."""
import asyncio
import itertools
import struct

from hypothesis import strategies as st

import aiohomekit.controller.coap.connection as coap_conn_mod
from vlib import refhap, vtime
from vlib.coapsim import CHARS, CoapWorld
from props._listeners import attach as attach_listeners, check_same as listeners_agree
from vlib.refhap import T_ERROR, T_STATE, tlv_dec
from vlib.runner import Layer

READABLE = {i for i, c in CHARS.items() if c[3] & 0x10}
WRITABLE = {i for i, c in CHARS.items() if c[3] & 0x20}
OUTCOMES = ["ok", 1, 2, 3, 4, 5, 6, "tid", "ctl", "6+body"]       # "6+body": status 6 and a 3-byte body (every PDU has a body length; nothing forces 0 on errors)


def value_for(iid, sel):
    typ, fmt, code, props = CHARS[iid]
    if fmt == 0x01:
        return bool(sel & 1)
    if fmt == 0x19:
        return ["", "a", "héllo", "y" * 300][sel % 4]
    if fmt == 0x14:
        return [0.0, 21.5, -3.25][sel % 3]
    if fmt == 0x10:
        return [0, -5, 2**31 - 1][sel % 3]
    size = struct.calcsize(code)
    return [0, 1, (1 << (8 * size)) - 1, sel % (1 << (8 * size))][sel % 4]


def wire(iid, v):
    typ, fmt, code, props = CHARS[iid]
    if fmt == 0x01:
        return b"\x01" if v else b"\x00"
    return v.encode() if code is None else struct.pack(code, v)


# ---------------------------------------------------------------- C13 / C17: per-item outcomes of batched writes and reads
def run_c13_coap(case, R):
    ids = case["ids"]
    mode = case.get("mode", "write")
    # a read of a characteristic without read permission is answered with status 6 by the accessory; the caller still gets an entry for it
    outs = [6 if (mode == "read" and o == "ok" and iid in CHARS and iid not in READABLE) else o for iid, o in zip(case["ids"], case["outcomes"])]
    if outs != case["outcomes"]:
        R.cls("coap:read-of-write-only")
    bad = [o != "ok" for o in outs]
    R.nt(any(bad[:-1]) and len(ids) >= 2 or (any(bad) and not all(bad)))
    R.cls(mode + ":coap", f"n={len(ids)}")
    if len(set(ids)) < len(ids):
        R.cls("coap:repeated-id")
        R.nt(len(set(ids)) >= 2)

    async def main(loop):
        w = CoapWorld(loop, k=case.get("k", 0))
        try:
            p = w.pairing
            logs = attach_listeners(p)
            events = logs[0]
            await p.list_accessories_and_characteristics()
            for l_ in logs:
                l_.clear()
            unknown = [iid for iid in ids if iid not in CHARS]          # not in the accessory's database (stale entity, wrong id)
            values = {iid: (value_for(iid, case.get("sel", 0) + i) if iid in CHARS else 7) for i, iid in enumerate(ids)}
            if unknown:
                R.cls("coap:unknown-id")
            for iid, o in zip(ids, outs):
                if isinstance(o, int):
                    (w.acc.write_status if mode == "write" else w.acc.read_status)[iid] = o
            op_code = 0x02 if mode == "write" else 0x03

            def item_fault(i, op, iid):
                if op != op_code or i >= len(outs):
                    return None
                if outs[i] == "tid":
                    return {"tid": (i + 7) & 0xFF}
                if outs[i] == "ctl":
                    return {"ctl": 0x00}
                if outs[i] == "6+body":
                    return {"status": 6, "body": b"\x01\x01\x00"}
                return None
            w.acc.item_fault = item_fault
            what = f"CoAP {mode} {ids} outcomes {outs}"
            try:
                if mode == "write":
                    res = await p.put_characteristics([(1, iid, values[iid]) for iid in ids])
                else:
                    for iid in ids:
                        if values[iid] == "":
                            values[iid] = "z"        # a zero-length raw value is reported as None by the CoAP structs (representation choice)
                            R.exclude("coap: zero-length value on read")
                        w.acc.values[iid] = wire(iid, values[iid])
                    res = await p.get_characteristics([(1, iid) for iid in ids])
            except Exception as e:  # noqa: BLE001
                if unknown:
                    R.cls("coap:unknown-id-refused")       # refusing the whole batch is fine - provided nothing wrong was sent
                    res = None
                else:
                    R.fail("C13.write-raises" if mode == "write" else "C13.read-raises", f"{what}: {type(e).__name__}: {e}", exc=type(e).__name__)
                    return
            await vtime.settle(loop)
            if mode == "write":
                # every write PDU that reached the accessory carries the value requested for that very instance id
                for op_, tid_, iid_, body_ in w.acc.requests:
                    if op_ == 0x02 and iid_ != 4:
                        sent = dict(tlv_dec(body_)).get(1)
                        if iid_ not in values or iid_ not in CHARS or sent != wire(iid_, values[iid_]):
                            R.fail("C17.pdu-misattributed", f"{what}: the accessory received a write of {sent!r} for instance id {iid_}; requested "
                                   f"{ {i: values[i] for i in ids} }", transport="coap")
                            return
            if res is None:
                return
            for iid in unknown:
                got = res.get((1, iid))
                if not got or not got.get("status"):
                    R.fail("C13.rejected-reported-as-written" if mode == "write" else "C13.read-status", f"{what}: {iid} is not in the accessory database; result {got!r}", code="coap-unknown")
                    return
            ids_known = [(iid, o) for iid, o in zip(ids, outs) if iid in CHARS]
            if not listeners_agree(R, logs, what):
                return
            notified = {}
            for ev in events:
                for key, val in ev.items():
                    notified.setdefault(key[1], []).append(val)
            for i, (iid, o) in enumerate(ids_known):
                got = res.get((1, iid))
                if mode == "write":
                    if o == "ok":
                        if got is not None and got.get("status"):
                            R.fail("C13.accepted-reported-failed", f"{what}: item {i} ({iid}) accepted, result {got!r}")
                            return
                        if w.acc.values[iid] != wire(iid, values[iid]):
                            R.fail("C13.write-value", f"{what}: accessory holds {w.acc.values[iid]!r} for {iid}, written {values[iid]!r}")
                            return
                        if iid in READABLE:
                            if notified.get(iid) != [{"value": values[iid]}]:
                                R.fail("C13.accepted-not-notified", f"{what}: accepted readable {iid}: listeners saw {notified.get(iid)!r}", mixed=any(bad))
                                return
                        elif notified.get(iid):
                            R.fail("C13.write-only-notified", f"{what}: write-only {iid} notified {notified[iid]}")
                            return
                    else:
                        if not got or not got.get("status"):
                            R.fail("C13.rejected-reported-as-written", f"{what}: item {i} ({iid}) failed ({o}); result {got!r}", code="coap")
                            return
                        if (isinstance(o, int) or o == "6+body") and abs(got["status"]) != (6 if o == "6+body" else o):
                            R.fail("C13.rejected-reported-as-written", f"{what}: item {i} ({iid}) status {o}; result {got!r}", code="coap-status")
                            return
                        if notified.get(iid):
                            R.fail("C13.rejected-notified", f"{what}: listeners were told {notified[iid]} for failed {iid}")
                            return
                else:
                    if o == "ok":
                        v = (got or {}).get("value")
                        exp = values[iid]
                        if got is None or (v != exp and not (CHARS[iid][1] == 0x14 and abs(v - exp) < 1e-6)):
                            R.fail("C13.read-value", f"{what}: item {i} ({iid}) holds {exp!r}, result {got!r}")
                            return
                    else:
                        if not got or not got.get("status") or "value" in got:
                            R.fail("C13.read-status", f"{what}: item {i} ({iid}) failed ({o}); result {got!r}", code="coap")
                            return
            await p.shutdown()
        finally:
            w.restore()
    vtime.run(main)


def enum_c13_coap(tier):
    wr = [10, 12, 13, 11]
    rd = [10, 12, 15, 16]
    for mode in ("write", "read"):
        for ids in ([91], [91, 10], [10, 91], [10, 91, 12], [10, 12, 91], [91, 92], [12, 91, 10, 92]):
            yield {"ids": ids, "outcomes": ["ok"] * len(ids), "mode": mode, "sel": len(ids)}
    for ids in ([13], [13, 10], [10, 13], [12, 13, 15], [13, 12, 15, 16]):
        yield {"ids": ids, "outcomes": ["ok"] * len(ids), "mode": "read", "sel": len(ids)}
        yield {"ids": ids, "outcomes": [3] + ["ok"] * (len(ids) - 1), "mode": "read", "sel": len(ids)}
    # a read batch that names a characteristic more than once (two entities backed by one characteristic): every requested id still reports its own value
    for ids in ([10, 10], [10, 10, 12], [10, 12, 10], [12, 10, 10], [10, 10, 12, 15], [15, 10, 10, 16], [10, 12, 12, 15, 16], [16, 16, 16, 10]):
        for sel in (0, 1):
            yield {"ids": ids, "outcomes": ["ok"] * len(ids), "mode": "read", "sel": sel}
    for mode, pool in (("write", wr), ("read", rd)):
        for n in (1, 2, 3):
            for vec in itertools.product(OUTCOMES, repeat=n):
                if n == 3 and tier == "quick" and sum(OUTCOMES.index(v) * (i + 1) for i, v in enumerate(vec)) % 3:
                    continue
                yield {"ids": pool[:n], "outcomes": list(vec), "mode": mode, "sel": n}


@st.composite
def c13_coap_cases(draw):
    mode = draw(st.sampled_from(["write", "read"]))
    pool = sorted(WRITABLE) if mode == "write" else sorted(READABLE) + sorted(set(CHARS) - READABLE)
    n = draw(st.integers(1, min(6, len(pool))))
    ids = draw(st.lists(st.sampled_from(pool), min_size=n, max_size=n, unique=True))
    if mode == "read" and draw(st.integers(0, 7)) == 0:       # a repeated id, anywhere in the batch (all items answered)
        ids = [i for i in ids if i in READABLE] or [sorted(READABLE)[0]]
        ids.insert(draw(st.integers(0, len(ids))), draw(st.sampled_from(ids)))
        return {"ids": ids, "outcomes": ["ok"] * len(ids), "mode": mode, "sel": draw(st.integers(0, 1000)), "k": draw(st.integers(0, 9))}
    if draw(st.integers(0, 7)) == 0:           # an id that is not in the accessory's database, anywhere in the batch
        ids.insert(draw(st.integers(0, len(ids))), draw(st.sampled_from([91, 92, 1, 65535])))
        return {"ids": ids, "outcomes": ["ok"] * len(ids), "mode": mode, "sel": draw(st.integers(0, 1000)), "k": draw(st.integers(0, 9))}
    return {"ids": ids, "outcomes": [draw(st.sampled_from(["ok", "ok", "ok"] + OUTCOMES)) for _ in ids], "mode": mode, "sel": draw(st.integers(0, 1000)), "k": draw(st.integers(0, 9))}


def run_c13_coap_refused(case, R):
    """The accessory refuses the whole request without a body (4.04: it restarted and has no session any more): the call fails, or every
    requested characteristic is reported with an error - never an empty 'all fine' result, never a notification."""
    ids = case["ids"]
    mode = case["mode"]
    R.nt()
    R.cls(mode + ":coap-refused")

    async def main(loop):
        w = CoapWorld(loop, k=case.get("k", 0))
        try:
            p = w.pairing
            logs = attach_listeners(p)
            await p.list_accessories_and_characteristics()
            for l_ in logs:
                l_.clear()
            if case.get("warm"):
                await p.get_characteristics([(1, 10)])
            w.acc.sess = None
            what = f"CoAP {mode} {ids} answered 4.04 without a body"
            try:
                if mode == "write":
                    res = await p.put_characteristics([(1, iid, value_for(iid, i)) for i, iid in enumerate(ids)])
                else:
                    res = await p.get_characteristics([(1, iid) for iid in ids])
            except Exception:  # noqa: BLE001
                R.cls("coap-refused:call-fails")
                return
            await vtime.settle(loop)
            told = sorted(k_ for ev in logs[0] for k_ in ev)
            bad = [iid for iid in ids if not (res or {}).get((1, iid), {}).get("status")]
            if bad or told:
                R.fail("C13.rejected-reported-as-written" if mode == "write" else "C13.read-status",
                       f"{what}: result {res!r:.200}, listeners told about {told}", code="coap-refused")
        finally:
            w.restore()
    vtime.run(main)


C13_LAYERS = [
    Layer("coap-request-refused", run_c13_coap_refused, exhaustive=True, space="write / read x 3 id sets x session lost before / after an earlier request",
          enumerate=lambda tier: ({"mode": m, "ids": ids, "warm": wm} for m in ("write", "read") for ids in ([10], [10, 12], [12, 11, 10]) for wm in (False, True))),
    Layer("coap-batch-table", run_c13_coap, enumerate=enum_c13_coap, exhaustive=True,
          space="write and read batches of 1..3 items x 10 per-item outcomes (ok, PDU status 1..6, status with a non-empty body, wrong tid, wrong control bits); quick: every 3rd vector for n = 3", min_nontrivial=300),
    Layer("coap-batch-gen", run_c13_coap, strategy=c13_coap_cases, n={"quick": 4000, "thorough": 30000}),
]


# ---------------------------------------------------------------- C06: AEAD monitor on the CoAP session
class CoapAeadLog:
    def __init__(self):
        from props.c06 import AeadLog
        self.log = AeadLog()
        self.calls = []          # per _decrypt_response call: list of (nonce, ok)
        self.entry_path = {}     # index into log.dec of a successful decrypt -> how that call found its counter

    def install(self):
        log = self.log
        real = coap_conn_mod.ChaCha20Poly1305
        outer = self

        class Rec:
            def __init__(self, key):
                self._c = real(key)
                self._k = bytes(key)

            def encrypt(self, nonce, data, aad):
                ct = self._c.encrypt(nonce, data, aad)
                log.enc.append((self._k, bytes(nonce), bytes(ct)))
                return ct

            def decrypt(self, nonce, data, aad):
                try:
                    pt = self._c.decrypt(nonce, data, aad)
                except Exception:
                    log.dec.append((self._k, bytes(nonce), bytes(data), False))
                    if outer.calls and outer.calls[-1][0] == "open":
                        outer.calls[-1][1].append((bytes(nonce), False))
                    raise
                log.dec.append((self._k, bytes(nonce), bytes(data), True))
                if outer.calls and outer.calls[-1][0] == "open":
                    outer.calls[-1][1].append((bytes(nonce), True))
                    outer.entry_path[len(log.dec) - 1] = outer.path_of(outer.calls[-1][1])
                else:
                    outer.entry_path[len(log.dec) - 1] = "event"
                return pt
        self._orig_cls = real
        coap_conn_mod.ChaCha20Poly1305 = Rec
        orig = coap_conn_mod.EncryptionContext._decrypt_response
        self._orig_dr = orig

        async def wrapped(ctx, response):
            outer.calls.append(["open", []])
            try:
                return await orig(ctx, response)
            finally:
                outer.calls[-1][0] = "closed"
        coap_conn_mod.EncryptionContext._decrypt_response = wrapped

    def uninstall(self):
        coap_conn_mod.ChaCha20Poly1305 = self._orig_cls
        coap_conn_mod.EncryptionContext._decrypt_response = self._orig_dr

    @staticmethod
    def path_of(attempts):
        """attempts: (nonce, ok) of one _decrypt_response call, the last one successful."""
        if len(attempts) == 1:
            return "first-attempt"
        first = int.from_bytes(attempts[0][0][4:], "little")
        got = int.from_bytes(attempts[-1][0][4:], "little")
        if got < first and first - got <= 5 and len(attempts) <= 6:
            return "rewind"
        if got > first:
            return "forward"
        if got == 0:
            return "zero-reset"
        return "other"


def run_c06_coap(case, R):
    ops = case["ops"]
    names = [o[0] for o in ops]
    faulty = {"replay", "replay-deep", "skip", "corrupt", "no-response", "network-error", "event-replay", "event-skip", "cancel", "event-bad", "par2", "error-empty"}
    idx = [i for i, n in enumerate(names) if n in faulty]
    R.nt(bool(idx) and any(n in ("get", "put", "event", "event-replay") for n in names[idx[0] + 1:]))
    for n in set(names):
        R.cls("coap:" + n)

    async def main(loop):
        mon = CoapAeadLog()
        mon.install()
        w = CoapWorld(loop, k=case.get("k", 0))
        next_fault = [None]

        def fault(acc, pdus):
            f, next_fault[0] = next_fault[0], None
            return f
        w.acc.fault = fault
        p = w.pairing
        try:
            await p.list_accessories_and_characteristics()
            nresp = [0]
            overlapped = [False]
            for i, op in enumerate(ops):
                op = list(op) + [0, 0]
                name = op[0]
                sent_now = [c for k, c in w.acc.sent if w.acc.sess and k == w.acc.sess["tx"]]
                if name == "replay":
                    # inside the 5-message rewind window, or message 0: covered by the recorded finding
                    next_fault[0] = {"replay": -(1 + op[1] % 5)} if op[1] % 7 else {"replay": 0}
                    continue
                if name == "replay-deep":
                    if len(sent_now) < 8:
                        R.exclude("replay-deep needs >= 8 earlier responses")
                        continue
                    next_fault[0] = {"replay": 1 + op[1] % (len(sent_now) - 7)}
                    continue
                if name in ("skip", "corrupt", "no-response", "network-error", "error-empty"):
                    next_fault[0] = {"skip": {"skip": 1 + op[1] % 8}, "corrupt": {"corrupt": True}, "no-response": {"action": "no-response"},
                                     "network-error": {"action": "network-error"},
                                     "error-empty": {"action": "error-empty", "code": ["SERVICE_UNAVAILABLE", "BAD_REQUEST", "INTERNAL_SERVER_ERROR", "REQUEST_ENTITY_TOO_LARGE"][op[1] % 4]}}[name]
                    continue
                if name == "par2":
                    overlapped[0] = True
                    # two operations overlap in time; if both requests are ever in flight together, the reply to the first takes longer
                    if not p.is_connected:
                        continue
                    w.reply_latencies[:] = [0.05, 0.01, 0.01, 0.01]
                    a_ = asyncio.ensure_future(p.get_characteristics([(1, 10)]))
                    b_ = asyncio.ensure_future(p.put_characteristics([(1, 11, value_for(11, op[1]))]) if op[1] & 1 else p.get_characteristics([(1, 12)]))
                    await asyncio.gather(a_, b_, return_exceptions=True)
                    w.reply_latencies[:] = []
                if name in ("get", "put", "cancel"):
                    iid = [10, 11, 12, 16][op[1] % 4]
                    coro = p.put_characteristics([(1, iid, value_for(iid, op[2]))]) if (name == "put" or op[1] & 1) else p.get_characteristics([(1, iid), (1, 10)])
                    t = asyncio.ensure_future(coro)
                    if name == "cancel":
                        await asyncio.sleep(0.001 * (op[2] % 12))
                        t.cancel()
                    try:
                        await asyncio.wait_for(t, 60)
                    except (asyncio.CancelledError, asyncio.TimeoutError):
                        pass
                    except Exception:  # noqa: BLE001
                        pass
                elif name == "event-bad":
                    # an authentic event whose second entry cannot be decoded for its characteristic: whatever the handler does with it
                    # (it may raise), the datagram has been accepted once and must never be accepted again
                    if w.acc.sess is None or not p.is_connected:
                        continue
                    try:
                        await w.push_event(w.acc.event_ciphertext([(10, b"\x01"), (op[1], bytes(op[2]))]))
                        R.cls("coap:event-bad-handled")
                    except Exception:  # noqa: BLE001
                        R.cls("coap:event-bad-raised")
                elif name in ("event", "event-replay", "event-skip"):
                    if w.acc.sess is None or not p.is_connected:
                        continue
                    try:
                        if name == "event-replay":
                            evs = [c for k, c in w.acc.sent if k == w.acc.sess["ev"]]
                            if not evs:
                                continue
                            await w.push_event(evs[op[1] % len(evs)])
                        else:
                            await w.push_event(w.acc.event_ciphertext([(10, b"\x01")], skip=(1 + op[1] % 3 if name == "event-skip" else 0)))
                    except Exception as e:  # noqa: BLE001
                        R.fail("C06.event-handler-raises", f"{type(e).__name__}: {e}", transport="coap")
                        return
                elif name == "reconnect":
                    if p.is_connected:
                        await p.connection.reconnect_soon()
                await vtime.settle(loop)
                genuine = {}
                for k, ct in w.acc.sent:
                    genuine.setdefault(k, []).append(ct)

                class Shim:
                    wants_entry = True
                    entry = None

                    def fail(self, clause, msg, **ctx):
                        if clause == "C06.nonce-reused":
                            # the zero reset sets the send counter to 0 whether or not the response then decrypts at 0
                            zero_tried = any(len(a[1]) > 1 and int.from_bytes(a[1][-1][0][4:], "little") == 0 for a in mon.calls)
                            # (a zero attempt that fails ends the session - unless another operation is in flight on it, the overlap the finding
                            # describes; in a sequential history a nonce reused after a *failed* zero attempt is something else)
                            path = "zero-reset" if "zero-reset" in mon.entry_path.values() or (zero_tried and overlapped[0]) else "other"
                        else:
                            path = mon.entry_path.get(self.entry, "unknown")
                            # a later duplicate of an acceptance that was itself a recovery: attribute it to the first offending path
                            if clause == "C06.replay-accepted":
                                ct = mon.log.dec[self.entry][2]
                                paths = [mon.entry_path.get(j) for j, d in enumerate(mon.log.dec) if d[3] and d[2] == ct]
                                path = next((x for x in paths if x in ("rewind", "zero-reset")), path)
                        R.fail(clause, msg, path=path, **ctx)
                if not mon.log.check(Shim(), genuine, f"after op {i} {op[:3]} of {ops!r:.300}", "coap"):
                    # the recorded resynchronisation findings do not end the history: what follows them (nonce reuse after the
                    # zero reset, further acceptances) is judged too
                    if not R.failures or R.failures[-1][1].get("path") not in ("rewind", "zero-reset"):
                        return
            await p.shutdown()
        finally:
            w.restore()
            mon.uninstall()
    vtime.run(main)


COAP_ALPHA = [("get", 0), ("put", 1, 2), ("replay", 1), ("replay", 7), ("replay-deep", 0), ("skip", 1), ("skip", 6), ("corrupt",), ("no-response",), ("event",), ("event-replay", 0),
              ("event-skip", 0), ("cancel", 0, 5), ("reconnect",), ("event-bad", 11, 3), ("par2", 0), ("error-empty", 0)]


def enum_c06_coap(tier):
    depth = 3 if tier == "quick" else 4
    warm = [["get", 0]] * 8
    for d in range(1, depth + 1):
        for seq in itertools.product(COAP_ALPHA, repeat=d):
            if seq[-1][0] not in ("get", "put", "event", "cancel", "event-replay", "par2"):
                continue
            yield {"ops": [list(o) for o in seq]}
            if any(o[0] == "replay-deep" for o in seq):
                yield {"ops": warm + [list(o) for o in seq]}


@st.composite
def c06_coap_histories(draw):
    ops = [["get", 0]] * draw(st.sampled_from([0, 0, 8, 12]))
    for _ in range(draw(st.integers(3, 30))):
        name = draw(st.sampled_from(["get", "get", "put", "put", "replay", "replay-deep", "replay-deep", "skip", "corrupt", "no-response", "network-error", "event", "event",
                                     "event-replay", "event-skip", "cancel", "reconnect", "par2", "error-empty"]))
        if name == "event" and draw(st.integers(0, 3)) == 0:
            ops.append(["event-bad", draw(st.sampled_from([10, 11, 12, 14, 15, 99])), draw(st.sampled_from([0, 1, 3, 9]))])
            continue
        ops.append([name, draw(st.integers(0, 40)), draw(st.integers(0, 40))])
    return {"ops": ops, "k": draw(st.integers(0, 10))}


C06_LAYERS = [
    Layer("coap-dfs", run_c06_coap, enumerate=enum_c06_coap, exhaustive=True, space="all sequences over 16 events to depth 3 (quick) / 4 (thorough) ending in a request or event (deep replays also after 8 warm-up requests)", min_nontrivial=100),
    Layer("coap-generated", run_c06_coap, strategy=c06_coap_histories, n={"quick": 1500, "thorough": 25000}),
]


# ---------------------------------------------------------------- C01: pair-verify through CoAPPairing
def run_c01_coap(case, R):
    fault = case["fault"]
    R.nt(fault != "none")
    R.cls("transport:coap", "fault:" + fault)

    async def main(loop):
        w = CoapWorld(loop, k=case.get("k", 0))
        try:
            p = w.pairing

            def vf(stage, items, pv):
                if fault == "bad-sig" and stage == "m2":
                    return pv.full_m2(pv.inner_m2(sign_key=refhap.ed_from_seed(b"\x09" * 32)))
                if fault == "wrong-id" and stage == "m2":
                    return pv.full_m2(pv.inner_m2(ident_id=b"11:11:11:11:11:11"))
                if fault == "flip-enc" and stage == "m2":
                    return [(t, (v[:-1] + bytes([v[-1] ^ 1])) if t == 5 else v) for t, v in items]
                if fault == "error-m2" and stage == "m2":
                    return [(T_STATE, b"\x02"), (T_ERROR, b"\x02")]
                if fault == "error-m4" and stage == "m4":
                    return [(T_STATE, b"\x04"), (T_ERROR, b"\x02")]
                if fault == "error-m4-nostate" and stage == "m4":
                    return [(T_ERROR, b"\x02")]
                return items
            w.acc.verify_fault = vf
            what = f"CoAP verify fault={fault}"
            events = []
            p.dispatcher_connect(lambda ev: events.append(dict(ev)))
            try:
                await p.list_accessories_and_characteristics()
                r = await p.get_characteristics([(1, 10)])
                out = ("ok", r)
            except Exception as e:  # noqa: BLE001
                out = ("raise", e)
            if fault != "none":
                if out[0] == "ok" or p.is_connected:
                    R.fail("C01.forged-reply-accepted", f"{what}: connected={p.is_connected}, request {out!r:.200}", family="coap-" + fault)
                return
            if out[0] != "ok" or out[1] != {(1, 10): {"value": False}} or w.acc.decrypt_errors or w.acc.sessions_established != 1:
                R.fail("C01.honest-rejected", f"{what}: {out!r:.300}; accessory decrypt errors {w.acc.decrypt_errors}", exc=type(out[1]).__name__ if out[0] == "raise" else "wrong-result")
                return
            # the event key: a genuine event must decrypt at the controller
            resp = await w.push_event(w.acc.event_ciphertext([(11, b"\x2a")]))
            if str(resp.code) != "2.03 Valid" or events[-1:] != [{(1, 11): {"value": 42}}]:
                R.fail("C01.keys-differ", f"{what}: event under the reference's Event-Read key: response {resp.code}, listeners {events[-1:]}", resumed=False)
            await p.shutdown()
        finally:
            w.restore()
    vtime.run(main)


C01_COAP_LAYERS = [Layer("coap-transport", run_c01_coap, enumerate=lambda tier: ({"fault": f, "k": k} for f in ("none", "bad-sig", "wrong-id", "flip-enc", "error-m2", "error-m4", "error-m4-nostate")
                                                                                   for k in range(3 if tier == "quick" else 30)),
                         exhaustive=True, space="honest + 6 verify faults x 3 (quick) / 30 (thorough) key sets", min_nontrivial=10)]


# ---------------------------------------------------------------- C12: CoAP event notifications -> listeners (every record once, in order)
def run_c12_coap(case, R):
    """notifications = list of notifications, each a list of (iid, value selector) records; listeners: kinds normal / raising."""
    notes = case["notes"]
    R.nt(any(len(n) >= 2 for n in notes) or "raising" in case["listeners"] or any(n and n[0][0] == "bad" for n in notes))
    R.cls("coap-events", "repeated-iid" if any(len({i for i, _ in n}) < len(n) for n in notes) else "distinct-iids")
    if any(n and n[0][0] == "bad" for n in notes):
        R.cls("coap-events:undecryptable")

    async def main(loop):
        w = CoapWorld(loop, k=case.get("k", 0))
        try:
            p = w.pairing
            logs = []
            for kind in case["listeners"]:
                log = []
                logs.append((kind, log))

                def cb(ev, log=log, kind=kind):
                    log.append({k_: dict(v) for k_, v in ev.items()})
                    if kind == "raising":
                        raise RuntimeError("listener failure")
                p.dispatcher_connect(cb)
            await p.list_accessories_and_characteristics()
            await p.subscribe([(1, i) for i in (10, 11)])
            for _, log in logs:
                log.clear()
            expect = []
            for n, note in enumerate(notes):
                if note and note[0][0] == "bad":
                    # a datagram that does not authenticate (late one of an earlier session, duplicate, garbage): refused, nothing delivered,
                    # and the genuine notifications after it still arrive
                    kind = note[0][1] % 3
                    if kind == 0:
                        ct = bytes((i * 37 + n) & 0xFF for i in range(24))
                    elif kind == 1:
                        ct = refhap.aead_enc(bytes(range(32)), refhap.nonce(ctr=0), b"\x00\x0b\x00\x03\x00\x01\x01\x01", b"")
                    else:
                        prev = [c for k_, c in w.acc.sent if k_ == w.acc.sess["ev"]]
                        ct = prev[-1] if prev else b"\x00" * 20
                    try:
                        resp = await w.push_event(ct)
                    except Exception as e:  # noqa: BLE001
                        R.fail("C12.event-breaks-connection", f"CoAP undecryptable datagram {n}: handler raised {type(e).__name__}: {e}", exc=type(e).__name__)
                        return
                    if str(resp.code) == "2.03 Valid":
                        R.fail("C12.listener-log", f"CoAP: a datagram that does not authenticate was answered {resp.code}", kind="extra", raising_peer=False)
                        return
                    continue
                items = []
                for iid, sel in note:
                    v = value_for(iid, sel)
                    items.append((iid, wire(iid, v)))
                    expect.append(((1, iid), v))
                try:
                    resp = await w.push_event(w.acc.event_ciphertext(items))
                except Exception as e:  # noqa: BLE001
                    R.fail("C12.event-breaks-connection", f"CoAP notification {n} {note}: handler raised {type(e).__name__}: {e}", exc=type(e).__name__)
                    return
                if str(resp.code) != "2.03 Valid":
                    R.fail("C12.event-breaks-connection", f"CoAP notification {n} {note}: answered {resp.code}", exc="none")
                    return
            for kind, log in logs:
                got = [(k_, v.get("value")) for ev in log for k_, v in ev.items()]
                if got != expect:
                    R.fail("C12.listener-log", f"CoAP notifications {notes}: listener ({kind}) saw {got!r:.300} expected {expect!r:.300}",
                           kind="missing" if len(got) < len(expect) else ("extra" if len(got) > len(expect) else "different"), raising_peer="raising" in case["listeners"])
                    return
            await p.shutdown()
        finally:
            w.restore()
    vtime.run(main)


@st.composite
def c12_coap_cases(draw):
    rec = st.tuples(st.sampled_from([10, 11, 11, 12, 14]), st.integers(0, 40)).map(list)
    bad = st.tuples(st.just("bad"), st.integers(0, 2)).map(lambda t: [list(t)])
    return {"notes": draw(st.lists(st.one_of(st.lists(rec, min_size=1, max_size=4), st.lists(rec, min_size=1, max_size=4), bad), min_size=1, max_size=5)), "k": draw(st.integers(0, 5)),
            "listeners": draw(st.lists(st.sampled_from(["normal", "normal", "raising"]), min_size=1, max_size=3))}


def enum_c12_coap(tier):
    yield {"notes": [[[10, 1], [10, 0], [10, 1]]], "listeners": ["normal"]}
    yield {"notes": [[[11, 3], [11, 7]], [[11, 3]]], "listeners": ["normal", "raising", "normal"]}
    yield {"notes": [[[10, 1], [11, 2], [12, 3], [14, 5]]], "listeners": ["raising", "normal"]}
    yield {"notes": [[[11, 1]], [[11, 2]], [[11, 2]]], "listeners": ["normal"]}
    for kind in (0, 1, 2):
        yield {"notes": [[[11, 1]], [["bad", kind]], [[11, 2]], [["bad", kind]], [["bad", (kind + 1) % 3]], [[10, 1], [11, 3]]], "listeners": ["normal", "normal"]}
        yield {"notes": [[["bad", kind]], [[11, 5]]], "listeners": ["normal"]}


C12_COAP_LAYERS = [Layer("coap-events-fixed", run_c12_coap, enumerate=enum_c12_coap, exhaustive=True, space="4 fixed notification shapes (repeated instance id in one notification, raising listeners)"),
                   Layer("coap-events", run_c12_coap, strategy=c12_coap_cases, n={"quick": 400, "thorough": 8000}, min_nontrivial=100)]


# ---------------------------------------------------------------- C15: pairing TLVs longer than 255 bytes through the CoAP transport
def run_c15_coap(case, R):
    """list_pairings over CoAP with n controllers: from four controllers on the pairing TLV exceeds 255 bytes and travels as several Value fragments."""
    n = case["n"]
    R.nt(n >= 4)
    R.cls("coap-list-pairings", f"controllers={n}")

    async def main(loop):
        w = CoapWorld(loop, k=case.get("k", 0))
        try:
            p = w.pairing
            for i in range(n - 1):
                w.ident.controllers[("ctl-%02d-" % i + "x" * (case.get("idlen", 20))).encode()] = bytes([i + 1]) * 32
            await p.list_accessories_and_characteristics()
            try:
                got = await p.list_pairings()
            except Exception as e:  # noqa: BLE001
                R.fail("C15.roundtrip", f"CoAP list_pairings with {n} controllers: {type(e).__name__}: {e}")
                return
            want = sorted((cid.decode(), pk.hex()) for cid, pk in w.ident.controllers.items())
            have = sorted((x["pairingId"], x["publicKey"]) for x in got)
            if have != want:
                R.fail("C15.roundtrip", f"CoAP list_pairings with {n} controllers returned {have!r:.300}, the accessory holds {want!r:.300}")
            await p.shutdown()
        finally:
            w.restore()
    vtime.run(main)


def run_c15_ip(case, R):
    """list_pairings over IP: the TLV reply (ids and keys rich in CR / LF bytes) reaches the controller in two reads / frames cut at every offset,
    with Content-Length or chunked framing; the decoded list is what the accessory holds."""
    R.nt()
    R.cls("ip-list-pairings", "chunked" if case.get("chunked") else "content-length")

    async def main(loop):
        from vlib.ipworld import IpWorld
        w = IpWorld(loop, k=case.get("k", 0))
        try:
            for j in range(case["n"]):
                w.ident.controllers[(b"\r\nctl-%d\n\r" % j)] = bytes([13, 10, 13, 13, 10, 10, j, 0x0d]) * 4
            p = w.pairing
            await p.list_accessories_and_characteristics()
            w.acc.reply_chunked = bool(case.get("chunked"))
            w.acc.reply_cut = case["cut"]
            try:
                got = await asyncio.wait_for(p.list_pairings(), 40)
            except Exception as e:  # noqa: BLE001
                R.fail("C15.roundtrip", f"IP list_pairings, reply cut at {case['cut']} ({'chunked' if case.get('chunked') else 'content-length'}): {type(e).__name__}: {e}")
                return
            w.acc.reply_cut = None
            want = sorted((cid.decode("latin-1"), pk.hex()) for cid, pk in w.ident.controllers.items())
            have = sorted((g["pairingId"].encode("utf-8", "surrogateescape").decode("latin-1") if isinstance(g["pairingId"], str) else g["pairingId"], g["publicKey"]) for g in got)
            if [h[1] for h in have] != [x[1] for x in want] and sorted(h[1] for h in have) != sorted(x[1] for x in want):
                R.fail("C15.roundtrip", f"IP list_pairings, reply cut at {case['cut']}: keys {sorted(h[1] for h in have)} expected {sorted(x[1] for x in want)}")
            await p.shutdown()
        finally:
            w.restore()
    vtime.run(main)


def enum_c15_ip(tier):
    for chunked in (0, 1):
        for n in (1, 3):
            for cut in list(range(1, 330 if n == 3 else 170, 1 if tier == "thorough" else 2)) + [-k for k in range(1, 12)]:
                yield {"n": n, "cut": cut, "chunked": chunked}


C15_IP_LAYERS = [Layer("ip-list-pairings-cuts", run_c15_ip, enumerate=enum_c15_ip, exhaustive=True,
                       space="list_pairings replies (2 / 4 controllers, ids and keys full of CR / LF) x Content-Length / chunked x cut at every (quick: every second) offset", min_nontrivial=100)]

C15_COAP_LAYERS = [Layer("coap-list-pairings", run_c15_coap, enumerate=lambda tier: ({"n": n, "idlen": l} for n in range(1, 9) for l in (4, 20, 36)), exhaustive=True,
                         space="list_pairings over CoAP with 1..8 controllers x 3 identifier lengths (pairing TLVs of 45 to 700 bytes inside the HAP-Param Value)", min_nontrivial=5)]


# ---------------------------------------------------------------- C17: the database read at first contact (values attributed to the right characteristic)
def run_c17_coap_initial(case, R):
    """The accessory's service has n characteristics (readable or not, in generated order) holding distinct values, some answering the
    read with an error status: the model returned by list_accessories_and_characteristics holds, for every readable one, the value
    the accessory holds for that very instance id."""
    n = case["n"]
    R.nt(n > 8 or any(case.get("bad", [])))
    R.cls("coap:initial-read", f"readable>{8 if n > 8 else 0}")

    async def main(loop):
        w = CoapWorld(loop, k=case.get("k", 0))
        try:
            chars = {}
            for j in range(n):
                iid = 20 + j
                readable = not (case.get("writeonly", [])[j:j + 1] or [False])[0]
                chars[iid] = (0xFE00 + j, 0x06, "<H", (0x10 if readable else 0) | 0x20)
            w.acc.chars = dict(chars)
            for j, iid in enumerate(chars):
                w.acc.values[iid] = struct.pack("<H", 1000 + j * 7 + case.get("sel", 0) % 5)
                if (case.get("bad", [])[j:j + 1] or [0])[0]:
                    w.acc.read_status[iid] = case["bad"][j]
            p = w.pairing
            what = f"CoAP first contact, {n} characteristics in one service"
            try:
                res = await p.list_accessories_and_characteristics()
            except Exception as e:  # noqa: BLE001
                R.fail("C13.read-raises", f"{what}: {type(e).__name__}: {e}", exc=type(e).__name__)
                return
            got = {c["iid"]: c.get("value") for a in res for s_ in a["services"] for c in s_["characteristics"]}
            for j, iid in enumerate(chars):
                if not chars[iid][3] & 0x10 or w.acc.read_status.get(iid):
                    if got.get(iid) not in (None, 0):
                        R.fail("C17.pdu-misattributed", f"{what}: instance id {iid} was not read successfully, yet the model holds {got.get(iid)!r}", transport="coap-initial")
                        return
                    continue
                exp = struct.unpack("<H", w.acc.values[iid])[0]
                if got.get(iid) != exp:
                    R.fail("C17.pdu-misattributed", f"{what}: instance id {iid} (position {j}) holds {exp}, the model says {got.get(iid)!r}", transport="coap-initial")
                    return
            await p.shutdown()
        finally:
            w.restore()
    vtime.run(main)


def enum_c17_coap_initial(tier):
    for n in range(1, 25):
        yield {"n": n}
        yield {"n": n, "writeonly": [j % 3 == 1 for j in range(n)], "sel": n}
        yield {"n": n, "bad": [(6 if j % 4 == 2 else 0) for j in range(n)], "sel": n}


@st.composite
def c17_coap_initial_cases(draw):
    n = draw(st.integers(1, 40))
    wo = draw(st.lists(st.sampled_from([False, False, False, True]), min_size=n, max_size=n))
    if all(wo):
        # at least one readable characteristic per service: what an accessory answers to the empty batch the tree would send otherwise is not
        # specified, so nothing can be demanded there
        wo[draw(st.integers(0, n - 1))] = False
    return {"n": n, "writeonly": wo,
            "bad": draw(st.lists(st.sampled_from([0, 0, 0, 0, 2, 6]), min_size=n, max_size=n)), "sel": draw(st.integers(0, 100)), "k": draw(st.integers(0, 5))}


C17_COAP_INITIAL_LAYERS = [
    Layer("coap-initial-read", run_c17_coap_initial, enumerate=enum_c17_coap_initial, exhaustive=True,
          space="services of 1..24 characteristics x {all readable, every third write-only, every fourth answering with status 6}", min_nontrivial=40),
    Layer("coap-initial-read-gen", run_c17_coap_initial, strategy=c17_coap_initial_cases, n={"quick": 600, "thorough": 6000}),
]


# ---------------------------------------------------------------- C08 on CoAP: an unanswered request ends with the library's error, the next one gets its own answer
def run_c08_coap(case, R):
    ops = case["ops"]
    R.nt(any(o[0] in ("no-response", "network-error", "error-empty") for o in ops))
    R.cls("c08-coap")

    async def main(loop):
        from aiohomekit.exceptions import HomeKitException
        w = CoapWorld(loop, k=case.get("k", 0))
        next_fault = [None]

        def fault(acc, pdus):
            f, next_fault[0] = next_fault[0], None
            return f
        w.acc.fault = fault
        p = w.pairing
        try:
            await p.list_accessories_and_characteristics()
            val = 0
            failed_before = False
            for i, op in enumerate(ops):
                name = op[0]
                what = f"CoAP op {i} {op} of {ops}"
                if name in ("no-response", "network-error", "error-empty"):
                    next_fault[0] = {"action": name}
                    continue
                val += 1
                armed = next_fault[0] is not None
                t0 = loop.time()
                try:
                    if name == "put":
                        r = await asyncio.wait_for(p.put_characteristics([(1, 11, val % 200)]), 120)
                    else:
                        r = await asyncio.wait_for(p.get_characteristics([(1, 11), (1, 10)]), 120)
                except HomeKitException:
                    if not armed and not failed_before:
                        R.fail("C08.wrong-error", f"{what}: the accessory is healthy, the request failed", exc="HomeKitException")
                        return
                    failed_before = armed          # the request after a failed one may still find the session gone; the one after that must not
                    next_fault[0] = None
                    continue
                except asyncio.TimeoutError:
                    if loop.time() - t0 >= 119:
                        R.fail("C08.request-hangs", f"{what}: no outcome within 120 s", how="coap")
                    else:
                        R.fail("C08.wrong-error", f"{what}: ended with a bare TimeoutError after {loop.time() - t0:.1f} s", exc="TimeoutError")
                    return
                except Exception as e:  # noqa: BLE001
                    R.fail("C08.wrong-error", f"{what}: {type(e).__name__}: {e}", exc=type(e).__name__)
                    return
                failed_before = False
                if armed and next_fault[0] is None:
                    R.fail("C08.wrong-response", f"{what}: the accessory did not answer this request, yet it completed with {r!r:.120}", got="other-request")
                    return
                if name == "put":
                    if r or w.acc.values[11] != bytes([val % 200]):
                        R.fail("C08.wrong-response", f"{what}: write reported {r!r}; the accessory holds {w.acc.values[11]!r}", got="other-request")
                        return
                else:
                    exp = {(1, 11): {"value": w.acc.values[11][0]}, (1, 10): {"value": bool(w.acc.values[10][0])}}
                    if r != exp:
                        R.fail("C08.wrong-response", f"{what}: read returned {r!r}, expected {exp!r}", got="other-request")
                        return
            await p.shutdown()
        finally:
            w.restore()
    vtime.run(main)


def enum_c08_coap(tier):
    for f in ("no-response", "network-error", "error-empty"):
        yield {"ops": [["get"], [f], ["get"], ["put"], ["get"], ["put"]]}
        yield {"ops": [["put"], ["get"], [f], ["put"], ["get"], [f], ["get"], ["put"], ["get"]]}
        yield {"ops": [[f], ["put"], ["put"], ["get"]], "k": 3}


C08_COAP_LAYERS = [Layer("coap-unanswered-requests", run_c08_coap, enumerate=enum_c08_coap, exhaustive=True,
                         space="3 ways a request goes unanswered (silence, network error, bare error code) x 3 histories of reads and writes", min_nontrivial=9)]


# ---------------------------------------------------------------- C11 on CoAP: every attempt's context (a bound UDP socket) is shut down unless it is the one in use
def run_c11_coap(case, R):
    script = case["script"]          # per connection attempt: "ok" | "silent-m1" | "silent-m3" | "error-m2" | "error-m4"
    R.nt(any(x != "ok" for x in script))
    R.cls("c11-coap")

    async def main(loop):
        w = CoapWorld(loop, k=case.get("k", 0))
        attempt = [0]

        def vf(stage, reply, pv):
            if stage == "m2":
                attempt[0] += 1
            o = script[attempt[0] - 1] if attempt[0] - 1 < len(script) else "ok"
            if (o, stage) in (("silent-m1", "m2"), ("silent-m3", "m4")):
                return None
            if (o, stage) in (("error-m2", "m2"), ("error-m4", "m4")):
                return [(T_STATE, b"\x02" if stage == "m2" else b"\x04"), (T_ERROR, b"\x02")]
            return reply
        w.acc.verify_fault = vf
        p = w.pairing
        try:
            for i in range(len(script) + 1):
                try:
                    await asyncio.wait_for(p.get_characteristics([(1, 10)]), 300)
                except Exception:  # noqa: BLE001
                    pass
                await asyncio.sleep(case.get("gap", 1))
                await vtime.settle(loop)
                open_ = [c for c in w.contexts if not c.shut]
                if len(open_) > 1:
                    R.fail("C11.two-connections", f"CoAP attempts {script}: after request {i} {len(open_)} of {len(w.contexts)} contexts (UDP sockets) are open", after="coap")
                    return
                if len(open_) == 1 and not p.is_connected:
                    R.fail("C11.leak-after-failed-setup", f"CoAP attempts {script}: after request {i} the pairing is not connected and holds an open context")
                    return
            # (what close() / shutdown() do with the context in use is not judged here: the CoAP pairing only unsubscribes, and the statement's
            # anchors are the IP connection - DESIGN section 8)
            await p.shutdown()
        finally:
            w.restore()
    vtime.run(main)


def enum_c11_coap(tier):
    outs = ["ok", "silent-m1", "silent-m3", "error-m2", "error-m4"]
    for a in outs:
        yield {"script": [a]}
        for b in outs:
            yield {"script": [a, b]}
            yield {"script": [a, b, a], "gap": 30}


C11_COAP_LAYERS = [Layer("coap-contexts", run_c11_coap, enumerate=enum_c11_coap, exhaustive=True,
                         space="every pair of per-attempt outcomes over {ok, no answer to M1, no answer to M3, error M2, error M4} (+ a third attempt)", min_nontrivial=40)]

"""C05 - encrypted IP session framing is exact outbound and segmentation-proof inbound (DESIGN 4/C05)."""
import asyncio
import itertools
import struct

from hypothesis import strategies as st

from aiohomekit.controller.ip.connection import SecureHomeKitProtocol
from aiohomekit.exceptions import AccessoryDisconnectedError
from props.c07 import _Conn, message, norm, serialise
from vlib import refhap, vtime
from vlib.ipworld import IpWorld
from vlib.runner import Layer, Property
from vlib.simnet import FakeSocket, FakeTransport

P = "C05"
A2C = bytes(range(100, 132))
C2A = bytes(range(200, 232))
BOUNDARY_SIZES = [1, 2, 15, 16, 17, 1023, 1024, 0]


class _Fut:
    def __init__(self, log):
        self.log = log
        self._done = False
        self.exc = None

    def done(self):
        return self._done

    def set_result(self, r):
        self._done = True
        self.log.append(("HTTP", r))

    def set_exception(self, e):
        self._done = True
        self.exc = e
        self.log.append(("EXC", e))


def frames_with_bounds(key, data, sizes, ctr=0):
    """Reference framing; returns (stream, [(start, end, plaintext_start, plaintext_end)])."""
    out = bytearray()
    bounds = []
    i = k = 0
    sizes = list(sizes) or [1024]
    while i < len(data):
        n = max(0, min(1024, sizes[k % len(sizes)]))      # 0: a block with an empty plaintext (legal framing; it consumes a nonce like any other)
        if n == 0 and all(x == 0 for x in sizes):
            n = 1024
        k += 1
        c = data[i:i + n]
        aad = struct.pack("<H", len(c))
        start = len(out)
        out += aad + refhap.aead_enc(key, refhap.nonce(ctr=ctr), c, aad)
        bounds.append((start, len(out), i, i + len(c)))
        ctr += 1
        i += n
    return bytes(out), bounds


# ---------------------------------------------------------------- inbound, honest streams
def run_inbound(case, R):
    msgs = case["msgs"]
    parts = [serialise(m) for m in msgs]
    plain = b"".join(p[0] for p in parts)
    expected = [p[1] for p in parts]
    stream, bounds = frames_with_bounds(A2C, plain, case["sizes"])
    n_http = sum(1 for m in msgs if m["kind"] == "HTTP")
    cuts = case["cuts"]
    if cuts == "all1":
        cutsets = [[c] for c in range(1, len(stream))]
    elif cuts == "all2":
        cutsets = [list(c) for c in itertools.combinations(range(1, len(stream)), 2)]
    elif cuts == "drip":
        cutsets = [list(range(1, len(stream)))]
    else:
        cutsets = [sorted({int(c) % max(1, len(stream)) for c in cuts} - {0})]
    cutsets.append([])
    special = set()
    for s, e, _, _ in bounds:
        special |= {s + 1, e - 16, e - 15, e - 1, e}
    R.nt(len(plain) > 1024 or isinstance(cuts, str) or any(c in special for cs in cutsets for c in cs))
    R.cls("cuts:" + (cuts if isinstance(cuts, str) else "random"), f"frames={min(len(bounds), 6)}", "plain>1024" if len(plain) > 1024 else "plain<=1024")
    R.sub = len(cutsets) - 1

    async def go():
        for cs in cutsets:
            # an earlier session of the same process that died in the middle of a block: nothing of it may reach this one
            old = SecureHomeKitProtocol(_Conn([]), A2C, C2A)
            try:
                old.data_received(stream[:max(1, min(len(stream) - 1, 2 + len(cs) % 23))])
            except Exception:  # noqa: BLE001
                pass
            log = []
            p = SecureHomeKitProtocol(_Conn(log), A2C, C2A)
            p.result_cbs = [_Fut(log) for _ in range(n_http + 2)]
            pos = 0
            try:
                for c in cs + [len(stream)]:
                    if c > pos:
                        p.data_received(stream[pos:c])
                        pos = c
            except Exception as e:  # noqa: BLE001
                R.fail("C05.inbound-raises", f"sizes={case['sizes'][:6]} cuts={cs[:6]}: {type(e).__name__}: {e}", exc=type(e).__name__)
                return
            got = [norm(k, r) if k != "EXC" else (k, repr(r)) for k, r in log]
            if got != expected:
                R.fail("C05.inbound-differs", f"sizes={case['sizes'][:6]} cuts={cs[:6]} stream {len(stream)} bytes: delivered {got!r:.400} expected {expected!r:.400}")
                return
    vtime.run_shared(go())


@st.composite
def frame_sizes(draw):
    return draw(st.lists(st.one_of(st.sampled_from(BOUNDARY_SIZES), st.integers(1, 1024)), min_size=1, max_size=6))


@st.composite
def inbound_cases(draw, cuts_kind):
    if cuts_kind == "all2":
        msgs = [draw(message(small=True))]
        if draw(st.booleans()):
            msgs.append(draw(message(small=True)))
        sizes = draw(st.lists(st.sampled_from([1, 2, 15, 16, 17, 40, 1024]), min_size=1, max_size=3))
        # keep the ciphertext stream small: at most ~12 frames
        plain = sum(len(serialise(m)[0]) for m in msgs)
        if plain / max(1, min(sizes)) > 12:
            sizes = [max(sizes + [16])] if plain / max(sizes + [16]) <= 12 else [1024]
        return {"msgs": msgs, "sizes": sizes, "cuts": "all2"}
    msgs = draw(st.lists(message(), min_size=1, max_size=4))
    sizes = draw(frame_sizes())
    plain = sum(len(serialise(m)[0]) for m in msgs)
    if plain / max(1, min(sizes)) > 400:
        sizes = [s if s >= 15 else 1024 for s in sizes]
    if cuts_kind == "all1":
        return {"msgs": msgs, "sizes": sizes, "cuts": "all1"}
    cuts = "drip" if draw(st.integers(0, 19)) == 0 else draw(st.lists(st.integers(1, 40000), max_size=12))
    return {"msgs": msgs, "sizes": sizes, "cuts": cuts}


# ---------------------------------------------------------------- inbound, corrupted frame
def run_corrupt(case, R):
    msgs = case["msgs"]
    parts = [serialise(m) for m in msgs]
    plain = b"".join(p[0] for p in parts)
    stream, bounds = frames_with_bounds(A2C, plain, case["sizes"])
    k = case["frame"] % len(bounds)
    fs, fe, ps, pe = bounds[k]
    region = case["region"]
    if region == "len":
        bits = range(0, 16)
    elif region == "tag":
        bits = range((fe - fs - 16) * 8, (fe - fs) * 8)
    elif region == "ct":
        bits = range(16, (fe - fs - 16) * 8)
    else:
        bits = [case["bit"] % ((fe - fs) * 8)]
    if len(bits) > 600:
        bits = list(bits)[:: max(1, len(bits) // 600)]
    # messages completely contained in frames < k are the only ones that may be delivered
    deliverable = []
    off = 0
    for raw, exp, _ in parts:
        if off + len(raw) <= ps:
            deliverable.append(exp)
        off += len(raw)
    R.nt()
    R.cls("corrupt:" + region, f"at-frame={min(k, 3)}", "idle" if case.get("idle") else "request-pending")
    R.sub = len(bits) - 1
    n_http = sum(1 for m in msgs if m["kind"] == "HTTP")

    async def main(loop):
        for bit in bits:
            bad = bytearray(stream)
            bad[fs + bit // 8] ^= 1 << (bit % 8)
            # a raised length prefix needs more bytes to complete the (mis)framed block: append genuine further frames
            tail, _ = frames_with_bounds(A2C, b"EVENT/1.0 200 OK\r\nContent-Length: 4\r\n\r\nmore" * 30, [1024], ctr=len(bounds))
            data = bytes(bad) + tail * 60
            if case.get("notail"):
                # nothing follows the corrupted frame: whenever the (mis)framed block is complete within the bytes received - every flip
                # outside the length prefix, and flips that lower the length - the session must end there and then, not wait for more
                newlen = int.from_bytes(bad[fs:fs + 2], "little")
                if newlen > fe - fs - 18:
                    continue
                data = bytes(bad)
            log = []
            conn = _Conn(log)
            lost = []
            conn._connection_lost = lambda exc: lost.append(exc)
            p = SecureHomeKitProtocol(conn, A2C, C2A)
            conn.protocol = p          # this protocol is the connection's current one
            t = FakeTransport(loop, FakeSocket(None, "10.0.0.1", 1), p)
            p.connection_made(t)
            pending = _Fut(log)
            p.result_cbs = [_Fut(log) for _ in range(len([e for e in deliverable if e[0] == "HTTP"]))]
            idle = bool(case.get("idle"))          # no request outstanding when the bad frame arrives (e.g. it was meant to be an event)
            real_pending = loop.create_future()
            if not idle:
                p.result_cbs += [pending, real_pending]
            cuts = sorted({int(c) % len(data) for c in case.get("cuts", [])} - {0})
            pos = 0
            for c in cuts + [len(data)]:
                if c > pos:
                    t.feed(data[pos:c])
                    pos = c
            await asyncio.sleep(0)
            await asyncio.sleep(0)
            got = [norm(kk, r) for kk, r in log if kk in ("HTTP", "EVENT")]
            desc = f"bit {bit} of frame {k} ({region}) sizes={case['sizes'][:5]}"
            if got != deliverable[:len(got)] or len(got) > len(deliverable):
                R.fail("C05.corrupt-frame-delivered", f"{desc}: delivered {got!r:.300}; only {deliverable!r:.300} precede the corrupted frame", region=region)
                return
            if len(got) < len(deliverable):
                R.fail("C05.inbound-differs", f"{desc}: messages before the corrupted frame were lost: {got!r:.200}")
                return
            if not t.is_closing() or not t.lost_called:
                R.fail("C05.corrupt-frame-keeps-session", f"{desc}: transport not closed (fatal={t.fatal!r})", region=region)
                return
            if idle:
                continue
            if not real_pending.done() or not isinstance(real_pending.exception(), AccessoryDisconnectedError):
                R.fail("C05.pending-not-failed", f"{desc}: pending request state {real_pending!r:.120}", region=region)
                return
            if pending.exc is not None and not isinstance(pending.exc, AccessoryDisconnectedError):
                R.fail("C05.pending-not-failed", f"{desc}: pending request failed with {pending.exc!r:.120}", region=region)
                return
    vtime.run(main)


@st.composite
def corrupt_cases(draw):
    msgs = draw(st.lists(message(small=True), min_size=1, max_size=3))
    sizes = draw(st.lists(st.sampled_from([8, 16, 17, 40, 100, 1024]), min_size=1, max_size=3))
    if draw(st.integers(0, 2)) == 0:
        # full-size frames: a body of several kilobytes in 1024-byte blocks
        big = dict(msgs[0], mode="cl", body=bytes((i * 7) & 0xFF for i in range(draw(st.sampled_from([1024, 2048, 2500, 3100])))))
        msgs = [big] + msgs[1:2]
        sizes = [1024]
    return {"msgs": msgs, "sizes": sizes, "frame": draw(st.integers(0, 50)), "region": draw(st.sampled_from(["len", "tag", "ct", "ct"])),
            "cuts": draw(st.lists(st.integers(1, 5000), max_size=4)), "idle": draw(st.booleans()), "notail": draw(st.booleans())}


def enum_corrupt_len(tier):
    """Every bit of the length prefix of a frame of every power-of-two size (one flip turns those into 0) and of neighbouring sizes."""
    body = bytes((i * 13 + 5) & 0xFF for i in range(2100))
    for size in (1, 2, 3, 4, 8, 16, 17, 32, 64, 128, 255, 256, 512, 1000, 1023, 1024):
        msg = {"kind": "HTTP", "code": 200, "reason": "OK", "mode": "cl", "body": body[:size + 700], "headers": []}
        for frame in (0, 1):
            for notail in (True, False):
                for idle in (False, True):
                    yield {"msgs": [msg], "sizes": [size], "frame": frame, "region": "len", "cuts": [], "idle": idle, "notail": notail}


# ---------------------------------------------------------------- outbound
class _Sink:
    def __init__(self):
        self.calls = []
        self.closing = False

    def is_closing(self):
        return self.closing

    def writelines(self, lines):
        self.calls.append(("writelines", [bytes(x) for x in lines]))

    def write(self, data):
        self.calls.append(("write", [bytes(data)]))

    def write_eof(self):
        pass

    def close(self):
        self.closing = True


def run_outbound_direct(case, R):
    lengths = case["lengths"]
    R.nt(any(n > 1024 for n in lengths))
    for n in lengths:
        R.cls("out:" + ("<=1024" if n <= 1024 else "<=2048" if n <= 2048 else ">2048"))

    async def go():
        log = []
        p = SecureHomeKitProtocol(_Conn(log), A2C, C2A)
        sink = _Sink()
        p.connection_made(sink)
        ctr = 0
        a2c = 0
        for j, n in enumerate(lengths):
            payload = bytes((i * 17 + n + j) & 0xFF for i in range(n))
            before = len(sink.calls)
            task = asyncio.ensure_future(p.send_bytes(payload))
            await asyncio.sleep(0)
            calls = sink.calls[before:]
            if len(calls) != 1:
                R.fail("C05.outbound-not-single-write", f"payload of {n} bytes: {len(calls)} transport calls {[(k, len(v)) for k, v in calls][:6]}")
                task.cancel()
                return
            wire = b"".join(calls[0][1])
            try:
                frames, ctr2, rest = refhap.frames_dec(C2A, ctr, wire)
            except refhap.FrameError as e:
                R.fail("C05.outbound-frames", f"payload of {n} bytes (request {j}, counter from {ctr}): reference accessory: {e}")
                task.cancel()
                return
            if rest or b"".join(frames) != payload:
                R.fail("C05.outbound-frames", f"payload of {n} bytes: frames {[len(f) for f in frames][:8]} rest={len(rest)}; plaintext differs or incomplete")
                task.cancel()
                return
            ctr = ctr2
            # answer so that the next request can be issued on the same session
            resp, a2c = refhap.frames_enc(A2C, a2c, b"HTTP/1.1 204 No Content\r\n\r\n")
            p.data_received(resp)
            r = await task
            if r.code != 204:
                R.fail("C05.inbound-differs", f"response to request {j}: {r.code}")
                return
    vtime.run_shared(go())


def enum_outbound(tier):
    grid = [1, 2, 3, 15, 16, 17, 1022, 1023, 1024, 1025, 1026, 2047, 2048, 2049, 3071, 3072, 3073, 4096, 4097, 5000, 10240, 20000]
    for n in grid:
        yield {"lengths": [n]}
    for a in (1, 1024, 1025, 2049):
        for b in (1, 1023, 1024, 1025, 4097):
            yield {"lengths": [a, b, a]}


@st.composite
def outbound_cases(draw):
    return {"lengths": draw(st.lists(st.one_of(st.sampled_from([1, 1023, 1024, 1025, 2048, 2049]), st.integers(1, 20000)), min_size=1, max_size=4))}


def run_outbound_world(case, R):
    """Through the real API on a simulated session: the reference accessory deframes and parses every request."""
    sizes = case["bodies"]
    R.nt(any(n > 900 for n in sizes))
    R.cls("out:api")

    async def main(loop):
        w = IpWorld(loop, k=case.get("k", 0))

        def hook(conn, req):
            if req.target.startswith("/x"):
                conn.send_http(204, "No Content")
                return True
            return False
        w.acc.on_request = hook
        w.acc.frame_sizes = case.get("acc_sizes") or [1024]
        try:
            p = w.pairing
            await p.list_accessories_and_characteristics()
            sent = []
            for n in sizes:
                body = bytes((i * 29 + n) & 0xFF for i in range(n)) or b"x"
                sent.append(body)
                await p.connection.post("/x", body)
            conn = w.acc.conns[0]
            if conn.frame_errors:
                R.fail("C05.outbound-frames", f"reference accessory rejected a frame: {conn.frame_errors[0]} (bodies {sizes})")
                return
            got = [r.body for r in conn.requests if r.target == "/x"]
            if got != sent:
                R.fail("C05.outbound-frames", f"bodies received {[len(b) for b in got]} sent {[len(b) for b in sent]} or content differs")
            if any(n > 1024 for _, n in w.acc.frame_log):
                R.fail("C05.outbound-frames", "frame over 1024 bytes")
            idx = [r.write_index for r in conn.requests]
            if idx != list(range(len(idx))) or len(conn.t.write_calls) != len(idx):
                R.fail("C05.outbound-not-single-write", f"{len(conn.t.write_calls)} write calls for {len(idx)} requests")
            await p.close()
        finally:
            w.restore()
    vtime.run(main)


def run_outbound_backpressure(case, R):
    """The accessory stops reading for a while: requests pile up in the transport's write buffer (over asyncio's 64 KiB high-water mark in the
    non-trivial cases, so the protocol is told to pause), more requests are issued, the accessory reads again, more requests follow.  Whatever
    reaches the reference accessory must authenticate, in order, and be requests that were issued, in the order they were issued."""
    pre, mid, post = case["pre"], case["mid"], case["post"]
    over = sum(pre) > 64 * 1024
    R.nt(over)
    R.cls("out:backpressure" + (":paused" if over else ""))

    async def main(loop):
        w = IpWorld(loop, k=case.get("k", 0))

        def hook(conn, req):
            if req.target.startswith("/x"):
                conn.send_http(204, "No Content")
                return True
            return False
        w.acc.on_request = hook
        try:
            p = w.pairing
            await p.list_accessories_and_characteristics()
            conn = w.acc.conns[0]
            sent, tasks = [], []

            def issue(n):
                body = bytes((i * 31 + n + len(sent)) & 0xFF for i in range(n)) or b"x"
                sent.append(body)
                tasks.append(asyncio.ensure_future(p.connection.post("/x", body)))
            conn.t.stalled = True
            for n in pre:
                issue(n)
            for _ in range(5):
                await asyncio.sleep(0)
            for n in mid:
                issue(n)
            for _ in range(5):
                await asyncio.sleep(0)
            conn.t.drain()
            for _ in range(5):
                await asyncio.sleep(0)
            for n in post:
                issue(n)
            res = await asyncio.gather(*tasks, return_exceptions=True)
            if conn.frame_errors:
                R.fail("C05.outbound-frames", f"after a paused write buffer the reference accessory rejected a frame: {conn.frame_errors[0]} "
                       f"(pre {pre} mid {mid} post {post}; outcomes {[type(r).__name__ for r in res]})", backpressure=1)
                return
            got = [r.body for r in conn.requests if r.target == "/x"]
            it = iter(sent)
            if not all(any(b == s for s in it) for b in got):
                R.fail("C05.outbound-frames", f"bodies received {[len(b) for b in got]} are not the issued ones in order {[len(b) for b in sent]}", backpressure=1)
                return
            for body, r in zip(sent, res):
                if not isinstance(r, BaseException) and body not in got:
                    R.fail("C05.outbound-frames", f"a request of {len(body)} bytes was answered but never reached the accessory", backpressure=1)
                    return
            await p.close()
        finally:
            w.restore()
    vtime.run(main)


def run_outbound_pipelined(case, R):
    """Several requests outstanding on one session (HomeKitConnection's concurrency_limit > 1; the protocol dispatches replies in order) while
    the accessory does not read: the harness plays asyncio's flow control (pause_writing() once more than 64 KiB are unsent, resume_writing()
    when the accessory reads again).  The byte stream that reaches the reference accessory must authenticate frame by frame and decode to the
    payloads of the requests that were written, in the order they were issued; unless the session was ended."""
    pre, mid, post = case["pre"], case["mid"], case["post"]
    R.nt(sum(pre) > 64 * 1024)
    R.cls("out:pipelined" + (":paused" if sum(pre) > 64 * 1024 else ""))

    async def go():
        log = []
        p = SecureHomeKitProtocol(_Conn(log), A2C, C2A)
        sink = _Sink()
        p.connection_made(sink)
        written, tasks, outcomes = [], [], []
        state = {"unsent": 0, "paused": False}

        async def issue(n, stalled):
            payload = bytes((i * 13 + n + len(tasks)) & 0xFF for i in range(n))
            before = len(sink.calls)
            tasks.append(asyncio.ensure_future(p.send_bytes(payload)))
            await asyncio.sleep(0)
            calls = sink.calls[before:]
            if calls:
                written.append(payload)
            if stalled:
                state["unsent"] += sum(len(x) for _, v in calls for x in v)
                if state["unsent"] > 64 * 1024 and not state["paused"]:
                    state["paused"] = True
                    p.pause_writing()
        for n in pre:
            await issue(n, True)
        for n in mid:
            await issue(n, True)
        if state["paused"]:
            p.resume_writing()
        for n in post:
            await issue(n, False)
        if sink.closing:
            R.cls("session-ended")
        else:
            wire = b"".join(x for _, v in sink.calls for x in v)
            try:
                frames, _, rest = refhap.frames_dec(C2A, 0, wire)
            except refhap.FrameError as e:
                R.fail("C05.outbound-frames", f"pipelined requests pre {pre} mid {mid} post {post} (paused: {state['paused']}): reference accessory: {e}", pipelined=1)
                frames = None
            if frames is not None and (rest or b"".join(frames) != b"".join(written)):
                R.fail("C05.outbound-frames", f"pipelined requests pre {pre} mid {mid} post {post}: plaintext differs from the written requests in order", pipelined=1)
        a2c = 0
        for _ in written:
            resp, a2c = refhap.frames_enc(A2C, a2c, b"HTTP/1.1 204 No Content\r\n\r\n")
            if not sink.closing:
                p.data_received(resp)
        for t in tasks:
            if not t.done():
                await asyncio.sleep(0)
            if not t.done():
                t.cancel()
        outcomes.extend(await asyncio.gather(*tasks, return_exceptions=True))
    vtime.run_shared(go())


def enum_backpressure(tier):
    for pre in ([30000, 30000, 6000], [70000], [20000] * 4, [1000], [65000, 1000]):
        for mid in ([10], [10, 2000], []):
            for post in ([10], [10, 1500], [3000, 10, 10]):
                yield {"pre": pre, "mid": mid, "post": post}


@st.composite
def backpressure_cases(draw):
    big = st.one_of(st.sampled_from([16384, 32768, 65536, 70000]), st.integers(1, 80000))
    small = st.integers(1, 3000)
    return {"k": draw(st.integers(0, 100)), "pre": draw(st.lists(big, min_size=1, max_size=4)), "mid": draw(st.lists(small, max_size=3)),
            "post": draw(st.lists(small, min_size=1, max_size=3))}


@st.composite
def outbound_world_cases(draw):
    return {"k": draw(st.integers(0, 100)), "bodies": draw(st.lists(st.one_of(st.sampled_from([1, 900, 930, 950, 1024, 2000, 4000]), st.integers(1, 6000)), min_size=1, max_size=4)),
            "acc_sizes": draw(frame_sizes())}


SPEC = Property(
    P, "exploration",
    rule=("inbound: 1..4 HTTP/EVENT messages encrypted by the reference with frame sizes from {1,2,15,16,17,1023,1024} and random 1..1024, "
          "fed to SecureHomeKitProtocol under every single cut, every pair of cuts (small streams), 1-byte drip and random 0..12 cuts; one "
          "frame corrupted by every single-bit flip of its length prefix, its tag, or (up to 600 sampled bits of) its ciphertext. Outbound: "
          "payload lengths {1,2,...,1023,1024,1025,2047,2048,2049,3072,4097,...,20000} and random through send_bytes on one session "
          "(counters continue), and real API calls with bodies up to 6000 bytes against the simulated accessory. Evaluations count every "
          "(stream, segmentation) pair and every flipped bit. Non-trivial: plaintext > 1024 bytes, an exhaustive/drip cut family, a cut "
          "inside a length prefix or tag, or a corrupted frame."),
    layers=[
        Layer("inbound-all-single-cuts", run_inbound, strategy=lambda: inbound_cases("all1"), n={"quick": 200, "thorough": 3000}, min_nontrivial=50),
        Layer("inbound-all-double-cuts", run_inbound, strategy=lambda: inbound_cases("all2"), n={"quick": 32, "thorough": 600}, min_nontrivial=10),
        Layer("inbound-random-cuts", run_inbound, strategy=lambda: inbound_cases("random"), n={"quick": 2500, "thorough": 60000}, min_nontrivial=300),
        Layer("inbound-corrupt-frame", run_corrupt, strategy=corrupt_cases, n={"quick": 160, "thorough": 3000}, min_nontrivial=50),
        Layer("inbound-corrupt-length-grid", run_corrupt, enumerate=enum_corrupt_len, exhaustive=True,
              space="16 frame sizes (every power of two up to 1024 and neighbours) x first/second frame x all 16 bits of the length prefix x nothing / more frames behind it x idle / request pending", min_nontrivial=100),
        Layer("outbound-length-grid", run_outbound_direct, enumerate=enum_outbound, exhaustive=True, space="22 boundary lengths; 20 three-request sessions", min_nontrivial=20),
        Layer("outbound-gen", run_outbound_direct, strategy=outbound_cases, n={"quick": 600, "thorough": 15000}),
        Layer("outbound-api", run_outbound_world, strategy=outbound_world_cases, n={"quick": 300, "thorough": 6000}),
        Layer("outbound-backpressure-grid", run_outbound_backpressure, enumerate=enum_backpressure, exhaustive=True,
              space="5 backlogs (below / above the 64 KiB high-water mark) x 3 request lists while paused x 3 after the accessory reads again"),
        Layer("outbound-pipelined-grid", run_outbound_pipelined, enumerate=enum_backpressure, exhaustive=True,
              space="the same grid with several requests outstanding on the protocol (pause_writing / resume_writing played by the harness)"),
        Layer("outbound-pipelined", run_outbound_pipelined, strategy=backpressure_cases, n={"quick": 300, "thorough": 6000}),
        Layer("outbound-backpressure", run_outbound_backpressure, strategy=backpressure_cases, n={"quick": 150, "thorough": 3000}),
    ],
    assumptions=["reference AEAD framing in vlib/refhap.py (LE16 length as AAD, nonce = 4 zero bytes + LE64 counter)",
                 "the in-memory transport turns an exception from data_received into connection_lost(exc), as asyncio's socket transport does",
                 "maximal 1024-byte chunking is not demanded, only frames of 1..1024 bytes"],
    min_nontrivial=500,
)

"""C08 - every request gets its own response or a prompt disconnection error (DESIGN 4/C08)."""
import asyncio
import itertools
import json

from hypothesis import strategies as st

from aiohomekit.exceptions import AccessoryDisconnectedError
from vlib import vtime
from vlib.ipworld import IpWorld
from vlib.runner import Layer, Property

P = "C08"
NCALLERS = 3
EPS = 1e-6


class Pruned(Exception):
    pass


def run_case(case, R):
    ops = [tuple(o) for o in case["ops"]]
    names = [o[0] for o in ops]
    nreq = names.count("req")
    R.nt((nreq >= 2 or "stall" in names) and any(n in ("cancel", "fin", "reset", "reset+cancel", "reset+close", "ans+event", "ans-part", "unsolicited", "close") or (n == "adv" and o[1] >= 30) for n, o in zip(names, ops)))
    for n in set(names):
        R.cls("op:" + n)

    async def main(loop):
        w = IpWorld(loop, k=case.get("k", 0))
        w.acc.header_names = case.get("hdr", "title")
        w.acc.verify_delay = case.get("vdelay", 0.0)
        spell = {"title": bytes, "lower": bytes.lower, "upper": bytes.upper}[case.get("hdr", "title")]
        p = w.pairing
        pending = []         # (conn, rid) requests the accessory has received and not answered
        partial = []         # [conn, remaining wire bytes] of a response delivered in part
        events_sent = []
        events_due = []      # (connection, value, time) events handed to a connection the controller had not given up
        events_got = []
        stalled_from = {}    # conn index -> number of write calls when the peer stopped reading
        reqs = {}            # rid -> dict(task, issued, written_conn, done_at, outcome)
        callers = [None] * NCALLERS
        disconnects = []     # (time, conn index, cause)
        next_rid = [100]
        ev_counter = [0]

        def hook(conn, req):
            if req.target.startswith("/characteristics?id=1."):
                rid = int(req.target.split(".")[-1])
                if rid >= 100:
                    pending.append((conn, rid))
                    if rid in reqs:
                        reqs[rid]["written_conn"] = conn.index
                        reqs[rid]["written_at"] = loop.time()
                    return True
            return False
        w.acc.on_request = hook

        def listener(ev):
            events_got.append(ev)
        p.dispatcher_connect(listener)

        def frame_msg(status_line, body):
            """Content-Length framing, or (case['chunked']) chunked transfer coding in two chunks - both legal for responses and events."""
            head = status_line + spell(b"Content-Type") + b": application/hap+json\r\n"
            if not case.get("chunked"):
                return head + spell(b"Content-Length") + b": %d\r\n\r\n" % len(body) + body
            cut = max(1, len(body) // 2)
            chunks = b"".join(b"%x\r\n" % len(c) + c + b"\r\n" for c in (body[:cut], body[cut:]) if c)
            return head + spell(b"Transfer-Encoding") + b": chunked\r\n\r\n" + chunks + (b"0" if case["chunked"] == 1 else b"00") + b"\r\n\r\n"

        def response_plain(rid):
            body = json.dumps({"characteristics": [{"aid": 1, "iid": rid, "value": rid}]}, separators=(",", ":")).encode()
            return frame_msg(b"HTTP/1.1 200 OK\r\n", body)

        def response_wire(conn, rid):
            return conn.encrypt(response_plain(rid), [40, 1024])

        def event_wire(conn, plain=False):
            ev_counter[0] += 1
            v = ev_counter[0]
            body = json.dumps({"characteristics": [{"aid": 1, "iid": 9, "value": v}]}, separators=(",", ":")).encode()
            msg = frame_msg(b"EVENT/1.0 200 OK\r\n", body)
            events_sent.append((conn.index, v))
            if not conn.t.is_closing():
                events_due.append((conn.index, v, loop.time()))
            return msg if plain else conn.encrypt(msg, [1024])

        def live_conn():
            c = w.acc.conns[-1] if w.acc.conns else None
            return c if c is not None and c.open and not c.peer_closed and c.secure else None

        def oldest_pending(conn):
            for i, (c, rid) in enumerate(pending):
                if c is conn:
                    return i
            return None

        seen_writes = {}

        async def step_checks(where):
            await vtime.settle(loop)
            now = loop.time()
            # a request written into a stalled transport never reaches the accessory; it counts as written when the controller wrote it
            for c in w.acc.conns:
                n = len(c.t.write_calls)
                if (c.t.stalled or c.t.get_write_buffer_size()) and n > seen_writes.get(c.index, n if c.index not in stalled_from else stalled_from[c.index]):
                    waiting = sorted((r["issued"], rid) for rid, r in reqs.items() if "written_at" not in r and not r["task"].done())
                    for (_, rid), wc in zip(waiting, c.t.write_calls[seen_writes.get(c.index, stalled_from[c.index]):]):
                        reqs[rid]["written_conn"], reqs[rid]["written_at"] = c.index, wc[0]
                seen_writes[c.index] = n
            for rid, r in reqs.items():
                t = r["task"]
                if t.done() and r["done_at"] is None:
                    r["done_at"] = now
                    if t.cancelled():
                        r["outcome"] = ("cancelled",)
                    elif t.exception() is not None:
                        r["outcome"] = ("exc", t.exception())
                    else:
                        r["outcome"] = ("ok", t.result())
                    out = r["outcome"]
                    want = {"characteristics": [{"aid": 1, "iid": rid, "value": rid}]} if r.get("raw") else {(1, rid): {"value": rid}}
                    if out[0] == "ok" and out[1] != want:
                        R.fail("C08.wrong-response", f"{where}: request {rid} completed with {out[1]!r:.200}", got="other-request" if out[1] else "empty")
                    elif (out[0] == "exc" and isinstance(out[1], AccessoryDisconnectedError) and r.get("answered") and not r.get("we_cancelled")
                          and not any(ci == r["answered"][1] and dt <= now + EPS for dt, ci, _ in disconnects)):
                        # the accessory sent the whole response on a connection nobody dropped, cancelled on or timed out on
                        R.fail("C08.response-lost", f"{where}: request {rid} was answered in full at t={r['answered'][0]} on connection {r['answered'][1]}, which no one "
                                                    f"dropped, yet it failed with {out[1]!r:.100}", exc="AccessoryDisconnectedError")
                    elif out[0] == "exc" and not isinstance(out[1], AccessoryDisconnectedError):
                        R.fail("C08.wrong-error", f"{where}: request {rid} failed with {type(out[1]).__name__}: {out[1]}", exc=type(out[1]).__name__)
                    elif out[0] == "cancelled" and not r.get("we_cancelled"):
                        R.fail("C08.wrong-error", f"{where}: request {rid} was cancelled by the library", exc="CancelledError")
                elif not t.done():
                    # the 30 s timer starts when the request is written (requests queue behind one another); until then it may wait for
                    # the connection (10 s) and for up to NCALLERS - 1 earlier requests
                    age = now - r.get("written_at", r["issued"])
                    if age > (30 if "written_at" in r else 10 + 30 * NCALLERS) + EPS:
                        R.fail("C08.request-hangs", f"{where}: request {rid} outstanding for {age:.1f}s after it was {'written' if 'written_at' in r else 'issued'}", how="timeout")
                    # promptness after a disconnect of the connection that carried it
                    wc = r.get("written_conn")
                    for (dt, ci, cause) in disconnects:
                        if wc == ci and dt >= r.get("written_at", r["issued"]) - EPS:
                            R.fail("C08.request-hangs", f"{where}: request {rid} still outstanding after {cause} of its connection at t={dt}", how=cause)
            # events: only to listeners, each once, in order, unless the connection went away before delivery
            got_vals = [list(e.values())[0].get("value") for e in events_got if e]
            if len(got_vals) != len(set(got_vals)):
                R.fail("C08.event-duplicated", f"{where}: events delivered {got_vals}")
            if got_vals != sorted(got_vals) or any(v not in [x for _, x in events_sent] for v in got_vals):
                R.fail("C08.event-misrouted", f"{where}: events delivered {got_vals}, sent {events_sent}")
            # an event sent on a connection nobody dropped, cancelled on or timed out on reaches the listeners
            for ci, v, ts in events_due:
                if v not in got_vals and not any(c2 == ci and dt <= now + EPS for dt, c2, _ in disconnects):
                    cobj = next((c for c in w.acc.conns if c.index == ci), None)
                    if cobj is not None and not cobj.t.is_closing() and not cobj.peer_closed:
                        R.fail("C08.event-lost", f"{where}: event {v} sent on connection {ci} at t={ts} never reached the listeners (delivered: {got_vals})")
                        break
            # no write after the controller closed a transport
            for c in w.acc.conns:
                t = c.t
                if t.closed_by_controller_at is not None:
                    late = [wc for wc in t.write_calls if wc[0] > t.closed_by_controller_at + EPS]
                    if late:
                        R.fail("C08.write-after-close", f"{where}: {len(late)} writes to connection {c.index} after the controller closed it")

        try:
            await p.list_accessories_and_characteristics()
            await vtime.settle(loop)
            for k, op in enumerate(ops):
              try:
                    name = op[0]
                    conn = live_conn()
                    if name in ("req", "raw"):
                        i = op[1] % NCALLERS
                        if callers[i] is not None and not callers[i].done():
                            raise Pruned
                        rid = next_rid[0]
                        next_rid[0] += 1
                        if name == "raw":
                            # straight to the connection object, without waiting for a session first (request() must refuse or serve it)
                            t = asyncio.ensure_future(p.connection.get_json(f"/characteristics?id=1.{rid}"))
                        else:
                            t = asyncio.ensure_future(p.get_characteristics([(1, rid)]))
                        callers[i] = t
                        reqs[rid] = {"task": t, "issued": loop.time(), "done_at": None, "outcome": None, "caller": i, "raw": name == "raw"}
                    elif name in ("ans", "ans-split", "ans+event", "ans-part"):
                        if conn is None or partial:
                            raise Pruned
                        j = oldest_pending(conn)
                        if j is None:
                            raise Pruned
                        _, rid = pending.pop(j)
                        if name == "ans+event" and op[1] % 2:
                            # response and event in one plaintext stream: the end of the response and the event share an encrypted block
                            wire = b""
                            wire2 = conn.encrypt(response_plain(rid) + event_wire(conn, plain=True), [40, 1024])
                        else:
                            wire = response_wire(conn, rid)
                        if name != "ans-part" and rid in reqs:
                            reqs[rid]["answered"] = (loop.time(), conn.index)
                        if name == "ans":
                            conn.send_wire(wire)
                        elif name == "ans-split":
                            conn.send_wire(wire, cuts=[op[1] % len(wire), (op[1] * 7 + 3) % len(wire), len(wire) - 1 - op[1] % 9])
                        elif name == "ans+event":
                            if wire:
                                wire2 = wire + event_wire(conn)
                            conn.send_wire(wire2, cuts=[op[1] % len(wire2), len(wire) - 1 - (op[1] % 3), len(wire) + (op[1] % 5)])
                        else:
                            cut = 1 + op[1] % (len(wire) - 1)
                            conn.send_wire(wire[:cut])
                            partial.append([conn, wire[cut:], rid])
                    elif name == "ans-rest":
                        if not partial:
                            raise Pruned
                        c, rest, *prid = partial.pop()
                        if c.open and not c.peer_closed:
                            c.send_wire(rest)
                            if prid and prid[0] in reqs and not c.t.is_closing():
                                reqs[prid[0]]["answered"] = (loop.time(), c.index)
                    elif name == "event":
                        if conn is None or partial:
                            raise Pruned
                        conn.send_wire(event_wire(conn))
                    elif name == "unsolicited":
                        if conn is None or partial or oldest_pending(conn) is not None:
                            raise Pruned
                        # only while the controller has nothing outstanding on this connection
                        if any(not r["task"].done() and r.get("written_conn") == conn.index for r in reqs.values()):
                            raise Pruned
                        conn.send_wire(response_wire(conn, 7))
                        disconnects.append((loop.time(), conn.index, "unsolicited"))
                    elif name == "cancel":
                        i = op[1] % NCALLERS
                        t = callers[i]
                        if t is None or t.done():
                            raise Pruned
                        rid = next(r for r, d in reqs.items() if d["task"] is t)
                        reqs[rid]["we_cancelled"] = True
                        t.cancel()
                        if reqs[rid].get("written_conn") is not None:
                            disconnects.append((loop.time(), reqs[rid]["written_conn"], "cancel"))
                    elif name == "reset+cancel":
                        # the accessory resets the connection and the caller gives up in the same loop iteration: the RST is in the kernel
                        # but the event loop has not polled the socket yet
                        i = op[1] % NCALLERS
                        t = callers[i]
                        if conn is None or t is None or t.done():
                            raise Pruned
                        partial.clear()
                        rid = next(r for r, d in reqs.items() if d["task"] is t)
                        reqs[rid]["we_cancelled"] = True
                        t.cancel()           # the task is woken in the next iteration - before the socket's reader, which that iteration's poll appends
                        conn.close("reset")
                        disconnects.append((loop.time(), conn.index, "reset"))
                    elif name in ("fin", "reset"):
                        if conn is None:
                            raise Pruned
                        partial.clear()
                        invisible = name == "fin" and conn.t.is_closing()      # the controller closed already and no longer reads: it cannot see a FIN
                        conn.close(name)
                        if not invisible:
                            disconnects.append((loop.time(), conn.index, name))
                    elif name in ("close", "reset+close"):
                        if conn is None:
                            raise Pruned
                        partial.clear()
                        closer = asyncio.ensure_future(p.close())
                        if name == "reset+close":
                            conn.close("reset")
                            disconnects.append((loop.time(), conn.index, "reset"))
                        await vtime.settle(loop)
                        if not conn.t.get_write_buffer_size():
                            # (with unsent bytes in the transport asyncio reports the loss only once they are flushed; the statement
                            # asks for promptness after a timeout, a cancellation or a drop, and the 30 s bound still applies)
                            disconnects.append((loop.time(), conn.index, "local-close"))
                        if not closer.done():
                            R.fail("C08.request-hangs", f"pairing.close() did not return at once (op {k})", how="close-hangs")
                        elif closer.exception() is not None:
                            R.fail("C08.wrong-error", f"pairing.close() raised {closer.exception()!r}", exc=type(closer.exception()).__name__)
                    elif name == "stall":
                        # the accessory stops reading: whatever the controller writes from now on stays in its transport's write buffer
                        if conn is None or conn.t.stalled or partial:
                            raise Pruned
                        conn.t.stalled = True
                        stalled_from[conn.index] = len(conn.t.write_calls)
                    elif name == "drain":
                        c = next((c for c in w.acc.conns if c.t.stalled or c.t.get_write_buffer_size()), None)
                        if c is None:
                            raise Pruned
                        c.t.drain()
                    elif name == "adv":
                        before = loop.time()
                        await asyncio.sleep(op[1])
                        # a request whose 30 s timer fired: its connection is abandoned from then on
                        for rid, r in reqs.items():
                            if not r["task"].done() or r["done_at"] is None:
                                wc = r.get("written_conn")
                                wa = r.get("written_at")
                                if wc is not None and wa is not None and wa + 30 <= loop.time() + EPS and wa + 30 > before - EPS:
                                    disconnects.append((wa + 30, wc, "timeout"))
                    else:
                        raise AssertionError(name)
              except Pruned:
                if not case.get("lenient"):
                    raise
                R.cls("skipped-disabled-op")
                continue
              await step_checks(f"after op {k} {op}")
              if R.failures:
                    return
            # drain: everything must finish within the protocol's own bounds
            await asyncio.sleep(45)
            await step_checks("after draining 45 s")
            for rid, r in reqs.items():
                if not r["task"].done():
                    R.fail("C08.request-hangs", f"request {rid} never completed", how="never")
        except Pruned:
            R.exclude("pruned: disabled event")
            R.nontrivial = False
        except vtime.VDeadlock as e:
            R.fail("C08.request-hangs", f"virtual loop deadlock: {e}", how="deadlock")
        finally:
            for r in reqs.values():
                r["task"].cancel()
            try:
                await p.close()
            except Exception:  # noqa: BLE001
                pass
            w.restore()
    vtime.run(main)


# ---------------------------------------------------------------- two pairings in one process: what happens to one must not touch the other
DISTURB = ["fin", "reset", "local-close", "cancel", "timeout", "partial-block-fin", "unsolicited", "garbage-frame", "reconnect-cycle"]


def run_two(case, R):
    """Pairing B has a request outstanding (and later a response split across reads) while something happens to pairing A's connection."""
    from aiohomekit.controller.ip.pairing import IpPairing
    R.nt()
    R.cls("two-pairings", "disturb:" + case["disturb"], "order:" + case["order"])

    async def main(loop):
        w = IpWorld(loop, hosts=("10.0.0.5",), other_accessory_hosts=("10.0.0.6",), k=case.get("k", 0))
        pd_other = dict(w.pairing_data, AccessoryPairingID=w.other.ident.pairing_id.decode(), AccessoryLTPK=w.other.ident.ltpk.hex(), AccessoryIP="10.0.0.6")
        pd_other.pop("AccessoryIPs", None)
        pd_main = dict(w.pairing_data, AccessoryIP="10.0.0.5")
        pd_main.pop("AccessoryIPs", None)
        first, second = (pd_main, pd_other) if case["order"] == "a-first" else (pd_other, pd_main)
        p1, p2 = IpPairing(w.controller, dict(first)), IpPairing(w.controller, dict(second))
        pa, pb = (p1, p2) if case["order"] == "a-first" else (p2, p1)            # A talks to the main accessory, B to the other one
        held = {"a": [], "b": []}

        def mk(tag):
            def hook(conn, req):
                if req.target.startswith("/characteristics?id=1.") and int(req.target.split(".")[-1]) >= 100:
                    held[tag].append((conn, int(req.target.split(".")[-1])))
                    return True
                return False
            return hook
        w.acc.on_request, w.other.on_request = mk("a"), mk("b")

        def wire(conn, rid):
            body = json.dumps({"characteristics": [{"aid": 1, "iid": rid, "value": rid}]}, separators=(",", ":")).encode()
            return conn.encrypt(b"HTTP/1.1 200 OK\r\nContent-Type: application/hap+json\r\nContent-Length: %d\r\n\r\n" % len(body) + body, [40, 1024])
        try:
            await pa.list_accessories_and_characteristics()
            await pb.list_accessories_and_characteristics()
            await vtime.settle(loop)
            conns_b = len(w.other.conns)
            ta = asyncio.ensure_future(pa.get_characteristics([(1, 100)]))
            if case["disturb"] == "timeout":
                await asyncio.sleep(25)          # A's request is 25 s old when B issues its own: only A's 30 s timer fires below
            tb = asyncio.ensure_future(pb.get_characteristics([(1, 101)]))
            await vtime.settle(loop)
            if not held["a"] or not held["b"]:
                raise AssertionError("harness: requests did not reach the accessories")
            ca, cb = held["a"][0][0], held["b"][0][0]
            # half of B's response is on its way when A is disturbed
            wb = wire(cb, 101)
            cut = 1 + case.get("cut", 30) % (len(wb) - 1)
            cb.send_wire(wb[:cut])
            await vtime.settle(loop)
            d = case["disturb"]
            if d in ("fin", "reset"):
                ca.close(d)
            elif d == "local-close":
                await pa.close()
            elif d == "cancel":
                ta.cancel()
            elif d == "timeout":
                pass
            elif d == "partial-block-fin":
                wa = wire(ca, 100)
                ca.send_wire(wa[:7])
                await vtime.settle(loop)
                ca.close("fin")
            elif d == "unsolicited":
                ca.send_wire(wire(ca, 100) + wire(ca, 7))
            elif d == "garbage-frame":
                ca.send_wire(b"\x05\x00" + bytes(21))
            elif d == "reconnect-cycle":
                ca.close("reset")
                await asyncio.sleep(2)
                await vtime.settle(loop)
                for c_, _ in held["a"][1:]:
                    pass
            await vtime.settle(loop)
            await asyncio.sleep(6 if d == "timeout" else 0.5)
            await vtime.settle(loop)
            what = f"pairing B had request 101 outstanding (response half delivered) while pairing A's connection saw '{d}' ({case['order']})"
            if tb.done():
                R.fail("C08.wrong-response" if not tb.cancelled() and tb.exception() is None else "C08.wrong-error",
                       f"{what}: B's request ended early with {'cancelled' if tb.cancelled() else (tb.exception() or tb.result())!r:.120}", **({"got": "other-request"} if not tb.cancelled() and tb.exception() is None else {"exc": "other-pairing"}))
                return
            cb.send_wire(wb[cut:])
            await vtime.settle(loop)
            if not tb.done() or tb.cancelled() or tb.exception() is not None or tb.result() != {(1, 101): {"value": 101}}:
                R.fail("C08.response-lost", f"{what}: B's response was then completed, B's request: {tb!r:.200}", exc="other-pairing")
                return
            if len(w.other.conns) != conns_b or not pb.is_connected:
                R.fail("C08.wrong-error", f"{what}: B's connection was replaced or lost ({len(w.other.conns)} connections, connected {pb.is_connected})", exc="other-pairing")
        finally:
            for t in (locals().get("ta"), locals().get("tb")):
                if t is not None:
                    t.cancel()
            for p_ in (pa, pb):
                try:
                    await p_.shutdown()
                except Exception:  # noqa: BLE001
                    pass
            w.restore()
    vtime.run(main)


def enum_two(tier):
    for d in DISTURB:
        for order in ("a-first", "b-first"):
            for cut in ((30,) if tier == "quick" else (1, 17, 30, 59, 90)):
                yield {"disturb": d, "order": order, "cut": cut}


# ---------------------------------------------------------------- protocol level: several requests in flight on one connection
def run_pipelined(case, R):
    """The protocol object queues one future per request and resolves them in order (\"we can send many requests and dispatch
    the results in order\"): response i must reach future i, events in between go to the connection."""
    from aiohomekit.controller.ip.connection import HomeKitConnection, InsecureHomeKitProtocol
    from props.c07 import serialise
    kinds = case["kinds"]            # sequence of "H" (response) / "E" (event)
    n_http = kinds.count("H")
    R.nt(n_http >= 2)
    R.cls("pipelined")
    log = []

    class Fut:
        def __init__(self, i):
            self.i, self._d = i, False

        def done(self):
            return self._d

        def set_result(self, r):
            self._d = True
            log.append(("H", self.i, bytes(r.body)))

        def set_exception(self, e):
            self._d = True
            log.append(("X", self.i, repr(e)))

    class Conn(HomeKitConnection):
        def __init__(self):
            super().__init__(None, ["10.0.0.1"], 51826)

        def event_received(self, ev):
            log.append(("E", None, bytes(ev.body)))

        def _connection_lost(self, exc):
            pass
    abandoned = {i for i in case.get("abandoned", []) if i < n_http}      # requests whose caller already gave up (cancelled / timed out)
    if abandoned:
        R.cls("pipelined:abandoned")
    stream = b""
    want = []
    h = 0
    for j, k in enumerate(kinds):
        body = b"m%d" % j
        raw, _, _ = serialise({"kind": "HTTP" if k == "H" else "EVENT", "code": 200, "reason": "OK", "headers": [], "mode": "cl", "body": body})
        stream += raw
        if k != "H" or h not in abandoned:         # the answer to an abandoned request belongs to nobody else: it is dropped
            want.append((k, h if k == "H" else None, body))
        h += k == "H"

    async def go():
        pr = InsecureHomeKitProtocol(Conn())
        pr.result_cbs = [Fut(i) for i in range(n_http + 2)]
        for f in pr.result_cbs:
            f._d = f.i in abandoned
        pos = 0
        for c in sorted({int(c) % len(stream) for c in case["cuts"]} - {0}) + [len(stream)]:
            pr.data_received(stream[pos:c])
            pos = c
    vtime.run_shared(go())
    if log != want:
        R.fail("C08.wrong-response", f"pipelined {kinds}: delivered {log!r:.300} expected {want!r:.300}", got="other-request")


@st.composite
def pipelined_cases(draw):
    return {"kinds": draw(st.lists(st.sampled_from(["H", "H", "E"]), min_size=2, max_size=6)), "cuts": draw(st.lists(st.integers(1, 2000), max_size=5)),
            "abandoned": draw(st.lists(st.integers(0, 4), max_size=2, unique=True))}


ALPHABET_QUICK = [("req", 0), ("req", 1), ("close",), ("ans",), ("ans-split", 5), ("ans+event", 11), ("ans-part", 9), ("ans-rest",), ("event",), ("cancel", 0),
                  ("adv", 29.9), ("adv", 31), ("fin",), ("reset",), ("unsolicited",)]
ALPHABET_FULL = ALPHABET_QUICK + [("req", 2), ("cancel", 1), ("adv", 0.1), ("adv", 30), ("ans-split", 60), ("ans+event", 2), ("reset+cancel", 0), ("reset+close",)]


def enum_dfs(tier):
    # a request handed to the connection while the last pair-verify round trip of a reconnection is outstanding
    for first in (["fin"], ["reset"]):
        for gap in (0.1, 0.2):
            yield {"ops": [["req", 0], ["ans"], first, ["adv", gap], ["raw", 1], ["adv", 0.1], ["raw", 2], ["adv", 1.0], ["req", 0], ["ans"]], "vdelay": 0.3, "lenient": True}
    for ch in (1, 2):
        yield {"ops": [["req", 0], ["ans+event", 11], ["req", 1], ["event"], ["ans"], ["req", 0], ["ans+event", 2], ["req", 2], ["ans-split", 5], ["event"], ["req", 1], ["ans"]], "chunked": ch}
    for hdr in ("lower", "upper"):
        yield {"ops": [["req", 0], ["ans"], ["req", 1], ["ans+event", 11], ["req", 0], ["ans-split", 5], ["event"], ["req", 2], ["ans"]], "hdr": hdr}
    for tail in (["reset+cancel", 0], ["reset+cancel", 1], ["reset+close"]):
        for pre in ([["req", 0]], [["req", 0], ["req", 1]], [["req", 1], ["ans-part", 9], ["req", 0]], [["req", 0], ["ans"], ["req", 0], ["req", 1]]):
            yield {"ops": pre + [tail, ["adv", 1.0], ["req", 2], ["ans"]], "lenient": True}
    alpha = ALPHABET_QUICK if tier == "quick" else ALPHABET_FULL
    depth = 4 if tier == "quick" else 5
    for d in range(1, depth + 1):
        for seq in itertools.product(alpha, repeat=d):
            if seq[0][0] != "req":
                # every history that does not start with a request or a spontaneous event is a suffix-equivalent of a shorter one
                if seq[0][0] not in ("event", "unsolicited", "fin", "reset"):
                    continue
            yield {"ops": [list(o) for o in seq]}


STALL_ALPHABET = [("req", 0), ("req", 1), ("fin",), ("reset",), ("adv", 1.0), ("adv", 31), ("drain",), ("cancel", 0), ("close",), ("ans",)]


def enum_stalled(tier):
    """The accessory stops reading (before or after a request), then every sequence over the alphabet."""
    depth = 3 if tier == "quick" else 4
    for prefix in ([("stall",)], [("req", 2), ("stall",)], [("stall",), ("req", 2)]):
        for d in range(1, depth + 1):
            for seq in itertools.product(STALL_ALPHABET, repeat=d):
                yield {"ops": [list(o) for o in prefix + list(seq)], "lenient": True}


@st.composite
def histories(draw):
    n = draw(st.integers(3, 30))
    ops = []
    for _ in range(n):
        name = draw(st.sampled_from(["req", "req", "req", "ans", "ans", "ans-split", "ans+event", "ans-part", "ans-rest", "event", "cancel",
                                     "adv", "fin", "reset", "unsolicited", "close", "stall", "drain", "raw", "reset+cancel", "reset+close"]))
        if name in ("req", "cancel", "raw", "reset+cancel"):
            ops.append([name, draw(st.integers(0, NCALLERS - 1))])
        elif name in ("ans-split", "ans+event", "ans-part"):
            ops.append([name, draw(st.integers(0, 400))])
        elif name == "adv":
            ops.append([name, draw(st.sampled_from([0.1, 1.0, 9.9, 10.1, 29.9, 30.0, 31.0]))])
        else:
            ops.append([name])
    return {"ops": ops, "k": draw(st.integers(0, 50)), "lenient": True, "hdr": draw(st.sampled_from(["title", "title", "lower", "upper"])),
            "vdelay": draw(st.sampled_from([0.0, 0.0, 0.3])), "chunked": draw(st.sampled_from([0, 0, 1, 2]))}


from props.ble_layers import C08_BLE_LAYERS as _BLE08  # noqa: E402
from props.coap_layers import C08_COAP_LAYERS as _COAP08  # noqa: E402

SPEC = Property(
    P, "exploration",
    rule=("histories over {caller i issues a read with a unique id, accessory answers the oldest pending request whole / in pieces / with an "
          "event glued behind it / only partly (rest later), event, caller cancelled, advance 0.1/29.9/30/31 s, peer FIN, peer reset, "
          "unsolicited response while idle, local close of the pairing, accessory stops reading / reads again, caller cancelled resp. pairing closed while an unpolled RST sits in the socket} with up to 3 concurrent callers on an established secure session; bounded exhaustive DFS "
          "(depth 4 over 15 events in quick, depth 5 over 21 events in thorough; histories with a disabled event are pruned and counted) "
          "and generated histories of 3..30 events. Non-trivial: >=2 requests and at least one of cancel, timeout, FIN/reset, partial "
          "response, event behind a response, unsolicited response."),
    layers=[
        Layer("dfs", run_case, enumerate=enum_dfs, exhaustive=True, space="all event sequences up to the depth bound that start with a request or a spontaneous accessory event", min_nontrivial=300),
        Layer("generated", run_case, strategy=histories, n={"quick": 3000, "thorough": 60000}, min_nontrivial=50),
        Layer("stalled-writes", run_case, enumerate=enum_stalled, exhaustive=True,
              space="the accessory stops reading (the controller's writes stay in its transport buffer, a close() then waits for the buffer as asyncio's does), "
                    "then every sequence over 10 events to depth 3 (quick) / 4 (thorough)", min_nontrivial=100),
        Layer("two-pairings", run_two, enumerate=enum_two, exhaustive=True,
              space="two pairings in one process, B with a request outstanding and its response half delivered, while A's connection sees one of 9 disturbances; both creation orders", min_nontrivial=10),
        *_BLE08,
        *_COAP08,
        Layer("pipelined-protocol", run_pipelined, strategy=pipelined_cases, n={"quick": 1000, "thorough": 20000}),
    ],
    assumptions=["event-loop-callback granularity on a zero-latency in-memory network",
                 "callers go through the pairing API (get_characteristics), which waits up to 10 s for a connection; a request therefore "
                 "completes within 40 s + epsilon of being issued, and at the same virtual instant as the loss of the connection that carried it"],
    min_nontrivial=300,
)

"""C10 - reconnection keeps trying with bounded back-off and a single connector (DESIGN 4/C10)."""
import itertools

from hypothesis import strategies as st

from props._recon import ALL_OUTCOMES, AUTH_OUTCOMES, CONNECT_FAIL, SUCCESS, VERIFY_FAIL, run_history
from props.c11 import OPS
from vlib.runner import Layer, Property

P = "C10"
EPS = 1e-6
CONNECT_LEVEL = {"ConnectionError", "TimeoutError", "IncorrectPairingIdError"}


def judge_factory(R, case):
    def judge(tr, rw):
        script = case.get("script", [])
        ctxs = f"(hosts {case['hosts']} script {script})"
        for clause, msg, ctx in tr.problems:
            if clause == "busy-loop":
                R.fail("C10.busy-loop", f"{msg} {ctxs}")
                return
            if clause == "deadlock":
                R.fail("C10.deadlock", f"{msg} {ctxs}")
                return
            if clause == "description-update-raises":
                R.fail("C10.description-update-raises", f"{msg} {ctxs}")
        atts = [a for a in tr.attempts if a["end"] is not None]
        # ---- 1. single connector
        if tr.max_active_attempts > 1:
            R.fail("C10.overlapping-attempts", f"{tr.max_active_attempts} connection attempts in progress at once {ctxs}")
        for a, b in zip(atts, atts[1:]):
            if b["start"] < a["end"] - EPS:
                R.fail("C10.overlapping-attempts", f"attempt {b['n']} started at {b['start']} before attempt {a['n']} ended at {a['end']} {ctxs}")
                break
        runs = [r for r in tr.runs if r["end"] is not None]
        for a, b in zip(tr.runs, tr.runs[1:]):
            if a["end"] is None or b["start"] < a["end"] - EPS:
                R.fail("C10.overlapping-attempts", f"two reconnect loops alive at once: {a} {b} {ctxs}")
                break
        # ---- 2. back-off inside one connector run
        def nhosts_at(t):
            """Largest advertised set in force at virtual instant t (updates at the same instant are ambiguous: take the larger)."""
            adv = tr.advertised
            cands = [len(h) for i, (tt, h) in enumerate(adv) if tt <= t + EPS and (i + 1 == len(adv) or adv[i + 1][0] >= t - EPS)]
            return max(cands) if cands else len(adv[0][1])
        for run in tr.runs:
            ra = [a for a in atts if a["run"] == run["id"]]
            gaps = []
            burst = []
            for a, b in zip(ra, ra[1:]):
                if a["exc"] is None:
                    continue
                d = b["start"] - a["end"]
                woken = any(a["end"] - EPS <= t <= b["start"] + EPS for t in tr.wakeups)
                if d < 0.1 - EPS:
                    if woken:
                        burst = []
                        continue
                    if a["exc"] != "IncorrectPairingIdError":
                        R.fail("C10.immediate-retry", f"attempt {b['n']} started {d:.3f}s after attempt {a['n']} failed with {a['exc']} "
                               f"(no wake-up in between) {ctxs}", after=a["exc"])
                        return
                    burst.append(a["connected"])
                    if len(burst) > max(0, nhosts_at(a["start"]) - 1) or len(set(burst)) != len(burst):
                        R.fail("C10.immediate-retry", f"{len(burst)} immediate retries in a row after wrong-pairing-id on {burst} with "
                               f"{nhosts_at(a['start'])} advertised address(es) {ctxs}", after="IncorrectPairingIdError-burst")
                        return
                    continue
                burst = []
                if d > 60 + EPS:
                    R.fail("C10.gap-over-60s", f"{d:.3f}s between the failure of attempt {a['n']} ({a['exc']}) and attempt {b['n']} {ctxs}")
                    return
                if not woken:
                    gaps.append((d, a["n"]))
            capped = False
            for (g1, n1), (g2, n2) in zip(gaps, gaps[1:]):
                if g2 < g1 - EPS:
                    R.fail("C10.backoff-not-growing", f"back-off shrank from {g1:.4f}s (after attempt {n1}) to {g2:.4f}s (after attempt {n2}) within "
                           f"one connector run: {[round(g, 3) for g, _ in gaps][:12]} {ctxs}")
                    return
                if capped and abs(g2 - g1) > EPS:
                    R.fail("C10.backoff-not-growing", f"back-off changed after reaching its cap: {[round(g, 3) for g, _ in gaps][:14]} {ctxs}")
                    return
                if abs(g2 - g1) <= EPS:
                    capped = True
        # ---- 3. persistence: a lost session or failed attempt is followed by another attempt within 60 s (unless closed / auth failure)
        close_times = [t0 for t0, _, _, _ in tr.closes]
        first_close = min(close_times) if close_times else None
        end_time = tr.obs[-1]["time"] if tr.obs else 0
        auth_ends = [r["end"] for r in runs if r["exc"] == "AuthenticationError"]
        for tl in tr.lost:
            if first_close is not None and first_close <= tl + 60 + EPS:
                continue
            if tl + 60 > end_time:
                continue
            nxt = [a for a in tr.attempts if a["start"] >= tl - EPS]
            if not nxt or nxt[0]["start"] > tl + 60 + EPS:
                R.fail("C10.no-attempt-after-loss", f"session lost at t={tl}; next attempt {'at t=%.2f' % nxt[0]['start'] if nxt else 'never'} "
                       f"(history ends at t={end_time}) {ctxs}", how="loss")
                return
        fin = tr.final
        reachable = any(rw.roles.get(h) == "main" for h in rw.hosts)
        if fin and not fin.get("closed") and not fin.get("connected") and reachable:
            last_auth = bool(runs) and runs[-1]["exc"] == "AuthenticationError" and runs[-1] is tr.runs[-1]
            trigger_after = last_auth and any(t > runs[-1]["end"] + EPS for t in tr.strong_triggers)
            if not last_auth or trigger_after:
                R.fail("C10.gave-up", f"pairing open, accessory healthy for 200 s, still not connected at t={end_time}; attempts "
                       f"{[(a['n'], round(a['start'], 2), a['exc']) for a in tr.attempts][-6:]}; connector alive: {fin.get('connector_alive')} {ctxs}",
                       last=str(tr.attempts[-1]["exc"]) if tr.attempts else "none", resub=any(s.startswith("ok-drop-resub") for s in script))
                return
        # ---- 4. termination
        for t0, kind, _, t1 in tr.closes:
            later = [a for a in tr.attempts if a["start"] > t1 + EPS]
            if later:
                R.fail("C10.attempt-after-close", f"{kind}() returned at t={t1}; attempt {later[0]['n']} started at t={later[0]['start']} {ctxs}", kind=kind)
                return
        for r in runs:
            if r["exc"] == "AuthenticationError":
                nxt = tr.runs[tr.runs.index(r) + 1:]        # runs are logged in the order they start
                if nxt:
                    n = nxt[0]
                    if not any(r["end"] - EPS <= t <= n["start"] + EPS for t in tr.triggers + tr.wakeups):
                        R.fail("C10.retry-after-auth-failure", f"connector ended with AuthenticationError at t={r['end']}; a new one started at "
                               f"t={n['start']} without an explicit trigger {ctxs}")
                        return
        # ---- 5. waiters
        for c in tr.callers:
            if c["end"] is None:
                if c["start"] + 41 < end_time:
                    R.fail("C10.waiter-hangs", f"caller ({c['kind']}) started at t={c['start']} never completed {ctxs}")
                    return
                continue
            dur = c["end"] - c["start"]
            bound = {"0.1": 0.1, "5": 5.0}.get(c["kind"], 40.0)
            if dur > bound + EPS:
                R.fail("C10.waiter-hangs", f"caller ({c['kind']}) took {dur:.2f}s {ctxs}")
                return
            out = c["outcome"]
            if out and out[0] == "exc":
                name = type(out[1]).__name__
                own = c["kind"] in ("0.1", "5") and name == "TimeoutError"
                if name not in ("AccessoryDisconnectedError", "AuthenticationError") and not own:
                    R.fail("C10.waiter-wrong-error", f"caller ({c['kind']}) failed with {name}: {out[1]} {ctxs}", exc=name)
                    return
            if out and out[0] == "cancelled" and not c["kind"].startswith("cancel"):
                R.fail("C10.waiter-wrong-error", f"caller ({c['kind']}) was cancelled by the library {ctxs}", exc="CancelledError")
                return
        # ---- 6. fair exclusion
        for a in atts:
            if not a["offered"] or not a["offered"][0]:
                if a["exc"] not in (None, "CancelledError"):
                    R.fail("C10.empty-host-list", f"attempt {a['n']} offered no address ({a['exc']}) {ctxs}")
                    return
        epochs = tr.advertised + [(float("inf"), [])]
        for (t_a, hosts), (t_b, _) in zip(epochs, epochs[1:]):
            # attempts that start at the very instant of a discovery update are ambiguous (before or after it?) and are left out
            fa = [a for a in atts if (t_a + EPS < a["start"] or t_a == 0.0 and not any(abs(tt) <= EPS for tt, _ in tr.advertised[1:])) and a["start"] < t_b - EPS]
            w = 2 * len(hosts) + 2
            seq = []
            for a in fa:
                if a["exc"] is None or a["exc"] not in CONNECT_LEVEL:
                    seq = []
                    continue
                seq.append(a)
                if len(seq) >= w:
                    win = seq[-w:]
                    offered = {h for x in win for call in x["offered"] for h in call}
                    missing = [h for h in hosts if h not in offered]
                    if missing:
                        R.fail("C10.address-excluded-forever", f"{w} consecutive failed attempts ({win[0]['n']}..{win[-1]['n']}, t={win[0]['start']:.1f}.."
                               f"{win[-1]['start']:.1f}) never offered {missing} of the advertised {hosts} {ctxs}")
                        return
    return judge


def run_case(case, R):
    script = case.get("script", [])
    classes = {("connect" if s in CONNECT_FAIL else "auth" if s in AUTH_OUTCOMES else "verify" if s in VERIFY_FAIL else s.split(":")[0]) for s in script}
    ops = [o[0] for o in case["ops"]]
    R.nt((len(script) >= 3 and len(classes) >= 2) or ("call" in ops and any(s not in SUCCESS for s in script)))
    for c in classes:
        R.cls("class:" + c)
    R.cls(f"hosts={len(case['hosts'])}")
    run_history(case, judge_factory(R, case), R)


REPS = ["refused", "hang", "close-after-m1", "reset-after-m3", "http-4xx", "wrong-id", "bad-sig", "error-m2:2", "error-m4:3", "garbage-m2",
        "ok", "ok-drop:0.5", "ok-drop-resub:fin", "ok-drop-resub:reset"]


def enum_scripts(tier):
    """Bounded exhaustive: every outcome script of length <= d over one representative per outcome class, in fixed event frames."""
    d = 3 if tier == "quick" else 4
    frames = [
        [["sub"], ["open"], ["adv", 3], ["call", "none"], ["adv", 30], ["adv", 100]],
        [["open"], ["adv", 0.3], ["soon"], ["adv", 2], ["zc", "same"], ["adv", 50], ["call", "5"], ["adv", 120]],
    ]
    # shutdown() suspended in its own awaits (a close() that races with a user is simply a pairing used again) while another user of the pairing (a poll, a subscribe, a discovery update) gets going
    for kind in ("shutdown",):
        for racer in ("call", "open", "sub", "zc"):
            yield {"hosts": ["main"], "script": ["ok", "ok", "ok"], "ops": [["open"], ["adv", 1], [kind, "racing", racer], ["adv", 100]]}
            yield {"hosts": ["main"], "script": ["refused", "refused", "ok", "ok"], "ops": [["call", "0.1"], ["adv", 0.3], [kind, "racing", racer], ["adv", 100]]}
            yield {"hosts": ["dead"], "script": [], "ops": [["call", "0.1"], ["adv", 2], [kind, "racing", racer], ["adv", 100]]}
    # the library itself gives a session up after a reply it cannot use; nothing else touches the pairing afterwards
    for kind in ("text", "bytes"):
        for opn in (["sub"], ["sub", [[2, 10]]]):
            yield {"hosts": ["main"], "script": ["ok", "ok"], "ops": [["open"], ["adv", 1], ["garble", kind], opn, ["adv", 100]]}
            yield {"hosts": ["main", "dead"], "script": ["ok", "refused", "ok"], "ops": [["sub"], ["open"], ["adv", 1], ["garble", kind], opn, ["adv", 130]]}
    for n in range(1, d + 1):
        for script in itertools.product(REPS, repeat=n):
            for fi, frame in enumerate(frames):
                if n == d and fi == 1 and tier == "quick":
                    continue
                yield {"hosts": ["main"], "script": list(script), "ops": frame}
    # long failure runs: the whole back-off schedule up to its cap and beyond
    for o in ALL_OUTCOMES:
        if o not in SUCCESS:
            yield {"hosts": ["main"], "script": [o] * 22, "ops": [["open"], ["adv", 700], ["call", "none"], ["adv", 100]], "max_iterations": 900_000}
    # multi-host frames
    hostsets = [["other", "main"], ["main", "other"], ["other", "dead"], ["dead", "other", "main"], ["blackhole", "main"], ["other", "other", "main"],
                ["dead", "dead"], ["other", "blackhole"]]
    # discovery updates that reshape the address list (drop / add / rotate / move) around attempts that reach another accessory: the bookkeeping of
    # addresses already found wrong must keep up with the list (a generated case of this shape was the only one to catch `seeded/C10-1`)
    zc_kinds = ["same", "rotate", "add", "port", "drop-first", "move-main"]
    for hs in (["blackhole", "other", "main"], ["dead", "other", "main"], ["other", "main"], ["other", "dead", "main"]):
        for x in zc_kinds:
            for y in zc_kinds:
                for script in (["hang-m1", "refused", "close-after-m1", "error-m2:6", "error-m4:2", "ok", "error-m2:6"], []):
                    yield {"hosts": hs, "script": script, "k": 1, "ops": [["open"], ["zc", x], ["dropold", "fin"], ["adv", 12], ["zc", y], ["adv", 60]]}
    # the third address of the pool is IPv6: stored in three non-canonical spellings, belonging to another accessory / dead / the paired one
    for sp in (1, 2, 3):
        for hs in (["main", "dead", "other"], ["dead", "main", "other"], ["dead", "dead", "main"], ["main", "main", "other"]):
            yield {"hosts": hs, "script": [], "spelling": sp, "ops": [["open"], ["adv", 100], ["drop", "fin"], ["adv", 200], ["zc", "same"], ["adv", 200]]}
    for hs in hostsets:
        for script in ([], ["refused"] * 12, ["bad-sig", "refused", "refused", "refused", "refused", "refused", "refused"], ["wrong-id", "refused"] * 6):
            yield {"hosts": hs, "script": script, "ops": [["open"], ["adv", 100], ["zc", "same"], ["adv", 400], ["zc", "move-main"], ["adv", 300]]}


@st.composite
def histories(draw):
    nh = draw(st.integers(1, 3))
    roles = [draw(st.sampled_from(["main", "main", "main", "other", "dead", "blackhole"])) for _ in range(nh)]
    if "main" not in roles and draw(st.integers(0, 3)) > 0:
        roles[draw(st.integers(0, nh - 1))] = "main"
    script = draw(st.lists(st.sampled_from(ALL_OUTCOMES + ["ok", "ok", "refused", "refused"]), min_size=0, max_size=14))
    ops = [draw(st.sampled_from([["open"], ["sub"], ["call", "none"]]))] + draw(st.lists(OPS, min_size=2, max_size=16))
    return {"hosts": roles, "script": script, "ops": ops, "k": draw(st.integers(0, 20)), "spelling": draw(st.sampled_from([0, 0, 1, 2, 3]))}


SPEC = Property(
    P, "fault_enumeration",
    rule=("address lists of 1..3 hosts (paired accessory / another accessory / refusing / black hole) x per-attempt outcome scripts over "
          f"{len(ALL_OUTCOMES)} outcomes x harness events {{caller request with own timeout 0.1/5/none or cancellation, subscribe, advance 0.1..61 s, "
          "zeroconf update (same / rotated / added / dropped address, changed port, accessory moved), reconnect_soon, peer FIN/reset, close, "
          "shutdown}}; every history ends with 200 virtual seconds of a healthy accessory. Bounded exhaustive over all outcome scripts of "
          "length <=3 (quick) / <=4 (thorough) over 14 representative outcomes in two event frames, 22-attempt failure runs for every "
          "failing outcome, multi-host frames; generated histories beyond. Non-trivial: >=3 scripted attempts with >=2 outcome classes, or "
          "a caller overlapping failing attempts."),
    layers=[
        Layer("outcome-scripts", run_case, enumerate=enum_scripts, exhaustive=True,
              space="14^1..14^3 scripts x 2 frames (quick: the longest scripts in one frame), 22-attempt runs, 8 host sets x 4 scripts", min_nontrivial=1500),
        Layer("generated", run_case, strategy=histories, n={"quick": 12000, "thorough": 150000}, min_nontrivial=500),
    ],
    assumptions=["bounded liveness on the virtual clock: next attempt within 60 s + epsilon, waiter within its own timeout or 40 s",
                 "the first attempt after an established session is lost may be immediate; the simulated accessory keeps a session for > 0 s",
                 "after close() only time passes; after shutdown() discovery updates are still delivered and must not wake anything",
                 "fair exclusion is judged on runs of consecutive attempts that failed at connection level or with a wrong pairing id",
                 "statement-level back-off bounds (>= 0.1 s, <= 60 s, non-decreasing, constant once repeated), not the tree's constants"],
    min_nontrivial=2000,
)

"""C02 - SRP-6a client values equal those of a spec-conformant accessory (DESIGN 4/C02)."""
import hashlib

from hypothesis import strategies as st

from aiohomekit.crypto.srp import SrpClient
from aiohomekit.protocol import perform_pair_setup_part2
from aiohomekit.protocol.tlv import TLV
from vlib import refhap
from vlib.refhap import PAD, SRP_G, SRP_N, SrpExchange
from vlib.runner import Layer, Property

P = "C02"
TARGETS = ["none", "A0", "B0", "S0", "K0", "M10", "M20", "A0+B0", "salt0"]


def client_with_secret(a, code):
    class _C(SrpClient):
        @staticmethod
        def generate_private_key():
            return a
    return _C("Pair-Setup", code)


class _Ex(SrpExchange):
    """SrpExchange with the verifier of (code, salt) computed once per case."""
    _cache = {}

    def __init__(self, code, salt, b, user="Pair-Setup"):
        key = (code, salt)
        if key not in _Ex._cache:
            _Ex._cache.clear()
            x = refhap.srp_x(user, code, salt)
            _Ex._cache[key] = (x, pow(SRP_G, x, SRP_N))
        self.user, self.code, self.salt, self.b = user, code, salt, b
        self.x, self.v = _Ex._cache[key]
        self.B = (refhap.SRP_K * self.v + pow(SRP_G, b, SRP_N)) % SRP_N


def mine(code, salt, a, b, target, limit=6000, mined=False):
    """Step the secrets deterministically until the leading-zero target holds (reference arithmetic only)."""
    if mined:
        ex = SrpExchange(code, salt, b)
        return a, b, ex.finish(pow(SRP_G, a, SRP_N)), 0
    def derive(i, what):
        return int.from_bytes(hashlib.sha256(f"{what}:{i}:{a}:{b}".encode()).digest()[:16], "big") | 1
    if target in ("none", "salt0"):
        ex = _Ex(code, salt, b)
        return a, b, ex.finish(pow(SRP_G, a, SRP_N)), 0
    want_a0 = target in ("A0", "A0+B0")
    tries = 0
    a2 = a
    if want_a0:
        for i in range(limit):
            tries += 1
            a2 = derive(i, "a")
            if PAD(pow(SRP_G, a2, SRP_N))[0] == 0:
                break
        else:
            return None
        if target == "A0":
            ex = _Ex(code, salt, b)
            return a2, b, ex.finish(pow(SRP_G, a2, SRP_N)), tries
    A = pow(SRP_G, a2, SRP_N)
    for i in range(limit):
        tries += 1
        b2 = derive(i, "b")
        ex = _Ex(code, salt, b2)
        if target in ("B0", "A0+B0"):
            if PAD(ex.B)[0] == 0:
                return a2, b2, ex.finish(A), tries
            continue
        ex.finish(A)
        hit = {"S0": PAD(ex.S)[0] == 0, "K0": ex.K[0] == 0, "M10": ex.M1[0] == 0, "M20": ex.M2[0] == 0}[target]
        if hit:
            return a2, b2, ex, tries
    return None


def run_case(case, R):
    code, salt, target = case["code"], bytes(case["salt"]), case["target"]
    mined = mine(code, salt, int(case["a"]), int(case["b"]), target, mined=bool(case.get("mined")))
    if mined is None:
        R.exclude("mining budget exhausted")
        return
    a, b, ex, tries = mined
    ex = SrpExchange(code, salt, b).finish(pow(SRP_G, a, SRP_N))      # the plain reference, recomputed without the cache
    hits = [n for n, v in (("A0", PAD(ex.A)[0] == 0), ("B0", PAD(ex.B)[0] == 0), ("S0", PAD(ex.S)[0] == 0), ("K0", ex.K[0] == 0),
                           ("M10", ex.M1[0] == 0), ("M20", ex.M2[0] == 0), ("salt0", salt[0] == 0)) if v]
    mode = case.get("mode", "client")
    R.nt(bool(hits) or mode in ("wrong-code", "flips"))
    for h in hits:
        R.cls("leading-zero:" + h)
    R.cls("mode:" + mode)
    R.note = {"code": code, "salt": salt.hex(), "a": a, "b": b, "hits": hits}
    ctx = f"code={code} salt={salt.hex()} a={a} b={b} hits={hits}"

    if mode == "part2":
        # through the protocol generator: M3 must carry PAD(A) and M1 byte-for-byte
        class _Patched(SrpClient):
            @staticmethod
            def generate_private_key():
                return a
        import aiohomekit.protocol as proto
        orig = proto.SrpClient
        proto.SrpClient = _Patched
        try:
            gen = perform_pair_setup_part2(code, "ios-id", bytearray(salt), bytearray(PAD(ex.B)))
            req, _ = gen.send(None)
        finally:
            proto.SrpClient = orig
        d = {t: bytes(v) for t, v in req}
        if d.get(TLV.kTLVType_PublicKey) != PAD(ex.A) or d.get(TLV.kTLVType_Proof) != ex.M1:
            R.fail("C02.m3-bytes", f"{ctx}: M3 PublicKey/Proof differ from PAD(A)/M1 (lens {len(d.get(3, b''))}, {len(d.get(4, b''))})")
        wire = refhap.tlv_dec(bytes(TLV.encode_list(req)))
        dd = dict(wire)
        if dd.get(3) != PAD(ex.A) or dd.get(4) != ex.M1 or dd.get(6) != b"\x03":
            R.fail("C02.m3-bytes", f"{ctx}: encoded M3 decodes to lens {len(dd.get(3, b''))}, {len(dd.get(4, b''))}")
        gen.close()
        return

    c = client_with_secret(a, code if mode != "wrong-code" else case["wrong"])
    salt_arg = bytearray(salt) if case.get("salt_as", "bytes") == "bytes" else int.from_bytes(salt, "big")
    c.set_salt(salt_arg)
    c.set_server_public_key(bytearray(PAD(ex.B)) if case.get("b_as", "bytearray") == "bytearray" else PAD(ex.B))
    if mode == "wrong-code":
        if case["wrong"] == code:
            R.exclude("wrong code equals code")
            return
        m1 = bytes(c.get_proof_bytes())
        if m1 == ex.M1:
            R.fail("C02.wrong-code-accepted", f"{ctx}: client with code {case['wrong']} produced the proof of code {code}")
        if bytes(c.get_session_key_bytes()) == ex.K:
            R.fail("C02.wrong-code-accepted", f"{ctx}: client with code {case['wrong']} derived the accessory's K")
        if c.verify_servers_proof_bytes(ex.M2):
            R.fail("C02.wrong-code-accepted", f"{ctx}: client with wrong code accepted the accessory's M2")
        return
    if bytes(c.get_public_key_bytes()) != PAD(ex.A):
        R.fail("C02.public-key", f"{ctx}: A differs (len {len(c.get_public_key_bytes())})")
        return
    if bytes(c.get_session_key_bytes()) != ex.K:
        R.fail("C02.session-key", f"{ctx}: K differs", hits="+".join(hits))
        return
    if bytes(c.get_proof_bytes()) != ex.M1:
        R.fail("C02.proof", f"{ctx}: M1 differs", hits="+".join(hits))
        return
    if not c.verify_servers_proof_bytes(ex.M2):
        R.fail("C02.server-proof-rejected", f"{ctx}: correct M2 rejected", hits="+".join(hits))
        return
    if mode == "flips":
        n = 0
        for bit in range(512):
            m = bytearray(ex.M2)
            m[bit // 8] ^= 1 << (bit % 8)
            n += 1
            if c.verify_servers_proof_bytes(bytes(m)):
                R.fail("C02.corrupt-proof-accepted", f"{ctx}: M2 with bit {bit} flipped accepted")
                break
        other = SrpExchange(code, salt, b + 2).finish(ex.A)
        if c.verify_servers_proof_bytes(other.M2):
            R.fail("C02.corrupt-proof-accepted", f"{ctx}: M2 of another exchange accepted")
        # truncations: every proper prefix and every proper suffix (a suffix that only drops zero bytes is the same number and is
        # tolerated, as is padding with leading zeros - the tree compares proofs as integers)
        cands = [b"", bytes(64), ex.M1] + [ex.M2[:n] for n in range(1, 64)] + [ex.M2[n:] for n in range(1, 64)] + [ex.M2 + b"\x00", ex.M2 * 2]
        for bad in cands:
            n += 1
            if bad != ex.M2 and c.verify_servers_proof_bytes(bad) and int.from_bytes(bad, "big") != int.from_bytes(ex.M2, "big"):
                R.fail("C02.corrupt-proof-accepted", f"{ctx}: bogus proof of {len(bad)} bytes ({bad.hex()[:40]}..) accepted",
                       kind="suffix" if bad and ex.M2.endswith(bad) else "prefix" if bad and ex.M2.startswith(bad) else "other")
                break
        R.sub = n


CODES = st.one_of(st.sampled_from(["000-00-000", "111-11-111", "123-45-678", "999-99-999", "031-45-154"]),
                  st.tuples(st.integers(0, 999), st.integers(0, 99), st.integers(0, 999)).map(lambda t: "%03d-%02d-%03d" % t))
SECRETS = st.one_of(st.integers(1, 2**128 - 1), st.sampled_from([1, 2, 2**127, 2**128 - 1, 255, 256]))


@st.composite
def salts(draw):
    s = draw(st.binary(min_size=16, max_size=16))
    z = draw(st.sampled_from([0, 0, 0, 1, 2, 15, 16]))
    return bytes(z) + s[z:]


@st.composite
def cases(draw, targets=("none",) * 8 + ("salt0",) * 4 + ("A0", "B0"), modes=("client", "client", "flips", "wrong-code", "part2")):
    case = {"code": draw(CODES), "salt": draw(salts()), "a": draw(SECRETS), "b": draw(SECRETS),
            "target": draw(st.sampled_from(targets)), "mode": draw(st.sampled_from(modes)),
            "salt_as": draw(st.sampled_from(["bytes", "bytes", "int"])), "b_as": draw(st.sampled_from(["bytearray", "bytes"]))}
    if case["target"] == "salt0" and case["salt"][0] != 0:
        case["salt"] = b"\x00" + case["salt"][1:]
    if case["mode"] == "wrong-code":
        case["wrong"] = draw(CODES)
    return case


def enum_corpus(tier):
    """Exchanges mined earlier by this same search (data/c02_corpus.json); the targets are re-verified with the reference
    arithmetic when the case runs, nothing is assumed about them."""
    import json
    import os
    path = os.path.join(os.path.dirname(os.path.dirname(os.path.abspath(__file__))), "data", "c02_corpus.json")
    if not os.path.exists(path):
        return
    for i, e in enumerate(json.load(open(path))):
        yield {"code": e["code"], "salt": bytes.fromhex(e["salt"]), "a": e["a"], "b": e["b"], "target": "none", "mined": True,
               "mode": ["client", "part2", "flips", "client"][i % 4], "salt_as": ["bytes", "int"][i % 2], "b_as": ["bytearray", "bytes"][(i // 2) % 2]}


def enum_targets(tier):
    """Directed search: for every leading-zero target a fixed number of independently seeded exchanges."""
    import os
    seed = int(os.environ.get("VERIF_SEED") or 1)
    per = 1 if tier == "quick" else 40
    i = 0
    for t in TARGETS:
        for k in range(per):
            i += 1
            yield {"code": "%03d-%02d-%03d" % ((k * 37) % 1000, (k * 11) % 100, (i * 53) % 1000),
                   "salt": (b"\x00" * (k % 3 if t != "salt0" else 1 + k % 15) + hashlib.sha256(b"salt%d" % i).digest())[:16],
                   "a": 1000 + i + 100000 * seed, "b": 5000 + i + 100000 * seed, "target": t, "mode": ["client", "part2", "client"][k % 3],
                   "salt_as": "bytes", "b_as": "bytearray"}


def _c03(name):
    import props.c03 as c03
    return getattr(c03, name)


def run_setup_corpus(case, R):
    """The byte-level use of the SRP values in pair-setup (anchor protocol/__init__.py): the mined exchanges as complete pair-setups."""
    _c03("run_corpus")(case, R)


def run_setup_restart(case, R):
    _c03("run_e2e")(case, R)


def run_setup_fault(case, R):
    """'the controller accepts the accessory's proof if and only if it is the correct one', at the place where the proof is consumed: the M2/M4
    families of C03 (missing, flipped, truncated, foreign proof; honest replies through every transport, fragmented on BLE)."""
    _c03("run_e2e" if "transport" in case else "run_case")(case, R)


def enum_setup_faults(tier):
    for c in _c03("enum_families")(tier):
        if c["fault"][0] in ("none", "wrong-code") or c["fault"][0].startswith(("m2-", "m4-")):
            yield c
    for c in _c03("enum_e2e")(tier):
        if c["fault"][0] == "none":
            yield c
            if c["transport"] == "ble":
                yield dict(c, pieces=60, att=100)
    # replies that carry an item the step does not know in front of the 384-byte public value / the proof (to be ignored: B and M2 arrive whole)
    for c in _c03("enum_strangers")(tier):
        if c["fault"][0] in ("none", "m4-flip"):
            yield c
    # the replies that carry B and M2 in two TCP segments / chunked
    for c in _c03("enum_second_attempts")(tier):
        if c.get("framing"):
            yield c


SPEC = Property(
    P, "exploration",
    rule=("setup code (all ddd-dd-ddd shapes) x 16-byte salt (random, 1..16 leading zero bytes) x client/server secrets (128-bit and "
          "small), with a deterministic directed search that steps the secrets until PAD(A), PAD(B), PAD(S), K, M1 or M2 starts with "
          "0x00; modes: client API comparison, all 512 single-bit flips of M2, every proper prefix and suffix of M2, M2 of another exchange, wrong setup code, the "
          "M3 message of perform_pair_setup_part2, the mined exchanges as complete pair-setups (K used byte-for-byte in M5/M6), and BLE pairings that start over.  Non-trivial: the exchange hits at least one leading-zero target, or is a "
          "corrupted-proof / wrong-code case."),
    layers=[
        Layer("mined-corpus", run_case, enumerate=enum_corpus, exhaustive=False,
              space="previously mined leading-zero exchanges, every target re-verified by the reference", min_nontrivial=40),
        Layer("directed-leading-zero", run_case, enumerate=enum_targets, exhaustive=False,
              space="9 targets x 1 (quick) / 40 (thorough) freshly mined exchanges, seeds derived from VERIF_SEED", min_nontrivial=5),
        Layer("mined-corpus-pair-setup", run_setup_corpus, enumerate=lambda tier: _c03("enum_corpus")(tier), exhaustive=False,
              space="the mined leading-zero exchanges as complete pair-setup exchanges against the reference accessory (it must accept M3 and decrypt/verify M5), decode styles ip and ble"),
        Layer("proof-in-pair-setup", run_setup_fault, enumerate=enum_setup_faults, exhaustive=False,
              space="C03's M2/M4 fault families (proof missing, flipped, truncated, of another exchange, wrong code) at generator level, and honest pair-setups through the three transports (BLE also with fragmented replies)"),
        Layer("restarted-exchanges", run_setup_restart, enumerate=lambda tier: _c03("enum_retry")(tier), exhaustive=False,
              space="BLE pairing restarted after a link drop or a mistyped code: the proof of every restarted exchange must be the one for the accessory's new salt and B"),
        Layer("generated", run_case, strategy=cases, n={"quick": 192}, tiers=("quick",), min_nontrivial=40),
        Layer("generated-all-targets", run_case, strategy=lambda: cases(targets=("none",) * 6 + ("salt0",) * 3 + tuple(TARGETS[1:8]) * 2),
              n={"thorough": 6000}, tiers=("thorough",), min_nontrivial=1000),
    ],
    assumptions=["reference SRP-6a arithmetic on Python integers in vlib/refhap.py (k = H(N|PAD(g)) computed)",
                 "a conformant accessory sends B as PAD(B) (384 bytes) and a 16-byte salt"],
    min_nontrivial=100,
)

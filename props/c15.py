"""C15 - pairing TLV codec: round trip, canonical bytes, total decoder (DESIGN 4/C15)."""
import itertools

from hypothesis import strategies as st

from aiohomekit.protocol.tlv import TLV, TlvParseException
from vlib import refhap
from vlib.runner import Layer, Property

P = "C15"
LENS = sorted({0, 1, 2, 3, 253, 254, 255, 256, 257, 258, 508, 509, 510, 511, 512, 764, 765, 766, 767})


def pattern(t, n, salt=0):
    return bytes((i * 7 + t + salt * 13 + n) & 0xFF for i in range(n))


def norm(result):
    return [(int(t), bytes(v)) for t, v in result]


# ---------------------------------------------------------------- item-list round trip
def check_list(items, R, expected=None):
    """items: list of (type, bytes); adjacent items have different types."""
    items = [(int(t), bytes(v)) for t, v in items]
    R.nt(any(len(v) >= 255 or len(v) == 0 or t == 255 for t, v in items))
    if any(len(v) >= 255 for _, v in items):
        R.cls("value>=255")
    if any(len(v) == 0 and t != 255 for t, v in items):
        R.cls("zero-length value")
    if any(t == 255 for t, _ in items):
        R.cls("separator")
    ref = refhap.tlv_enc(items)
    for variant in ("bytes", "bytearray"):
        arg = [[t, (bytearray(v) if variant == "bytearray" else v)] for t, v in items]
        try:
            got = bytes(TLV.encode_list(arg))
        except Exception as e:  # noqa: BLE001
            R.fail("C15.encode-raises", f"encode_list({items!r:.300}) raised {type(e).__name__}: {e}", exc=type(e).__name__)
            return
        if got != ref:
            zero = any(len(v) == 0 and t != 255 for t, v in items)
            R.fail("C15.encode-not-canonical",
                   f"encode_list gave {got.hex()[:200]} reference {ref.hex()[:200]} for {items!r:.300}",
                   kind="zero-length-dropped" if zero and got == refhap.tlv_enc([(t, v) for t, v in items if v or t == 255]) else "other")
            return
    # the reference peer accepts the bytes and sees the same list
    assert refhap.tlv_dec(ref) == items, "reference codec self-check"
    for fn in (TLV.decode_bytes, lambda b, e=None: TLV.decode_bytearray(bytearray(b), e)):
        try:
            back = norm(fn(ref))
        except Exception as e:  # noqa: BLE001
            R.fail("C15.decode-raises-on-canonical", f"decode of canonical {ref.hex()[:200]} raised {type(e).__name__}: {e}", exc=type(e).__name__)
            return
        if back != items:
            R.fail("C15.roundtrip", f"decode(encode(x)) = {back!r:.300} for x = {items!r:.300}")
            return
    if expected is not None:
        # What the filter may return for a well-formed message: items of expected types only, in wire order, nothing invented; at least everything in
        # front of the first item of another type.  (Whether well-formed items of other types end the message or are skipped is the tree's choice:
        # it skipped nothing before the repair recorded as section 6 item 26 and skips them since.)
        prefix = []
        for t, v in items:
            if t not in expected:
                break
            prefix.append((t, v))
        wanted = [(t, v) for t, v in items if t in expected]
        try:
            back = norm(TLV.decode_bytes(ref, list(expected)))
        except Exception as e:  # noqa: BLE001
            R.fail("C15.filter-raises", f"{type(e).__name__}: {e}", exc=type(e).__name__)
            return
        it = iter(wanted)
        is_subseq = all(any(x == y for y in it) for x in back)
        if back[:len(prefix)] != prefix or not is_subseq:
            R.fail("C15.filter", f"expected={sorted(expected)} got {back!r:.300}; items of expected types {wanted!r:.300}, leading ones {prefix!r:.200}")
        R.cls("filter cuts" if len(prefix) < len(items) else "filter passes all", "filter:skips-others" if back == wanted and len(prefix) < len(wanted) else "filter:other")


def run_items(case, R):
    check_list(case["items"], R, set(case["expected"]) if case.get("expected") else None)


def enum_grid(tier):
    types = [0, 1, 5, 6, 7, 10, 254]
    # single items: every type in a small set x every boundary length
    for t in types:
        for n in LENS:
            yield {"items": [(t, pattern(t, n))]}
    # pairs of different types, all boundary length pairs
    for (t1, t2) in [(1, 2), (6, 7), (3, 5), (0, 254)]:
        for n1 in LENS:
            for n2 in LENS:
                yield {"items": [(t1, pattern(t1, n1)), (t2, pattern(t2, n2, 1))]}
    # equal-typed neighbours kept apart by a separator
    for t in (1, 6, 254):
        for n1 in LENS:
            for n2 in LENS:
                yield {"items": [(t, pattern(t, n1)), (255, b""), (t, pattern(t, n2, 1))]}
    # all 256 types with short and long values
    for t in range(255):
        for n in (0, 1, 255, 256):
            yield {"items": [(t, pattern(t, n))]}
    yield {"items": []}
    yield {"items": [(255, b"")]}


@st.composite
def item_lists(draw, with_filter=False):
    n = draw(st.integers(0, 6))
    items = []
    for _ in range(n):
        t = draw(st.one_of(st.sampled_from([0, 1, 2, 3, 4, 5, 6, 7, 10, 12, 13, 14]), st.integers(0, 254)))
        ln = draw(st.one_of(st.sampled_from(LENS), st.integers(0, 40), st.integers(0, 2000)))
        v = draw(st.binary(min_size=ln, max_size=ln)) if ln <= 64 else pattern(t, ln, draw(st.integers(0, 255)))
        if items and items[-1][0] == t:
            items.append((255, b""))
        items.append((t, v))
    case = {"items": items}
    if with_filter:
        present = sorted({t for t, _ in items}) or [1]
        exp = draw(st.sets(st.one_of(st.sampled_from(present), st.integers(0, 255)), min_size=1, max_size=8))
        case["expected"] = sorted(exp)
    return case


# ---------------------------------------------------------------- arbitrary bytes
def check_bytes(b, R, nt=True):
    b = bytes(b)
    try:
        walk = refhap.tlv_walk(b)
        short = False
    except refhap.RefTlvError:
        walk, short = None, True
    canonical = (not short) and refhap.tlv_enc(refhap.tlv_dec(b)) == b and \
        all(not (i and x[0] == walk[i - 1][0] and len(walk[i - 1][1]) != 255) for i, x in enumerate(walk))
    if nt:
        R.nt(not canonical)
    R.cls("bytes:runs-short" if short else ("bytes:canonical" if canonical else "bytes:walkable-noncanonical"))
    for name, fn in (("decode_bytes", lambda: TLV.decode_bytes(b)),
                     ("decode_bytearray", lambda: TLV.decode_bytearray(bytearray(b)))):
        try:
            got = fn()
        except TlvParseException:
            if canonical:
                R.fail("C15.decode-raises-on-canonical", f"{name}({b.hex()[:200]}) raised TlvParseException on a canonical encoding")
            continue
        except Exception as e:  # noqa: BLE001
            R.fail("C15.decode-foreign-exception", f"{name}({b.hex()[:200]}) raised {type(e).__name__}: {e}",
                   exc=type(e).__name__, shape="error-item-empty" if (not short and any(t == 7 and not v for t, v in walk)) else ("runs-short" if short else "other"))
            continue
        if short:
            R.fail("C15.decode-short-value", f"{name}({b.hex()[:200]}) returned {got!r:.200} although the input runs short")
            continue
        if refhap.tlv_runs(norm(got)) != refhap.tlv_runs(walk):
            R.fail("C15.decode-wrong-content", f"{name}({b.hex()[:200]}) returned {got!r:.200}, walk {walk!r:.200}")
    # the input buffer must not be consumed
    ba = bytearray(b)
    try:
        TLV.decode_bytearray(ba)
    except Exception:  # noqa: BLE001
        pass
    if bytes(ba) != b:
        R.fail("C15.decode-mutates-input", f"decode_bytearray changed its argument for {b.hex()[:200]}")
    canary(R, f"after decoding {b.hex()[:60]}")


CANARY_ITEMS = [(6, b"\x03"), (1, b"ab"), (255, b""), (1, b"cd"), (255, b""), (3, bytes(300))]
CANARY_BYTES = refhap.tlv_enc(CANARY_ITEMS)


def canary(R, when):
    """Nothing a codec call does may change what later calls return (module- or class-level state): a fixed message with separators is
    encoded and decoded again after every case."""
    try:
        enc = bytes(TLV.encode_list([(t, bytearray(v)) if i % 2 else (t, v) for i, (t, v) in enumerate(CANARY_ITEMS)]))
        dec = norm(TLV.decode_bytes(CANARY_BYTES))
        sep = (TLV.kTLVType_Separator_Pair[0], bytes(TLV.kTLVType_Separator_Pair[1])) if hasattr(TLV, "kTLVType_Separator_Pair") else (255, b"")
    except Exception as e:  # noqa: BLE001
        R.fail("C15.state-leak", f"{when}: the fixed message no longer encodes/decodes: {type(e).__name__}: {e}", exc=type(e).__name__)
        return
    if enc != CANARY_BYTES or refhap.tlv_runs(dec) != refhap.tlv_runs(CANARY_ITEMS) or sep != (255, b""):
        R.fail("C15.state-leak", f"{when}: the fixed message now encodes to {enc.hex()[:80]} / decodes to {dec!r:.160}; separator constant {sep!r}", exc="none")


def run_bytes(case, R):
    check_bytes(case["b"], R)


def run_bytes_batch(case, R):
    pre = bytes(case["prefix"])
    for x in range(256):
        check_bytes(pre + bytes([x]), R)
    R.nt()
    R.sub = 255


def enum_short(tier):
    yield {"b": b""}
    for a in range(256):
        yield {"b": bytes([a])}
    for a, b in itertools.product(range(256), repeat=2):
        yield {"b": bytes([a, b])}


def enum_adjacent(tier):
    """Two adjacent items of the same type with lengths 0..2 each (a decoder merges them), for every type incl. the separator; then a third item."""
    for t in (0, 1, 6, 7, 254, 255):
        for n1 in range(3):
            for n2 in range(3):
                body = bytes([t, n1]) + b"AB"[:n1] + bytes([t, n2]) + b"CD"[:n2]
                yield {"b": body}
                yield {"b": body + bytes([1, 1, 0x45])}
                yield {"b": bytes([6, 1, 2]) + body}


def enum_len3(tier):
    for a, b in itertools.product(range(256), repeat=2):
        yield {"prefix": bytes([a, b])}


@st.composite
def byte_strings(draw):
    mode = draw(st.integers(0, 3))
    if mode == 0:
        return {"b": draw(st.binary(max_size=600))}
    base = bytearray(refhap.tlv_enc(draw(item_lists())["items"]))
    if mode == 1 and base:   # truncate
        k = draw(st.integers(0, len(base)))
        return {"b": bytes(base[:k])}
    nmut = draw(st.integers(1, 3))
    for _ in range(nmut):
        if not base:
            base += draw(st.binary(min_size=1, max_size=4))
            continue
        pos = draw(st.integers(0, len(base) - 1))
        op = draw(st.integers(0, 2))
        if op == 0:
            base[pos] = draw(st.integers(0, 255))
        elif op == 1:
            base.insert(pos, draw(st.integers(0, 255)))
        else:
            del base[pos]
    return {"b": bytes(base)}


from props.ble_layers import C15_BLE_LAYERS  # noqa: E402
from props.coap_layers import C15_COAP_LAYERS, C15_IP_LAYERS  # noqa: E402


def fuzz_target(data, R):
    check_bytes(data, R, nt=False)


def run_fuzz(case, R):
    """Coverage-guided mutation (atheris/libFuzzer) with the same oracle inside the target; a failing input is re-judged here."""
    import os

    from vlib.fuzzdrv import run_campaign
    corpus = [] if case["corpus"] == "empty" else [refhap.tlv_enc(c["items"]) for c in list(enum_grid("quick"))[::97]]
    execs, data, failures = run_campaign(R, "props.c15", "fuzz_target", case["runs"], int(os.environ.get("VERIF_SEED") or 1), corpus)
    R.sub = max(0, execs - 1)
    R.nt()
    R.cls("atheris:" + case["corpus"])
    if data is not None:
        check_bytes(data, R)
        if not R.failures:
            R.fail("C15.fuzz-unreproducible", f"atheris reported {failures!r:.300} for {data.hex()[:200]} but the oracle passes on replay")

SPEC = Property(
    P, "exploration",
    rule=("item lists over types 0..255 with value lengths from the boundary grid "
          f"{LENS} and random <=2000 (equal-typed neighbours separated by a separator item), optional expected-type "
          "filter; arbitrary byte strings (every string of length <=2 in quick, <=3 in thorough; random and mutated "
          "encodings beyond). Non-trivial: an item list with a value >=255 bytes, a zero-length value or a separator; "
          "a byte string that is not a canonical encoding. Distinct = distinct canonical JSON of the case."),
    layers=[
        Layer("roundtrip-grid", run_items, enumerate=enum_grid, exhaustive=True,
              space="7 types x 19 boundary lengths; 4 type pairs x 19^2; 3 types x 19^2 with separator; 255 types x 4 lengths", min_nontrivial=500),
        Layer("roundtrip-gen", run_items, strategy=item_lists, n={"quick": 6000, "thorough": 60000}, min_nontrivial=100),
        Layer("filter-gen", run_items, strategy=lambda: item_lists(with_filter=True), n={"quick": 4000, "thorough": 40000}),
        Layer("bytes-le2", run_bytes, enumerate=enum_short, exhaustive=True, space="all 65,793 byte strings of length 0..2", min_nontrivial=60000),
        Layer("bytes-len3", run_bytes_batch, enumerate=enum_len3, exhaustive=True, tiers=("thorough",),
              space="all 16,777,216 byte strings of length 3 (one case = one 2-byte prefix x 256 last bytes)"),
        Layer("bytes-adjacent-same-type", run_bytes, enumerate=enum_adjacent, exhaustive=True, space="6 types x lengths 0..2 x 0..2 of two adjacent equal-typed items, bare / followed / preceded by another item"),
        Layer("bytes-gen", run_bytes, strategy=byte_strings, n={"quick": 12000, "thorough": 200000}, min_nontrivial=500),
        *C15_BLE_LAYERS,
        *C15_COAP_LAYERS,
        *C15_IP_LAYERS,
        Layer("bytes-atheris", run_fuzz, enumerate=lambda tier: iter([{"corpus": "empty", "runs": 1000000}, {"corpus": "seeded", "runs": 1000000}]), tiers=("thorough",),
              space="two libFuzzer campaigns of 1M executions (empty corpus / corpus of valid encodings), oracle inside the target"),
    ],
    assumptions=["reference TLV8 codec in vlib/refhap.py written from HAP R2 5.15",
                 "how non-canonical input is grouped into items is not constrained (only its per-type byte runs)"],
    min_nontrivial=1000,
)

"""C01 - pair-verify yields session keys only for the authentic paired accessory (DESIGN 4/C01)."""
import contextlib
import hashlib
import os
import types

from cryptography.hazmat.primitives.asymmetric import x25519 as real_x25519
from hypothesis import strategies as st

import aiohomekit.protocol as proto
from aiohomekit.protocol import get_session_keys
from aiohomekit.protocol.tlv import TLV
from vlib import refhap
from vlib.refhap import (T_ENC, T_ID, T_METHOD, T_PK, T_SESSIONID, T_SIG, T_STATE, RefIdentity, RefPairVerify, aead_enc, ed_from_seed,
                         ed_pub, hkdf_sha512, nonce, tlv_enc)
from vlib.runner import Layer, Property

P = "C01"
SEED = int(os.environ.get("VERIF_SEED") or 1)


def h(*parts) -> bytes:
    return hashlib.sha256(repr(parts).encode()).digest()


@contextlib.contextmanager
def ephemeral(seed32: bytes):
    """Route the controller's X25519 ephemeral key to a generated value (harness-level rebinding, DESIGN 2.3)."""
    calls = []

    class _Priv:
        @staticmethod
        def generate():
            calls.append(1)        # every call yields another key, as the real generator does
            return real_x25519.X25519PrivateKey.from_private_bytes(seed32 if len(calls) == 1 else h(seed32, len(calls)))
    shim = types.SimpleNamespace(X25519PrivateKey=_Priv, X25519PublicKey=real_x25519.X25519PublicKey)
    orig = proto.x25519
    proto.x25519 = shim
    try:
        yield
    finally:
        proto.x25519 = orig


def decode_as(transport, raw, expected):
    """Decode reply bytes the way the transport does (IP/CoAP: with the step's expected list; BLE: without)."""
    if transport == "ble":
        return TLV.decode_bytes(raw)
    return TLV.decode_bytes(raw, expected=expected)


class World:
    def __init__(self, case):
        self.acc_id = case["acc_id"].encode() if isinstance(case["acc_id"], str) else bytes(case["acc_id"])
        self.ios_id = case["ios_id"]
        self.ident = RefIdentity(self.acc_id, h("acc-ltsk", case["k"]))
        self.ios_seed = h("ios-ltsk", case["k"])
        self.ios_ltpk = ed_pub(ed_from_seed(self.ios_seed))
        self.ident.controllers[self.ios_id.encode()] = self.ios_ltpk
        self.pairing_data = {"AccessoryPairingID": self.acc_id.decode(), "AccessoryLTPK": self.ident.ltpk.hex(),
                             "iOSPairingId": self.ios_id, "iOSDeviceLTSK": self.ios_seed.hex(), "iOSDeviceLTPK": self.ios_ltpk.hex()}


def run_exchange(world, k, transport, m2_hook=None, session_id=None, derive=None, allow_resume=True, m4_items=None):
    """Drive the real generator against the reference accessory.  m2_hook(acc, honest_items) -> raw reply bytes."""
    acc = RefPairVerify(world.ident, h("acc-eph", k), allow_resume=allow_resume)
    out = {"acc": acc, "yielded_m3": False, "result": None, "exc": None}
    with ephemeral(h("ios-eph", k)):
        g = get_session_keys(world.pairing_data, session_id, derive)
        try:
            req, exp = g.send(None)
            m1 = refhap.tlv_dec(bytes(TLV.encode_list(req)))
            out["m1"] = m1
            honest = acc.handle_m1(m1)
            raw = m2_hook(acc, honest) if m2_hook else tlv_enc(honest)
            out["m2_raw"] = raw
            req, exp = g.send(decode_as(transport, raw, exp))
            out["yielded_m3"] = True
            m4 = acc.handle_m3(refhap.tlv_dec(bytes(TLV.encode_list(req))))
            if m4_items is not None:
                m4 = m4_items
            req, exp = g.send(decode_as(transport, tlv_enc(m4), exp))
            out["exc"] = RuntimeError("generator yielded a fourth request")
        except StopIteration as r:
            out["result"] = r.value
        except Exception as e:  # noqa: BLE001  any exception = "fails with an error"
            out["exc"] = e
    return out


def check_honest(R, world, out, what):
    """Clause (b): accepted by the reference, identical keys, session id known."""
    acc = out["acc"]
    if out["exc"] is not None or out["result"] is None:
        R.fail("C01.honest-rejected", f"{what}: honest accessory, controller failed with {type(out['exc']).__name__}: {out['exc']}",
               exc=type(out["exc"]).__name__)
        return None
    if not acc.verified:
        R.fail("C01.controller-proof-rejected", f"{what}: reference accessory rejected the controller's M3: {acc.m3_error}")
        return None
    try:
        sid, derive = out["result"]
    except Exception as e:  # noqa: BLE001
        R.fail("C01.result-shape", f"{what}: result {out['result']!r:.100}: {e}")
        return None
    for salt, info in ((b"Control-Salt", b"Control-Write-Encryption-Key"), (b"Control-Salt", b"Control-Read-Encryption-Key"),
                       (b"Event-Salt", b"Event-Read-Encryption-Key")):
        if bytes(derive(salt, info)) != acc.key(salt, info):
            R.fail("C01.keys-differ", f"{what}: derive({salt}, {info}) differs from the accessory's HKDF output", resumed=acc.resumed)
            return None
    if bytes(sid) not in world.ident.sessions or world.ident.sessions[bytes(sid)] != acc.shared:
        R.fail("C01.session-id", f"{what}: session id {bytes(sid).hex()} not the one the accessory stored", resumed=acc.resumed)
        return None
    return bytes(sid), derive


def check_rejected(R, out, what, family):
    """Clause (a): a proof-breaking reply must end in an exception and yield nothing."""
    if out["result"] is not None:
        R.fail("C01.forged-reply-accepted", f"{what}: keys returned", family=family)
    elif out["yielded_m3"] and out["exc"] is None:
        R.fail("C01.forged-reply-accepted", f"{what}: controller continued", family=family)
    elif out["yielded_m3"] and family not in ("m4",):
        # the controller answered a forged M2 with its own proof: the forgery was accepted
        R.fail("C01.forged-reply-accepted", f"{what}: controller sent M3 after a forged M2 (then {type(out['exc']).__name__})", family=family)
    elif out["exc"] is None:
        R.fail("C01.forged-reply-accepted", f"{what}: no error", family=family)


# ---------------------------------------------------------------- fault application
def flip(b: bytes, bit: int) -> bytes:
    b = bytearray(b)
    bit %= max(1, len(b) * 8)
    b[bit // 8] ^= 1 << (bit % 8)
    return bytes(b)


def subst(b: bytes, pos: int, val: int) -> bytes:
    b = bytearray(b)
    pos %= max(1, len(b))
    b[pos] = val if b[pos] != val else (val + 1) & 0xFF
    return bytes(b)


PERMS = [(0, 2, 1), (1, 0, 2), (1, 2, 0), (2, 0, 1), (2, 1, 0)]    # orders of (accPK, id, iosPK) other than the correct one
BREAKING = {"flip", "subst", "drop", "flip-inner", "subst-inner", "drop-inner", "wrong-ltsk", "wrong-id", "transcript", "replay-exchange",
            "mitm-inner", "pk-len", "truncate", "wrong-enc-key", "wrong-label", "dup-adjacent", "id-case"}
# dup-inner-other: which copy of a duplicated field a decoder keeps is its own business; either outcome, but a success must be genuine
PRESERVING = {"none", "reorder", "dup", "drop-state", "reorder-inner", "dup-inner", "dup-inner-other"}


def make_m2(world, k, fault):
    """Returns hook(acc, honest_items) -> bytes for the fault."""
    name = fault[0]

    def hook(acc, honest):
        items = list(honest)
        d = dict(items)
        if name == "none":
            return tlv_enc(items)
        if name in ("flip", "subst"):
            field = {"pk": T_PK, "enc": T_ENC, "state": T_STATE}[fault[1]]
            new = flip(d[field], fault[2]) if name == "flip" else subst(d[field], fault[2], fault[3])
            return tlv_enc([(t, new if t == field else v) for t, v in items])
        if name == "drop":
            field = {"pk": T_PK, "enc": T_ENC}[fault[1]]
            return tlv_enc([(t, v) for t, v in items if t != field])
        if name == "drop-state":
            return tlv_enc([(t, v) for t, v in items if t != T_STATE])
        if name == "reorder":
            return tlv_enc(list(reversed(items)))
        if name == "dup":          # verbatim, non-adjacent
            i = fault[1] % len(items)
            return tlv_enc(items + [items[i]] if i != len(items) - 1 else [items[i]] + items)
        if name == "dup-adjacent":  # adjacent equal-typed fragments merge: the value changes
            field = {"pk": T_PK, "enc": T_ENC}[fault[1]]
            out = []
            for t, v in items:
                out.append((t, v))
                if t == field:
                    out.append((t, v))
            return tlv_enc(out)
        if name == "truncate":
            raw = tlv_enc(items)
            n = 1 + fault[1] % (len(raw) - 1)
            return raw[:n]
        if name == "pk-len":
            n = fault[1]
            new = bytes(32) if n == "zero" else (d[T_PK] + b"\x00")[:n] if n <= 33 else d[T_PK]
            return tlv_enc([(t, new if t == T_PK else v) for t, v in items])
        if name == "replay-exchange":
            # the whole M2 of an honest exchange with another controller ephemeral key
            other = RefPairVerify(world.ident, h("acc-eph", k, "other"))
            other_ios = refhap.x_pub(refhap.x_from_seed(h("ios-eph", k, "other")))
            return tlv_enc(other.handle_m1([(T_STATE, b"\x01"), (T_PK, other_ios)]))
        # inner faults: the sub-TLV is rebuilt and encrypted under this exchange's key
        inner = acc.inner_m2()
        di = dict(inner)
        enc_key, label = None, b"PV-Msg02"
        if name in ("flip-inner", "subst-inner"):
            field = {"id": T_ID, "sig": T_SIG}[fault[1]]
            new = flip(di[field], fault[2]) if name == "flip-inner" else subst(di[field], fault[2], fault[3])
            inner = [(t, new if t == field else v) for t, v in inner]
        elif name == "drop-inner":
            field = {"id": T_ID, "sig": T_SIG}[fault[1]]
            inner = [(t, v) for t, v in inner if t != field]
        elif name == "reorder-inner":
            inner = list(reversed(inner))
        elif name == "dup-inner":
            inner = inner + [inner[0]]
        elif name == "dup-inner-other":
            # a second Identifier / Signature with another value, placed after (or before) the genuine ones
            extra = [(T_ID, b"99:99:99:99:99:99"), (T_SIG, bytes(64))][fault[1] % 2]
            inner = inner + [extra] if fault[1] & 2 else [extra] + inner
        elif name == "wrong-ltsk":
            inner = acc.inner_m2(sign_key=ed_from_seed(h("mallory", k)))
        elif name == "wrong-id":
            inner = acc.inner_m2(ident_id=fault[1].encode() if isinstance(fault[1], str) else bytes(fault[1]))
        elif name == "id-case":
            other = world.acc_id.decode().swapcase().encode()
            inner = acc.inner_m2(ident_id=other)
        elif name == "transcript":
            parts = [acc.pk, world.acc_id, acc.ios_pk]
            o = PERMS[fault[1] % len(PERMS)]
            inner = acc.inner_m2(transcript=parts[o[0]] + parts[o[1]] + parts[o[2]])
        elif name == "mitm-inner":
            # signature made for another pair of ephemeral keys (a relay that can do DH but cannot sign)
            other_acc = refhap.x_pub(refhap.x_from_seed(h("acc-eph", k, "mitm")))
            other_ios = refhap.x_pub(refhap.x_from_seed(h("ios-eph", k, "mitm")))
            which = fault[1] % 3
            t = [(other_acc, acc.ios_pk), (acc.pk, other_ios), (other_acc, other_ios)][which]
            inner = acc.inner_m2(transcript=t[0] + world.acc_id + t[1])
        elif name == "wrong-enc-key":
            enc_key = h("wrong-key", k)
        elif name == "wrong-label":
            label = [b"PV-Msg03", b"PS-Msg06", b"PV-Msg01", b"\x00" * 8][fault[1] % 4]
        else:
            raise AssertionError(f"unknown fault {fault}")
        enc = aead_enc(enc_key or acc.session_key, nonce(label), tlv_enc(inner), b"")
        return tlv_enc([(t, enc if t == T_ENC else v) for t, v in items])
    return hook


def run_full(case, R):
    """Full verify with one fault (or honest)."""
    world = World(case)
    k = case["k"]
    fault = case["fault"]
    name = fault[0]
    transport = case.get("decode", "ip")
    if name == "wrong-id" and (fault[1].encode() if isinstance(fault[1], str) else bytes(fault[1])) == world.acc_id:
        fault = ["none"]
        name = "none"
    if name == "id-case" and world.acc_id.decode().swapcase() == world.acc_id.decode():
        fault = ["none"]
        name = "none"
    out = run_exchange(world, k, transport, make_m2(world, k, fault))
    what = f"fault={fault} decode={transport} acc_id={world.acc_id!r}"
    R.cls("fault:" + name, "decode:" + transport)
    idlen = len(world.acc_id)
    if name in BREAKING:
        R.nt()
        check_rejected(R, out, what, name)
    elif name == "none":
        R.nt(False)
        R.note = ("honest", "short" if idlen < 17 else "long", transport)
        # honest cases count once per (id length class, transport): distinctness handled by making the canonical case small
        check_honest(R, world, out, what)
        R.nontrivial = False
    else:
        # proof-preserving rearrangement: either outcome, but a success must be a real one
        R.nt()
        if out["result"] is not None:
            R.cls("preserving:accepted")
            check_honest(R, world, out, what)
        else:
            R.cls("preserving:rejected")
            if out["exc"] is None:
                R.fail("C01.no-outcome", f"{what}: neither keys nor error")


def run_tape(case, R):
    """Two exchanges of the real code with the same pairing record.  The first is honest and recorded; in the second a peer that holds no
    key at all replays the recorded M2 (and an M4 of its choice).  Also: the controller's exchange key must be fresh in every exchange."""
    world = World(case)
    k = case["k"]
    transport = case.get("decode", "ip")
    R.nt()
    R.cls("tape", "decode:" + transport, "between:%d" % case.get("between", 0))
    first = run_exchange(world, (k, "tape", 0), transport, allow_resume=False)
    if check_honest(R, world, first, "recorded exchange") is None:
        return
    seen = [dict(first["m1"]).get(T_PK)]
    for i in range(case.get("between", 0)):
        mid = run_exchange(world, (k, "tape", "mid", i), transport, allow_resume=False)
        if check_honest(R, world, mid, f"exchange {i} between recording and replay") is None:
            return
        seen.append(dict(mid["m1"]).get(T_PK))
    tape = first["m2_raw"]
    out = run_exchange(world, (k, "tape", 1), transport, lambda acc, honest: tape, allow_resume=False, m4_items=[(T_STATE, b"\x04")])
    pk = dict(out.get("m1") or []).get(T_PK)
    if pk in seen:
        R.fail("C01.exchange-key-reused", f"the controller sent the same exchange public key {bytes(pk).hex()[:16]}.. in two exchanges", decode=transport)
        return
    check_rejected(R, out, f"M2/M4 recorded from an earlier exchange replayed (decode={transport})", "tape-replay")


def run_m4(case, R):
    """Honest M2, then an M4 that is cut short.  M4 carries no proof, so the only demands are: a well-formed error-free State=4 reply is the
    honest one; every cut that is not a well-formed TLV sequence (and every cut that still carries the error) must fail."""
    world = World(case)
    k = case["k"]
    transport = case.get("decode", "ip")
    code = case["code"]
    err = bytes(case["err"]) if "err" in case else (bytes([code]) if code else None)
    full = tlv_enc([(T_STATE, b"\x04")] + ([(refhap.T_ERROR, err)] if err is not None else []))
    if case.get("whole"):
        raw = full          # the complete error reply, whatever the value of its Error item (defined code or not, empty, two bytes)
    else:
        n = 1 + case["n"] % (len(full) - 1)
        raw = full[:n]
    R.nt()
    R.cls("m4-whole-error" if case.get("whole") else "m4-truncate", "decode:" + transport)
    acc = RefPairVerify(world.ident, h("acc-eph", k), allow_resume=False)
    res, exc = None, None
    with ephemeral(h("ios-eph", k)):
        g = get_session_keys(world.pairing_data)
        try:
            req, exp = g.send(None)
            req, exp = g.send(decode_as(transport, tlv_enc(acc.handle_m1(refhap.tlv_dec(bytes(TLV.encode_list(req))))), exp))
            acc.handle_m3(refhap.tlv_dec(bytes(TLV.encode_list(req))))
            g.send(decode_as(transport, raw, exp))
            exc = RuntimeError("generator yielded a fourth request")
        except StopIteration as r:
            res = r.value
        except Exception as e:  # noqa: BLE001
            exc = e
    if raw == tlv_enc([(T_STATE, b"\x04")]):
        if res is None:
            R.fail("C01.honest-rejected", f"M4 = 06 01 04 rejected with {type(exc).__name__}: {exc}", exc=type(exc).__name__)
        return
    if res is not None:
        R.fail("C01.forged-reply-accepted", f"M4 {'= ' if case.get('whole') else 'cut to '}{raw.hex()} (of {full.hex()}) decode={transport}: keys returned",
               family="m4-error" if case.get("whole") else "m4-truncate")


def enum_tape(tier):
    i = 0
    for dec in ("ip", "ble"):
        for between in (0, 1, 2):
            for rep in range(2 if tier == "quick" else 12):
                i += 1
                yield {"k": SEED * 15485863 + i, "acc_id": ["AA:BB:CC:DD:EE:FF", "b"][rep % 2], "ios_id": "ios-%d" % rep, "decode": dec, "between": between}


def enum_m4(tier):
    i = 0
    for dec in ("ip", "ble"):
        for code in (0, 1, 2, 3, 4, 5, 6, 7, 255):
            for n in range(5 if code else 2):
                i += 1
                yield {"k": SEED * 32452843 + i, "acc_id": "AA:BB:CC:DD:EE:FF", "ios_id": "ios-1", "decode": dec, "code": code, "n": n}
        for err in ([c] for c in range(0, 256)) if tier == "thorough" else ([0], [1], [2], [6], [7], [8], [9], [0x80], [255]):
            i += 1
            yield {"k": SEED * 32452843 + i, "acc_id": "AA:BB:CC:DD:EE:FF", "ios_id": "ios-1", "decode": dec, "code": 1, "err": err, "whole": True, "n": 0}
        for err in ([], [2, 0], [0, 2], [2, 2]):
            i += 1
            yield {"k": SEED * 32452843 + i, "acc_id": "AA:BB:CC:DD:EE:FF", "ios_id": "ios-1", "decode": dec, "code": 1, "err": err, "whole": True, "n": 0}


def run_resume(case, R):
    """full verify, then a resumed verify with one fault (or honest / chained / refused)."""
    world = World(case)
    k = case["k"]
    transport = "ble"        # only the BLE-style decode lets a resume reply reach resume_m3 (DESIGN 4/C01)
    fault = case["fault"]
    name = fault[0]
    R.nt()
    R.cls("resume:" + name)
    first = run_exchange(world, (k, 0), transport)
    got = check_honest(R, world, first, "initial full verify")
    if got is None:
        return
    sid, derive = got
    chain = case.get("chain", 0)
    for i in range(chain):
        nxt = run_exchange(world, (k, "chain", i), transport, session_id=sid, derive=derive)
        if not nxt["acc"].resumed:
            R.fail("C01.resume-not-used", f"chained resume {i}: accessory did not see a valid resume request", why="request")
            return
        g2 = check_honest(R, world, nxt, f"chained resume {i}")
        if g2 is None:
            return
        if bytes(g2[1](b"Control-Salt", b"Control-Write-Encryption-Key")) == bytes(derive(b"Control-Salt", b"Control-Write-Encryption-Key")):
            R.fail("C01.resume-keys-unchanged", f"chained resume {i}: keys equal the previous session's")
            return
        sid, derive = g2
    old_shared = world.ident.sessions.get(sid)
    what = f"resume fault={fault} chain={chain}"

    if name in ("none", "refused"):
        out = run_exchange(world, (k, 1), transport, session_id=sid, derive=derive, allow_resume=(name == "none"))
        acc = out["acc"]
        if name == "none" and not acc.resumed:
            R.fail("C01.resume-not-used", f"{what}: accessory did not see a valid resume request (M1 {out.get('m1')!r:.200})", why="request")
            return
        if name == "refused" and acc.resumed:
            raise AssertionError("harness: refused resume was resumed")
        g2 = check_honest(R, world, out, what)
        if g2 and name == "none":
            if out["yielded_m3"]:
                R.fail("C01.resume-not-used", f"{what}: controller ran a full verify although the accessory resumed", why="reply")
            if bytes(g2[1](b"Control-Salt", b"Control-Read-Encryption-Key")) == bytes(derive(b"Control-Salt", b"Control-Read-Encryption-Key")):
                R.fail("C01.resume-keys-unchanged", f"{what}: keys equal the previous session's")
        return

    def hook(acc, honest):
        if not acc.resumed:
            raise AssertionError("harness: accessory did not resume")
        new_sid = acc.new_session_id
        if name == "wrong-secret":
            items = RefPairVerify.resume_m2(acc, old_shared, sid, response_secret=h("not-the-secret", k))
        elif name == "wrong-hkdf-sid":
            items = RefPairVerify.resume_m2(acc, old_shared, sid, hkdf_sid=h("other-sid", k)[:8])
        elif name == "wrong-label":
            items = RefPairVerify.resume_m2(acc, old_shared, sid, label=[b"PR-Msg01", b"PV-Msg02", b"PR-Msg03"][fault[1] % 3])
        elif name == "wrong-info":
            items = RefPairVerify.resume_m2(acc, old_shared, sid, info=[b"Pair-Resume-Request-Info", b"Pair-Resume-Shared-Secret-Info"][fault[1] % 2])
        elif name == "method":
            items = RefPairVerify.resume_m2(acc, old_shared, sid, method=[None, b"\x00", b"\x02", b"\x07"][fault[1] % 4])
        elif name == "flip-tag":
            items = [(t, flip(v, fault[1]) if t == T_ENC else v) for t, v in honest]
        elif name == "truncate-tag":
            items = [(t, v[:1 + fault[1] % 15] if t == T_ENC else v) for t, v in honest]
        elif name == "truncate-raw":
            raw = tlv_enc(honest)
            return raw[:1 + fault[1] % (len(raw) - 1)]
        elif name == "extend-tag":
            items = [(t, v + bytes([fault[1] & 0xFF]) if t == T_ENC else v) for t, v in honest]
        elif name == "flip-sid":
            items = [(t, flip(v, fault[1]) if t == T_SESSIONID else v) for t, v in honest]
        elif name == "drop":
            field = [T_SESSIONID, T_ENC, T_METHOD][fault[1] % 3]
            items = [(t, v) for t, v in honest if t != field]
        elif name == "nonempty-plaintext":
            rk = hkdf_sha512(old_shared, acc.ios_pk + new_sid, b"Pair-Resume-Response-Info")
            items = [(t, aead_enc(rk, nonce(b"PR-Msg02"), b"x", b"") if t == T_ENC else v) for t, v in honest]
        elif name == "replayed-reply":
            items = case["_prev_reply"]
        else:
            raise AssertionError(f"unknown resume fault {fault}")
        return tlv_enc(items)

    if name == "replayed-reply":
        # a resume reply recorded from an earlier resumed exchange (other ephemeral key, other session id)
        rec = run_exchange(world, (k, "rec"), transport, session_id=sid, derive=derive)
        g2 = check_honest(R, world, rec, "recorded resume")
        if g2 is None:
            return
        case = dict(case, _prev_reply=refhap.tlv_dec(rec["m2_raw"]))
        sid, derive = g2
        old_shared = world.ident.sessions.get(sid)
    out = run_exchange(world, (k, 1), transport, hook, session_id=sid, derive=derive)
    check_rejected(R, out, what, "resume-" + name)


def run_flips(case, R):
    """All single-bit flips of one field of M2 of one exchange (one case = one field)."""
    world = World(case)
    k = case["k"]
    field = case["field"]
    transport = case.get("decode", "ip")
    probe = RefPairVerify(world.ident, h("acc-eph", k))
    probe.ios_pk = bytes(32)
    sizes = {"pk": 32, "enc": len(tlv_enc(probe.inner_m2(transcript=b""))) + 16, "state": 1, "inner-id": len(world.acc_id), "inner-sig": 64}
    nbits = sizes[field] * 8
    R.nt()
    R.cls("flips:" + field)
    for bit in range(nbits):
        fault = ["flip", field, bit] if not field.startswith("inner-") else ["flip-inner", field[6:], bit]
        out = run_exchange(world, k, transport, make_m2(world, k, fault))
        check_rejected(R, out, f"bit {bit} of {field} flipped, decode={transport}", "flip:" + field)
        if R.failures:
            break
    R.sub = nbits - 1


# ---------------------------------------------------------------- strategies
IDS = st.one_of(st.sampled_from(["AA:BB:CC:DD:EE:FF", "a", "12:34:56:78:9a:bc", "Ünïcödé-accessory", "x" * 40]),
                st.text(alphabet="ABCDEFabcdef0123456789:-_ äé", min_size=1, max_size=20).filter(lambda s: 1 <= len(s.encode()) <= 40))
IOS_IDS = st.one_of(st.sampled_from(["decc6fa3-de3e-41c9-adba-ef7409821bfc", "ios", "é"]),
                    st.text(alphabet="abcdef0123456789-", min_size=1, max_size=36))


@st.composite
def full_cases(draw):
    case = {"k": draw(st.integers(0, 2**32)), "acc_id": draw(IDS), "ios_id": draw(IOS_IDS), "decode": draw(st.sampled_from(["ip", "ble"]))}
    name = draw(st.sampled_from(sorted(BREAKING | PRESERVING)))
    bit = draw(st.integers(0, 4096))
    if name in ("flip", "subst"):
        f = [name, draw(st.sampled_from(["pk", "enc", "enc", "state"])), bit] + ([draw(st.integers(0, 255))] if name == "subst" else [])
    elif name in ("flip-inner", "subst-inner"):
        f = [name, draw(st.sampled_from(["id", "sig"])), bit] + ([draw(st.integers(0, 255))] if name == "subst-inner" else [])
    elif name in ("drop", "dup-adjacent"):
        f = [name, draw(st.sampled_from(["pk", "enc"]))]
    elif name == "drop-inner":
        f = [name, draw(st.sampled_from(["id", "sig"]))]
    elif name == "wrong-id":
        f = [name, draw(IDS)]
    elif name == "pk-len":
        f = [name, draw(st.sampled_from([0, 1, 31, 33, "zero"]))]
    elif name in ("transcript", "mitm-inner", "wrong-label", "truncate", "dup", "dup-inner-other"):
        f = [name, bit]
    else:
        f = [name]
    case["fault"] = f
    return case


RESUME_FAULTS = ["none", "none", "refused", "truncate-tag", "truncate-raw", "extend-tag", "wrong-secret", "wrong-hkdf-sid", "wrong-label", "wrong-info", "method", "flip-tag", "flip-sid",
                 "drop", "nonempty-plaintext", "replayed-reply"]


@st.composite
def resume_cases(draw):
    return {"k": draw(st.integers(0, 2**32)), "acc_id": draw(IDS), "ios_id": draw(IOS_IDS),
            "fault": [draw(st.sampled_from(RESUME_FAULTS)), draw(st.integers(0, 127))], "chain": draw(st.sampled_from([0, 0, 1, 2]))}


def enum_flips(tier):
    n = 6 if tier == "quick" else 60
    for i in range(n):
        for field in ("pk", "enc", "state", "inner-id", "inner-sig"):
            yield {"k": SEED * 1000 + i, "acc_id": ["AA:BB:CC:DD:EE:FF", "é" * 5, "b"][i % 3], "ios_id": "ios-%d" % i,
                   "field": field, "decode": ["ip", "ble"][i % 2]}


def enum_families(tier):
    """Every fault family x both decode styles once per run, so no family depends on random choice."""
    i = 0
    for dec in ("ip", "ble"):
        for f in (["none"], ["reorder"], ["dup", 0], ["dup", 1], ["dup", 2], ["drop-state"], ["reorder-inner"], ["dup-inner"], *[["dup-inner-other", p] for p in range(4)],
                  ["drop", "pk"], ["drop", "enc"], ["dup-adjacent", "pk"], ["dup-adjacent", "enc"], ["drop-inner", "id"], ["drop-inner", "sig"],
                  ["wrong-ltsk"], ["wrong-id", "AA:BB:CC:DD:EE:F0"], ["wrong-id", "aa:bb:cc:dd:ee:ff"], ["id-case"],
                  *[["transcript", p] for p in range(5)], ["replay-exchange"], *[["mitm-inner", p] for p in range(3)],
                  *[["pk-len", n] for n in (0, 1, 31, 33, "zero")], ["wrong-enc-key"], *[["wrong-label", p] for p in range(4)],
                  *[["truncate", n] for n in range(0, 140, 3)]):
            i += 1
            yield {"k": SEED * 7919 + i, "acc_id": "AA:BB:CC:DD:EE:FF", "ios_id": "decc6fa3-de3e-41c9-adba-ef7409821bfc", "decode": dec, "fault": f}


def enum_resume(tier):
    i = 0
    for name in sorted(set(RESUME_FAULTS)):
        if name in ("wrong-label", "method", "drop", "wrong-info"):
            reps = range(4)
        elif name == "flip-tag":
            reps = range(128)
        elif name == "flip-sid":
            reps = range(64)
        elif name == "truncate-tag":
            reps = range(15)
        elif name == "truncate-raw":
            reps = range(0, 36)
        else:
            reps = [0]
        for p in reps:
            for chain in (0, 1):
                i += 1
                yield {"k": SEED * 104729 + i, "acc_id": "AA:BB:CC:DD:EE:FF", "ios_id": "ios-1", "fault": [name, p], "chain": chain}


from props.ble_layers import C01_BLE_LAYERS, C01_IP_LAYERS  # noqa: E402
from props.coap_layers import C01_COAP_LAYERS  # noqa: E402

SPEC = Property(
    P, "fault_enumeration",
    rule=("pairing record (generated long-term keys, identifiers of 1..40 bytes incl. UTF-8) x generated ephemeral keys (injected) x one "
          "reply policy: honest, or a fault from the enumerated families - every single-bit flip of M2's PublicKey, EncryptedData, State "
          "and of the inner Identifier/Signature (exhaustive per exchange), byte substitution, field removal/duplication/reordering "
          "(outer and inner), signature by another key, another identifier, permuted transcript, M2 of another exchange, relayed inner "
          "signature, wrong-length/zero PublicKey, truncation, wrong key/nonce label; resume: honest, chained, refused, wrong secret/session "
          "id/label/info/method, all tag and session-id bit flips, tag truncated to 1..15 bytes or extended, resume reply truncated at every byte, replayed resume reply. Replies are decoded the way IP/CoAP (expected "
          "list) and BLE (no list) decode them. Non-trivial: every faulty or resumed case; honest full verifies are counted as trivial."),
    layers=[
        Layer("m2-bit-flips", run_flips, enumerate=enum_flips, exhaustive=True,
              space="all single-bit flips of PublicKey, EncryptedData, State, inner Identifier and inner Signature of 6 exchanges (60 in thorough)", min_nontrivial=5),
        Layer("fault-families", run_full, enumerate=enum_families, exhaustive=True, space="every fault family x {ip, ble} decode, truncation at every 3rd byte", min_nontrivial=100),
        Layer("faults-gen", run_full, strategy=full_cases, n={"quick": 16000, "thorough": 300000}, min_nontrivial=1000),
        Layer("tape-replay", run_tape, enumerate=enum_tape, exhaustive=True,
              space="honest exchange recorded, 0..2 further exchanges, then M2/M4 replayed to a new exchange; exchange keys of all exchanges pairwise distinct", min_nontrivial=10),
        Layer("m4-truncated", run_m4, enumerate=enum_m4, exhaustive=True, space="honest and error M4 (codes 1..7, 255) cut at every byte; whole M4 with an Error item of every value (quick: 9 values; thorough: all 256), empty and two-byte values; x {ip, ble} decode", min_nontrivial=50),
        Layer("resume-families", run_resume, enumerate=enum_resume, exhaustive=True, space="every resume fault incl. all 128 tag bits and 64 session-id bits, chain 0/1", min_nontrivial=100),
        Layer("resume-gen", run_resume, strategy=resume_cases, n={"quick": 4000, "thorough": 60000}, min_nontrivial=100),
        *C01_BLE_LAYERS,
        *C01_IP_LAYERS,
        *C01_COAP_LAYERS,
    ],
    assumptions=["reference accessory (vlib/refhap.py RefPairVerify) written from HAP R2 5.7 and the HAP-BLE resume procedure",
                 "`cryptography` X25519/Ed25519/ChaCha20-Poly1305 and hashlib/hmac are trusted",
                 "any exception counts as 'fails with an error'; proof-preserving rearrangements (reordering, verbatim non-adjacent "
                 "duplicates, omitted State) may be accepted or rejected but an acceptance must be a genuine one",
                 "resume replies are decoded without an expected list (only BLE asks for resumption)"],
    min_nontrivial=1500,
)

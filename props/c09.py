"""C09 - requests are written byte-for-byte in the canonical iOS form (DESIGN 4/C09)."""
import asyncio
import ipaddress
import json
import re

from hypothesis import strategies as st

from vlib import vtime
from vlib.ipworld import IpWorld
from vlib.runner import Layer, Property

P = "C09"
HOSTS = {"v4": "10.0.0.5", "v4b": "192.168.178.201", "v6": "fd00::1:2", "v6full": "2001:db8:0:0:0:0:0:1", "v6scoped": "fe80::1c2:3ff%eth0"}
READ_URL = re.compile(r"^/characteristics\?id=\d+\.\d+(,\d+\.\d+)*$")
WRITABLE = [(1, 9), (1, 10), (1, 11), (1, 12), (2, 10), (1, 3)]
ALL_IDS = [(1, 2), (1, 3), (1, 9), (1, 10), (1, 11), (1, 12), (2, 2), (2, 9), (2, 10)]


def json_ws_outside_strings(b: bytes):
    """Token scanner: position of the first insignificant whitespace byte outside a JSON string, or None."""
    in_str = False
    esc = False
    for i, c in enumerate(b):
        if in_str:
            if esc:
                esc = False
            elif c == 0x5C:
                esc = True
            elif c == 0x22:
                in_str = False
        elif c == 0x22:
            in_str = True
        elif c in (0x20, 0x09, 0x0A, 0x0D):
            return i
    return None


def unfreeze(v):
    """JSON-able replay value -> python value (lists stay lists)."""
    return v


def check_request(R, req, host, want):
    """want: dict(method, target | target_re, body_json | body_bytes | no_body, ids)"""
    desc = f"{req.method} {req.target} ({'secure' if req.secure else 'plain'}) raw={req.raw[:160]!r}"
    if req.strict_error:
        R.fail("C09.not-canonical", f"{desc}: {req.strict_error}", why=req.strict_error.split(" ")[0])
        return
    hostval = dict(req.headers)["Host"]
    if ":" in host:
        m = re.fullmatch(r"\[([0-9A-Za-z:.%]+)\]", hostval)
        ok = bool(m)
        if ok:
            try:
                ok = ipaddress.ip_address(m.group(1).split("%")[0]) == ipaddress.ip_address(host.split("%")[0])
            except ValueError:
                ok = False
    else:
        ok = hostval == host
    if not ok:
        R.fail("C09.host-header", f"{desc}: Host value {hostval!r} for peer {host!r}", family="v6" if ":" in host else "v4")
    if want is None:
        if req.method == "GET" and req.target.startswith("/characteristics") and not READ_URL.match(req.target):
            R.fail("C09.read-url", f"{desc}: read URL does not match /characteristics?id=a.i(,a.i)*")
        return
    if req.method != want["method"]:
        R.fail("C09.request-line", f"{desc}: method, expected {want['method']}")
    if "target" in want and req.target != want["target"]:
        R.fail("C09.request-line", f"{desc}: target, expected {want['target']!r}")
    if "ids" in want:
        if not READ_URL.match(req.target):
            R.fail("C09.read-url", f"{desc}: read URL does not match /characteristics?id=a.i(,a.i)*")
        else:
            got = sorted(tuple(int(x) for x in p.split(".")) for p in req.target.split("=", 1)[1].split(","))
            if got != sorted(want["ids"]):
                R.fail("C09.read-url", f"{desc}: ids {got} expected {sorted(want['ids'])}")
    if want.get("no_body") and req.body:
        R.fail("C09.body", f"{desc}: unexpected body {req.body[:80]!r}")
    if "ctype" in want and dict(req.headers).get("Content-Type") != want["ctype"]:
        R.fail("C09.not-canonical", f"{desc}: Content-Type {dict(req.headers).get('Content-Type')!r} expected {want['ctype']!r}", why="ctype")
    if "body_bytes" in want and req.body != want["body_bytes"]:
        R.fail("C09.body", f"{desc}: body {req.body[:80]!r} expected {want['body_bytes'][:80]!r}")
    if "body_json" in want:
        ws = json_ws_outside_strings(req.body)
        if ws is not None:
            R.fail("C09.json-whitespace", f"{desc}: insignificant whitespace at offset {ws} of {req.body[:120]!r}")
        try:
            got = json.loads(req.body)
        except Exception as e:  # noqa: BLE001
            R.fail("C09.body", f"{desc}: body is not JSON: {e}")
            return
        if got != want["body_json"]:
            R.fail("C09.body", f"{desc}: JSON {got!r:.200} expected {want['body_json']!r:.200}")
        if "item_keys" in want:
            for item in got.get("characteristics", []):
                if sorted(item) != sorted(want["item_keys"]):
                    R.fail("C09.body", f"{desc}: item keys {sorted(item)} expected {sorted(want['item_keys'])}")


def run_case(case, R):
    host = HOSTS[case["host"]]
    host2 = HOSTS[case["host2"]] if case.get("host2") and HOSTS[case["host2"]] != host else None
    ops = case["ops"]
    R.nt(":" in host or any(o[0] in ("put", "subscribe", "unsubscribe", "raw_put_json", "raw_post_json", "raw_post", "add_pairing", "image") or
                            (o[0] == "get" and len(o[1]) >= 2) for o in ops))
    R.cls("host:" + case["host"])
    if any(len(json.dumps(o, default=lambda b: "x" * len(b))) > 1100 for o in ops):
        R.cls("request>1024 bytes")

    async def main(loop):
        w = IpWorld(loop, hosts=(host,) + ((host2,) if host2 else ()), k=case.get("k", 0))
        refuse = set()
        w.net.connect_policy = lambda h, n: "refuse" if h in refuse else "accept"
        expected = []       # one entry per request the accessory should see on the secure session, in order

        def hook(conn, req):
            if req.target.startswith("/x"):
                conn.send_http(204, "No Content")
                return True
            return False
        w.acc.on_request = hook
        try:
            p = w.pairing
            shared = set()
            await p.list_accessories_and_characteristics()
            expected.append({"method": "GET", "target": "/accessories", "no_body": True})
            for op in ops:
                name = op[0]
                R.cls("op:" + name)
                n_exp, n_seen = len(expected), len(w.acc.all_requests)
                try:
                    if name == "par":
                        # several operations overlapping in time: they queue behind one another; each must go out with its own bytes
                        coros = []
                        for sub in op[1]:
                            if sub[0] == "raw_get":
                                expected.append({"method": "GET", "target": sub[1], "no_body": True})
                                coros.append(p.connection.get(sub[1]))
                            elif sub[0] == "raw_put_json":
                                expected.append({"method": "PUT", "target": sub[1], "ctype": "application/hap+json", "body_json": sub[2]})
                                coros.append(p.connection.put_json(sub[1], sub[2]))
                            elif sub[0] == "raw_post":
                                expected.append({"method": "POST", "target": sub[1], "ctype": "application/pairing+tlv8", "body_bytes": bytes(sub[2])})
                                coros.append(p.connection.post(sub[1], bytes(sub[2])))
                            elif sub[0] == "get":
                                ids = [tuple(x) for x in sub[1]]
                                expected.append({"method": "GET", "ids": sorted(set(ids)), "no_body": True})
                                coros.append(p.get_characteristics(ids))
                            elif sub[0] == "put":
                                items = [(a, i, v) for a, i, v in sub[1]]
                                expected.append({"method": "PUT", "target": "/characteristics", "ctype": "application/hap+json",
                                                 "body_json": {"characteristics": [{"aid": a, "iid": i, "value": v} for a, i, v in items]}, "item_keys": ["aid", "iid", "value"]})
                                coros.append(p.put_characteristics(items))
                        await asyncio.gather(*coros, return_exceptions=True)
                    elif name == "list":
                        expected.append({"method": "GET", "target": "/accessories", "no_body": True})
                        await p.list_accessories_and_characteristics()
                    elif name == "get":
                        ids = [tuple(x) for x in op[1]]
                        if op[2] == "shared":
                            # a caller that keeps one set object and changes it in place between polls
                            shared.clear()
                            shared.update(ids)
                            arg = shared
                        else:
                            arg = (set(ids) if op[2] == "set" else tuple(ids) if op[2] == "tuple" else (x for x in ids) if op[2] == "gen" else iter(ids) if op[2] == "iter"
                                   else dict.fromkeys(ids).keys() if op[2] == "keys" else ids)        # any Iterable[tuple[int, int]], also one that can be walked once only
                        expected.append({"method": "GET", "ids": sorted(set(ids)), "no_body": True})
                        await p.get_characteristics(arg)
                    elif name == "put":
                        items = [(a, i, v) for a, i, v in op[1]]
                        expected.append({"method": "PUT", "target": "/characteristics", "ctype": "application/hap+json",
                                         "body_json": {"characteristics": [{"aid": a, "iid": i, "value": v} for a, i, v in items]},
                                         "item_keys": ["aid", "iid", "value"]})
                        await p.put_characteristics(items)
                    elif name in ("subscribe", "unsubscribe"):
                        ids = [tuple(x) for x in op[1]]
                        ev = name == "subscribe"
                        # one request per run of equal accessory ids, in the order given
                        runs = []
                        for a, i in ids:
                            if runs and runs[-1][0][0] == a:
                                runs[-1].append((a, i))
                            else:
                                runs.append([(a, i)])
                        for run in runs:
                            expected.append({"method": "PUT", "target": "/characteristics", "ctype": "application/hap+json",
                                             "body_json": {"characteristics": [{"aid": a, "iid": i, "ev": ev} for a, i in run]},
                                             "item_keys": ["aid", "iid", "ev"]})
                        await (p.subscribe(ids) if ev else p.unsubscribe(ids))
                    elif name == "identify":
                        expected.append({"method": "PUT", "target": "/characteristics", "ctype": "application/hap+json",
                                         "body_json": {"characteristics": [{"aid": 1, "iid": 3, "value": True}]}})
                        await p.identify()
                    elif name == "list_pairings":
                        expected.append({"method": "POST", "target": "/pairings", "ctype": "application/pairing+tlv8", "body_bytes": b"\x06\x01\x01\x00\x01\x05"})
                        await p.list_pairings()
                    elif name == "add_pairing":
                        cid, pk, perm = op[1], bytes(op[2]).hex(), op[3]
                        from vlib.refhap import tlv_enc
                        expected.append({"method": "POST", "target": "/pairings", "ctype": "application/pairing+tlv8",
                                         "body_bytes": tlv_enc([(6, b"\x01"), (0, b"\x03"), (1, cid.encode()), (3, bytes(op[2])), (11, b"\x01" if perm == "Admin" else b"\x00")])})
                        await p.add_pairing(cid, pk, perm)
                    elif name == "remove_pairing":
                        from vlib.refhap import tlv_enc
                        expected.append({"method": "POST", "target": "/pairings", "ctype": "application/pairing+tlv8",
                                         "body_bytes": tlv_enc([(6, b"\x01"), (0, b"\x04"), (1, op[1].encode())])})
                        await p.remove_pairing(op[1])
                    elif name == "image":
                        expected.append({"method": "POST", "target": "/resource", "ctype": "application/hap+json",
                                         "body_json": {"aid": op[1], "resource-type": "image", "image-width": op[2], "image-height": op[3]}})
                        await p.image(op[1], op[2], op[3])
                    elif name == "move":
                        # the session is lost and the address it used stops answering: the controller reconnects to the other address
                        if host2 is None:
                            continue
                        cur = w.acc.conns[-1]
                        refuse.clear()
                        refuse.add(cur.host)
                        cur.close("fin")
                        await asyncio.sleep(3)
                        await vtime.settle(loop)
                        expected.append("reconnect")
                    elif name == "raw_request":
                        # request() is the connection's entry point; it canonicalises the method
                        expected.append({"method": op[1].upper(), "target": op[2], "no_body": True})
                        await p.connection.request(method=op[1], target=op[2])
                    elif name == "raw_get":
                        expected.append({"method": "GET", "target": op[1], "no_body": True})
                        await p.connection.get(op[1])
                    elif name == "raw_put_json":
                        expected.append({"method": "PUT", "target": op[1], "ctype": "application/hap+json", "body_json": op[2]})
                        await p.connection.put_json(op[1], op[2])
                    elif name == "raw_post_json":
                        expected.append({"method": "POST", "target": op[1], "ctype": "application/hap+json", "body_json": op[2]})
                        await p.connection.post_json(op[1], op[2])
                    elif name == "raw_post":
                        expected.append({"method": "POST", "target": op[1], "ctype": "application/pairing+tlv8", "body_bytes": bytes(op[2])})
                        await p.connection.post(op[1], bytes(op[2]))
                    elif name == "raw_put":
                        expected.append({"method": "PUT", "target": op[1], "ctype": "application/hap+json", "body_bytes": bytes(op[2])})
                        await p.connection.put(op[1], bytes(op[2]))
                except Exception as e:  # noqa: BLE001  API-level failures (404 etc.) are not this property's business
                    R.cls("op-exception:" + type(e).__name__)
                    await vtime.settle(loop)
                    if len(w.acc.all_requests) == n_seen:
                        del expected[n_exp:]        # refused before anything was sent (e.g. a value the encoder cannot represent)
            await p.close()
            if len(w.acc.conns) != 1:
                R.cls("reconnected")
            # every request = exactly one write call, in order
            reqs = [r for c in w.acc.conns for r in c.requests]
            for c in w.acc.conns:
                idx = [r.write_index for r in c.requests]
                if idx != list(range(len(idx))) or len(c.t.write_calls) != len(idx):
                    R.fail("C09.not-single-write", f"connection {c.index}: {len(c.t.write_calls)} write calls for {len(idx)} requests "
                           f"(requests completed by writes {idx[:12]}; call kinds {[(k, len(v)) for _, k, v in c.t.write_calls][:8]})")
                for _, kind, parts in c.t.write_calls:
                    pass
                if c.errors:
                    R.fail("C09.not-canonical", f"accessory could not parse the stream: {c.errors[:2]}", why="parse")
            if w.acc.request_errors:
                return
            secure = [r for r in reqs if r.secure]
            plain = [r for r in reqs if not r.secure]
            for r in plain:
                check_request(R, r, r.conn.host, {"method": "POST", "target": "/pair-verify", "ctype": "application/pairing+tlv8"})
            exp_req = [e for e in expected if e != "reconnect"]
            if len(w.acc.conns) == 1 and len(secure) == len(exp_req):
                for r, want in zip(secure, exp_req):
                    check_request(R, r, r.conn.host, want)
            elif len(w.acc.conns) == 1:
                R.fail("C09.request-count", f"{len(secure)} requests seen, {len(exp_req)} issued: {[(r.method, r.target) for r in secure][:12]}")
            else:
                for r in secure:        # re-subscriptions etc. after a reconnect: every request is still held to the canonical form
                    check_request(R, r, r.conn.host, None)
        finally:
            w.restore()
    vtime.run(main)


# ---------------------------------------------------------------- strategies
JSON_SCALARS = st.one_of(st.integers(900, 3000).map(lambda n: "long " * (n // 5)), st.integers(2**64, 2**70), st.integers(-2**70, -2**63 - 1),
                         st.sampled_from([2**64, -2**63 - 1, 10**30, "\ud800 lone surrogate"]), st.none(), st.booleans(), st.integers(-2**63, 2**63 - 1), st.integers(0, 2**64 - 1),
                         st.floats(allow_nan=False, allow_infinity=False, width=64),
                         st.text(max_size=12), st.sampled_from(["", " ", "a b", "\"q\"", "\\", "é€\U0001F600", "\n\t", "{\"x\": 1}"]))
JSON_VALUES = st.recursive(JSON_SCALARS, lambda c: st.one_of(st.lists(c, max_size=4), st.dictionaries(st.text(max_size=6), c, max_size=4)), max_leaves=12)
TARGETS = st.one_of(st.sampled_from(["/x", "/x/y", "/x?a=1&b=2", "/x%20y"]), st.text(alphabet="abcxyz019/_-", min_size=0, max_size=10).map(lambda s: "/x" + s))
IDSETS = st.lists(st.sampled_from(ALL_IDS + [(3, 1), (1, 65535), (17, 300)]), min_size=1, max_size=12)


@st.composite
def op(draw):
    name = draw(st.sampled_from(["move", "list", "get", "get", "put", "put", "subscribe", "unsubscribe", "identify", "list_pairings", "add_pairing",
                                 "remove_pairing", "image", "raw_get", "raw_put_json", "raw_post_json", "raw_post", "raw_put", "raw_request"]))
    if name == "move" and draw(st.booleans()):
        subs = []
        for j in range(draw(st.integers(3, 5))):
            k_ = draw(st.sampled_from(["raw_get", "raw_put_json", "raw_post", "get", "put"]))
            if k_ == "raw_get":
                subs.append([k_, "/x/%d" % j])
            elif k_ == "raw_put_json":
                subs.append([k_, "/x/%d" % j, draw(st.sampled_from([1, True, "x", [1, 2], {"a": None}, 2.5, "ü", {"k": [1, {"b": "c d"}]}]))])
            elif k_ == "raw_post":
                subs.append([k_, "/x/%d" % j, draw(st.binary(min_size=1, max_size=40))])
            elif k_ == "get":
                subs.append([k_, draw(IDSETS)])
            else:
                ids_ = draw(st.lists(st.sampled_from(WRITABLE), min_size=1, max_size=3, unique=True))
                subs.append([k_, [[a, i, draw(st.sampled_from([True, False, 1, 0]))] for a, i in ids_]])
        return ["par", subs]
    if name == "get":
        return [name, draw(IDSETS), draw(st.sampled_from(["list", "set", "shared", "shared", "tuple", "gen", "iter", "keys"]))]
    if name == "put":
        ids = draw(st.lists(st.sampled_from(WRITABLE), min_size=1, max_size=4, unique=True))
        return [name, [[a, i, draw(JSON_VALUES)] for a, i in ids]]
    if name in ("subscribe", "unsubscribe"):
        return [name, draw(st.lists(st.sampled_from(ALL_IDS), min_size=1, max_size=6, unique=True))]
    if name == "add_pairing":
        return [name, draw(st.text(alphabet="abcdef0123456789-é", min_size=1, max_size=36)), draw(st.binary(min_size=32, max_size=32)), draw(st.sampled_from(["User", "Admin"]))]
    if name == "remove_pairing":
        return [name, draw(st.text(alphabet="abcdef0123456789-", min_size=1, max_size=36))]
    if name == "image":
        return [name, draw(st.integers(1, 5)), draw(st.integers(1, 4000)), draw(st.integers(1, 4000))]
    if name == "raw_request":
        return [name, draw(st.sampled_from(["get", "Get", "GET", "post", "Put", "delete", "OPTIONS"])), draw(TARGETS)]
    if name == "raw_get":
        return [name, draw(TARGETS)]
    if name in ("raw_put_json", "raw_post_json"):
        return [name, draw(TARGETS), draw(JSON_VALUES)]
    if name in ("raw_post", "raw_put"):
        return [name, draw(TARGETS), draw(st.one_of(st.binary(min_size=1, max_size=64),
                                                    st.integers(1000, 5000).map(lambda n: bytes((i * 13 + n) & 0xFF for i in range(n)))))]
    return [name]


@st.composite
def cases(draw):
    return {"host": draw(st.sampled_from(sorted(HOSTS))), "host2": draw(st.sampled_from([None] + sorted(HOSTS))), "k": draw(st.integers(0, 1000)),
            "ops": draw(st.lists(op(), min_size=1, max_size=8))}


def enum_fixed(tier):
    """Every API x every host family once, so no API depends on the random draw."""
    for a, b in (("v4", "v6"), ("v6", "v4"), ("v4", "v4b"), ("v6scoped", "v6full")):
        yield {"host": a, "host2": b, "k": 2, "ops": [["get", [[1, 9]], "list"], ["move"], ["get", [[1, 9], [2, 10]], "list"], ["put", [[1, 9, True]]], ["move"], ["list"],
                                                   ["raw_post", "/x", b"\x01\x02"]]}
    for hk in ("v4", "v6scoped"):
        yield {"host": hk, "k": 5, "ops": [["par", [["raw_get", "/x/1"], ["raw_put_json", "/x/2", {"a": 1}], ["raw_post", "/x/3", b"\x01\x02"], ["raw_get", "/x/4"]]],
                                           ["par", [["get", [[1, 9]]], ["put", [[1, 10, 5]]], ["get", [[1, 9], [2, 10]]], ["put", [[1, 9, True]]]]], ["list"]]}
    yield {"host": "v4", "k": 6, "ops": [["get", [[1, 9], [1, 10]], "gen"], ["get", [[2, 10]], "iter"], ["get", [[1, 9], [2, 9], [1, 9]], "keys"], ["raw_request", "get", "/x/1"],
                                         ["raw_request", "Post", "/x/2"], ["raw_request", "PUT", "/x/3"], ["raw_request", "delete", "/x/4"]]}
    yield {"host": "v6", "k": 4, "ops": [["get", [[1, 9], [1, 10]], "shared"], ["get", [[1, 9], [1, 10], [2, 10]], "shared"], ["get", [[1, 9]], "shared"],
                                         ["get", [[1, 9]], "tuple"], ["get", [[2, 9], [1, 9]], "shared"]]}
    yield {"host": "v4", "k": 3, "ops": [["put", [[1, 9, 2**64]]], ["put", [[1, 10, [1, {"a": -2**63 - 1}]]]], ["raw_put_json", "/x", {"n": 10**30}], ["raw_post_json", "/x", [2**64 + 1]]]}
    for hk in sorted(HOSTS):
        yield {"host": hk, "k": 1, "ops": [["list"], ["get", [[1, 9]], "list"], ["get", [[1, 9], [2, 10], [1, 10]], "set"],
                                           ["put", [[1, 9, True]]], ["put", [[1, 10, 5], [2, 10, False], [1, 12, 0.5]]],
                                           ["subscribe", [[1, 9], [1, 10], [2, 9]]], ["unsubscribe", [[1, 9]]], ["identify"], ["list_pairings"],
                                           ["add_pairing", "other-ctl", b"\x07" * 32, "User"], ["remove_pairing", "other-ctl"], ["image", 1, 640, 480],
                                           ["raw_get", "/x?y=1"], ["raw_put_json", "/x", {"a": [1, 2, {"b": None}], "c": "d e"}],
                                           ["raw_post_json", "/x", [1.5, "x", True]], ["raw_post", "/x", b"\x00\x01\x02"], ["raw_put", "/x", b"{}"],
                                           ["raw_post", "/x/big", bytes(range(256)) * 10], ["put", [[1, 9, "v" * 2500]]],
                                           ["raw_put_json", "/x", {"k": ["w" * 1100, "z" * 1100]}]]}


SPEC = Property(
    P, "exploration",
    rule=("sequences of 1..8 request-issuing API calls (list accessories, get with 1..12 ids as list or set, put with values of every "
          "JSON type, subscribe/unsubscribe, identify, list/add/remove pairings, image, and connection.get/put/post/put_json/post_json with "
          "generated targets and recursive JSON) on a session to an IPv4, IPv6 or scoped-IPv6 peer, optionally moving to a second advertised address in between; the pair-verify requests of the "
          "insecure phase are checked too. Every request is parsed by the accessory-side strict grammar. Non-trivial: a request with a "
          "body, an IPv6 peer, or a read with >=2 ids."),
    layers=[
        Layer("every-api-every-host", run_case, enumerate=enum_fixed, exhaustive=True, space="20 API calls (three with bodies > 1024 bytes) x 5 peer address forms", min_nontrivial=5),
        Layer("generated", run_case, strategy=cases, n={"quick": 12000, "thorough": 80000}, min_nontrivial=500),
    ],
    assumptions=["bodies passed to put/post directly are non-empty (no caller in the package sends an empty body)",
                 "JSON values incl. integers beyond 64 bits (the encoder may refuse them, but nothing non-canonical may be sent), finite floats, str keys", "a session may move to another advertised address (peer FIN + first address refusing): the Host header follows the peer of each connection"],
    min_nontrivial=500,
)

"""Shared world for C10 / C11: the real IpPairing + SecureHomeKitConnection on a virtual-time loop, a simulated network with
per-host roles and a per-attempt outcome script, and an interpreter for harness events.  Produces a Trace that the two
properties judge with their own oracles."""
import asyncio
import types

from aiohomekit import exceptions as X
from aiohomekit.model import Categories
from aiohomekit.model.feature_flags import FeatureFlags
from aiohomekit.model.status_flags import StatusFlags
from aiohomekit.zeroconf import HomeKitService
from vlib import vtime
from vlib.ipworld import IpWorld

HOST_POOL = ["10.0.0.5", "10.0.0.6", "fd00::7", "10.0.0.8"]
EPS = 1e-6
# per-attempt outcomes for a host that plays the paired accessory
CONNECT_FAIL = {"refused", "hang"}
VERIFY_FAIL = {"close-after-m1", "reset-after-m1", "close-after-m3", "reset-after-m3", "http-4xx", "wrong-id", "bad-sig", "bad-tag", "error-m2:2",
               "error-m4:2", "error-m2:6", "error-m4:3", "error-m2:1", "garbage-m2", "garbage-m4", "hang-m1", "hang-m3", "unknown-controller",
               "damaged-ltpk:short", "damaged-ltpk:nonhex", "damaged-ltsk:odd", "damaged-ltpk:missing"}
# damaged-*: the accessory is honest but the stored pairing data is damaged for this attempt (hand-edited / truncated pairing file): pair-verify
# ends with a ValueError / KeyError of the state machine instead of a protocol error
DAMAGE = {"short": lambda v: v[:20], "nonhex": lambda v: "zz" + v[2:], "odd": lambda v: v[:-1], "missing": None}
AUTH_OUTCOMES = {"error-m2:2", "error-m4:2", "unknown-controller"}      # the accessory reports an authentication error
SUCCESS = {"ok", "ok-drop:0.5", "ok-drop:20", "ok-drop-resub:fin", "ok-drop-resub:reset", "ok-resub-garbage"}
ALL_OUTCOMES = sorted(CONNECT_FAIL | VERIFY_FAIL | SUCCESS)


def description(hosts, port, state_num=1):
    return HomeKitService(name="Sim", id="aa:bb:cc:dd:ee:ff", model="Sim1,1", feature_flags=FeatureFlags(0), status_flags=StatusFlags(0),
                          config_num=0, state_num=state_num, category=Categories(1), protocol_version="1.1", type="_hap._tcp.local.",
                          address=hosts[0], addresses=list(hosts), port=port)


class Trace:
    def __init__(self):
        self.attempts = []        # dict(n, start, end, exc, offered, connected, run)
        self.runs = []            # dict(id, start, end, exc)  invocations of the reconnect loop that got past the lock
        self.ops = []             # (time, op, note)
        self.wakeups = []         # times of reconnect_soon / description updates
        self.triggers = []        # times of explicit triggers (requests, subscribe, description update)
        self.strong_triggers = []  # triggers that must (re)start connecting: requests and discovery updates (a subscribe in polling fallback does not)
        self.closes = []          # (time, kind, raised)
        self.callers = []         # dict(kind, start, end, outcome, timeout)
        self.obs = []             # observations after every op: dict(time, held, acc_open, connected, connector_alive, ...)
        self.new_conn_held = []   # (time, number of transports the controller holds when a new connection opens, incl. the new one)
        self.max_active_attempts = 0
        self.problems = []        # (clause, message, ctx) found inline by the interpreter
        self.final = {}
        self.hosts = []
        self.advertised = []      # (time, hosts)
        self.lost = []            # times at which an established session was lost


class _Roles(dict):
    """host -> role, whatever the spelling of the address"""

    def __init__(self, items=()):
        super().__init__()
        for k, v in items:
            self[k] = v

    def __setitem__(self, k, v):
        from vlib.simnet import canon_host
        super().__setitem__(canon_host(k), v)

    def __getitem__(self, k):
        from vlib.simnet import canon_host
        return super().__getitem__(canon_host(k))

    def get(self, k, d=None):
        from vlib.simnet import canon_host
        return super().get(canon_host(k), d)


class ReconWorld:
    def __init__(self, loop, case):
        self.loop = loop
        self.case = case
        roles = case["hosts"]                     # list of roles: "main" | "other" | "dead" | "blackhole"
        self.hosts = HOST_POOL[:len(roles)]
        if case.get("spelling") and len(self.hosts) >= 3:
            # the stored address list spells the IPv6 address another way than the canonical one (written by another tool, edited by hand)
            self.hosts[2] = ["fd00:0:0:0:0:0:0:7", "FD00::7", "fd00:0000::0007"][case["spelling"] % 3]
        self.roles = _Roles(zip(self.hosts, roles))
        mains = [h for h in self.hosts if self.roles[h] in ("main", "dead", "blackhole")] or self.hosts[:1]
        others = [h for h in self.hosts if self.roles[h] == "other"]
        self.w = IpWorld(loop, hosts=tuple(self.hosts), k=case.get("k", 0), other_accessory_hosts=tuple(others))
        # IpWorld maps every host in `hosts` to the paired accessory; re-point the "other" hosts
        for h in others:
            self.w.net.accessories[h] = self.w.other
        self.p = self.w.pairing
        self.conn = self.p.connection
        self.script = list(case.get("script", []))
        self.tr = Trace()
        self.tr.hosts = list(self.hosts)
        self.tr.advertised.append((0.0, list(self.hosts)))
        self.attempt_no = 0
        self.active_attempts = 0
        self.cur_outcome = "ok"
        self.run_no = 0
        self.port = 51826
        self.state_num = 1
        self._abandoned = set()
        self.garble = []
        self.tasks = []
        self._instrument()

    # ---- instrumentation from outside (DESIGN 2.3): wrap, do not replace
    def _instrument(self):
        w, tr, loop = self.w, self.tr, self.loop
        conn = self.conn
        orig_once = conn._connect_once
        orig_reconnect = conn._reconnect

        async def connect_once():
            self.attempt_no += 1
            n = self.attempt_no
            self.cur_outcome = self.script[n - 1] if n - 1 < len(self.script) else "ok"
            rec = {"n": n, "start": loop.time(), "end": None, "exc": None, "offered": [], "connected": None, "outcome": self.cur_outcome,
                   "run": self.run_no, "calls_from": len(w.net.calls)}
            tr.attempts.append(rec)
            self.active_attempts += 1
            tr.max_active_attempts = max(tr.max_active_attempts, self.active_attempts)
            pd = conn.pairing_data
            clean = dict(pd)
            if self.cur_outcome.startswith("damaged-"):
                field, how = self.cur_outcome[len("damaged-"):].split(":")
                key = {"ltpk": "AccessoryLTPK", "ltsk": "iOSDeviceLTSK"}[field]
                if DAMAGE[how] is None:
                    del pd[key]
                else:
                    pd[key] = DAMAGE[how](pd[key])
            try:
                return await orig_once()
            except BaseException as e:
                rec["exc"] = type(e).__name__
                raise
            finally:
                pd.clear()
                pd.update(clean)
                self.active_attempts -= 1
                rec["end"] = loop.time()
                calls = w.net.calls[rec["calls_from"]:]
                rec["offered"] = [list(c[1]) for c in calls]
                rec["connected"] = next((c[2].split(":", 1)[1] for c in calls if c[2] and c[2].startswith("connected:")), None)
        conn._connect_once = connect_once

        async def reconnect():
            if conn._connect_lock.locked():
                return await orig_reconnect()
            self.run_no += 1
            run = {"id": self.run_no, "start": loop.time(), "end": None, "exc": None}
            tr.runs.append(run)
            try:
                return await orig_reconnect()
            except BaseException as e:
                run["exc"] = type(e).__name__
                raise
            finally:
                run["end"] = loop.time()
        conn._reconnect = reconnect

        def connect_policy(host, ncall):
            role = self.roles.get(host, "dead")
            if role == "dead":
                return "refuse"
            if role == "blackhole":
                return "hang"
            if role == "other":
                return "accept"
            if self.cur_outcome == "refused":
                return "refuse"
            if self.cur_outcome == "hang":
                return "hang"
            return "accept"
        w.net.connect_policy = connect_policy

        def verify_policy(c):
            o = self.cur_outcome
            if o in VERIFY_FAIL and o != "unknown-controller" and not o.startswith("damaged-"):
                return o
            return "ok"
        w.acc.verify_policy = verify_policy
        if w.other is not None:
            w.other.verify_policy = lambda c: "ok"       # honest, but another identity: the controller sees a wrong pairing id

        def on_secure(c):
            o = getattr(c, "attempt_outcome", "ok")
            if o.startswith("ok-drop:"):
                loop.call_later(float(o.split(":")[1]), self._drop_if_current, c)
        w.acc.on_secure = on_secure

        def on_request(c, req):
            o = getattr(c, "attempt_outcome", "ok")
            if self.garble and c.secure and req.method == "PUT":
                # legal-but-rare misbehaviour: the next reply on the session is not what the request calls for (body that is not JSON / not
                # UTF-8); the library gives the session up by itself - and must then connect again
                kind = self.garble.pop(0)
                c.send_http(200, "OK", b"\xff\xfe{" if kind == "bytes" else b"{not json")
                return True
            if o == "ok-resub-garbage" and req.method == "PUT" and b'"ev"' in req.body and not getattr(c, "resub_dropped", False):
                # the re-subscription is answered with a multi-status body whose entries lack the status member
                c.resub_dropped = True
                c.send_http(207, "Multi-Status", b'{"characteristics":[{"aid":1,"iid":9}]}')
                return True
            if o.startswith("ok-drop-resub:") and req.method == "PUT" and b'"ev"' in req.body and not getattr(c, "resub_dropped", False):
                c.resub_dropped = True
                c.close(o.split(":")[1])
                tr.lost.append(loop.time())
                return True
            return False
        w.acc.on_request = on_request

        orig_create = w.net.create_connection

        async def create_connection(lp, factory, sock):
            res = await orig_create(lp, factory, sock)
            acc = w.net.accessories[sock.host]
            c = acc.conns[-1]
            c.attempt_outcome = self.cur_outcome
            if self.cur_outcome == "unknown-controller" and acc is w.acc:
                pass
            held = sum(1 for a in self._accs() for x in a.conns if not x.t.is_closing())
            tr.new_conn_held.append((loop.time(), held, self.cur_outcome))
            return res
        loop.create_connection_hook = create_connection
        # unknown-controller: the accessory has forgotten this controller (answers M4 with an authentication error by itself)
        self._ios_id = self.w.pairing_data["iOSPairingId"].encode()
        self._ios_ltpk = self.w.ios_ltpk
        orig_pv = w.acc.pair_verify

        def pair_verify(c, req):
            if self.cur_outcome == "unknown-controller":
                w.ident.controllers.pop(self._ios_id, None)
            else:
                w.ident.controllers[self._ios_id] = self._ios_ltpk
            return orig_pv(c, req)
        w.acc.pair_verify = pair_verify

    def _accs(self):
        return [a for a in (self.w.acc, self.w.other) if a is not None]

    def _drop_if_current(self, c, how="fin"):
        if c.open and not c.peer_closed:
            c.close(how)
            self.tr.lost.append(self.loop.time())

    def held(self):
        return [x for a in self._accs() for x in a.conns if not x.t.is_closing()]

    def acc_open(self):
        return [x for a in self._accs() for x in a.conns if x.open]

    # ---- harness events
    async def do(self, op, settle=True):
        loop, p, tr = self.loop, self.p, self.tr
        name = op[0]
        t0 = loop.time()
        note = None
        # close()/shutdown() end the life of the pairing in these histories (the statements treat close as final): afterwards only
        # time, peer-side drops, further closes and - after shutdown - discovery updates (which must not wake anything) are applied.
        closed_kinds = {k for _, k, _, _ in tr.closes}
        reuse = bool(self.case.get("reuse")) and "shutdown" not in closed_kinds      # (C11 only) the pairing is used again after close()
        if not reuse and (closed_kinds and name in ("call", "open", "sub", "soon") or ("close" in closed_kinds and "shutdown" not in closed_kinds and name == "zc")):
            tr.ops.append((t0, list(op), "skipped-after-close"))
            self.observe()
            return
        if name in ("call", "open"):
            kind = op[1] if len(op) > 1 else "none"
            rec = {"kind": kind, "start": t0, "end": None, "outcome": None}
            tr.callers.append(rec)
            tr.triggers.append(t0)
            tr.strong_triggers.append(t0)

            async def caller():
                try:
                    coro = p.list_accessories_and_characteristics() if name == "open" else p.get_characteristics([(1, 9)])
                    if kind in ("0.1", "5"):
                        r = await asyncio.wait_for(coro, float(kind))
                    else:
                        r = await coro
                    rec["outcome"] = ("ok", None)
                    return r
                except asyncio.CancelledError:
                    rec["outcome"] = ("cancelled", None)
                    raise
                except BaseException as e:  # noqa: BLE001
                    rec["outcome"] = ("exc", e)
                finally:
                    rec["end"] = loop.time()
            t = asyncio.ensure_future(caller())
            rec["task"] = t
            self.tasks.append(t)
            if kind.startswith("cancel:"):
                loop.call_later(float(kind.split(":")[1]), t.cancel)
        elif name == "sub":
            tr.triggers.append(t0)
            ids = [(1, 9), (2, 10)] if len(op) < 2 else [tuple(x) for x in op[1]]
            t = asyncio.ensure_future(self._swallow(p.subscribe(ids)))
            self.tasks.append(t)
        elif name == "adv":
            await asyncio.sleep(op[1])
        elif name == "zc":
            kind = op[1]
            hosts = list(self.hosts)
            if kind == "rotate" and len(hosts) > 1:
                hosts = hosts[1:] + hosts[:1]
            elif kind == "add":
                new = next((h for h in HOST_POOL if h not in hosts), None)
                if new:
                    hosts.append(new)
                    self.roles[new] = "main"
                    self.w.net.accessories[new] = self.w.acc
            elif kind == "drop-first" and len(hosts) > 1:
                hosts = hosts[1:]
            elif kind == "port":
                self.port += 1
            elif kind == "move-main":
                # the paired accessory now answers on every advertised address (e.g. DHCP reshuffle): roles other/dead -> main
                for h in hosts:
                    self.roles[h] = "main"
                    self.w.net.accessories[h] = self.w.acc
            self.hosts = hosts
            self.state_num += 1
            tr.wakeups.append(t0)
            tr.triggers.append(t0)
            tr.strong_triggers.append(t0)
            tr.advertised.append((t0, list(hosts)))
            try:
                p._async_description_update(description(hosts, self.port, self.state_num))
            except Exception as e:  # noqa: BLE001
                tr.problems.append(("description-update-raises", f"{type(e).__name__}: {e}", {}))
        elif name == "soon":
            tr.wakeups.append(t0)
            if not p._shutdown:
                self.conn.reconnect_soon()
        elif name == "garble":
            self.garble.append(op[1] if len(op) > 1 else "text")
            note = "armed"
        elif name == "stall":
            # the accessory stops reading: what the controller writes from now on stays in its transport's write buffer, and a close()
            # of that transport completes (connection_lost) only when the buffer is flushed or the socket fails - as asyncio's does
            cur = [c for c in self.held() if c.secure and c.open and not c.peer_closed and not c.t.stalled]
            if cur:
                cur[-1].t.stalled = True
                tr.final["stalled"] = True
                note = "stalled"
        elif name == "drop":
            cur = [c for c in self.held() if c.secure and c.open and not c.peer_closed]
            if cur:
                cur[-1].close(op[1])
                tr.lost.append(t0)
                note = "dropped"
        elif name == "dropold":
            # the accessory closes a connection that is not the newest one (only possible if the controller still holds it)
            cands = [c for c in self.acc_open() if not c.peer_closed]
            if len(cands) > 1:
                cands[0].close(op[1])
                note = "dropped-old"
        elif name in ("close", "shutdown"):
            raised = None
            if len(op) > 1 and op[1] == "after-drop":
                # the accessory's FIN / RST has reached the socket, the event loop has not polled it yet, and the application closes the pairing
                cur = [c for c in self.held() if c.secure and c.open and not c.peer_closed]
                if cur:
                    cur[-1].close(op[2])
                    tr.lost.append(t0)
                    note = "dropped"
            elif len(op) > 1 and op[1] == "racing":
                # another user of the pairing gets going in the very loop iterations in which close()/shutdown() is suspended
                racer = op[2] if len(op) > 2 else "call"
                if racer == "zc":
                    self.state_num += 1

                    def late_update(n=self.state_num):
                        try:
                            self.p._async_description_update(description(list(self.hosts), self.port, n))
                        except Exception as e:  # noqa: BLE001
                            tr.problems.append(("description-update-raises", f"{type(e).__name__}: {e}", {}))
                    loop.call_soon(late_update)
                else:
                    await self.do((racer, "none") if racer == "call" else (racer,), settle=False)
            try:
                await (p.close() if name == "close" else p.shutdown())
            except asyncio.CancelledError:
                raise
            except BaseException as e:  # noqa: BLE001
                raised = e
            tr.closes.append((t0, name, raised, loop.time()))
        else:
            raise AssertionError(name)
        if not settle:
            tr.ops.append((t0, list(op), "racing"))
            return
        await vtime.settle(loop)
        tr.ops.append((t0, list(op), note))
        self.observe()

    async def _swallow(self, coro):
        try:
            return await coro
        except asyncio.CancelledError:
            raise
        except BaseException as e:  # noqa: BLE001
            self.tr.problems.append(("subscribe-raises", f"{type(e).__name__}: {e}", {"exc": type(e).__name__}))

    def observe(self):
        c = self.conn
        # the controller itself gave up the newest established session (request timeout, protocol error ...) while the pairing is open:
        # that is a lost session as much as a drop by the peer
        allc = sorted((x for a in self._accs() for x in a.conns), key=lambda x: x.opened_at)
        if allc and not self.tr.closes:
            x = allc[-1]
            at = x.t.closed_by_controller_at
            if x.secure and at is not None and not x.peer_closed and id(x) not in self._abandoned:
                self._abandoned.add(id(x))
                self.tr.lost.append(at)
        self.tr.obs.append({"time": self.loop.time(), "held": len(self.held()), "acc_open": len(self.acc_open()),
                            "connected": bool(self.p.is_connected), "attempts": len(self.tr.attempts),
                            "active": self.active_attempts,
                            "connector_alive": bool(c._connector and not c._connector.done())})

    async def finish(self, drain=True):
        """End of history: let the script run out, then give a healthy accessory 200 virtual seconds."""
        tr, loop = self.tr, self.loop
        closed = any(k in ("close", "shutdown") for _, k, _, _ in tr.closes)
        tr.final["closed"] = closed
        tr.final["shutdown"] = any(k == "shutdown" for _, k, _, _ in tr.closes)
        tr.final["time_before_drain"] = loop.time()
        tr.final["attempts_before_drain"] = len(tr.attempts)
        if drain:
            self.script = self.script[:self.attempt_no]      # everything from now on succeeds
            for h in self.hosts:
                if self.roles.get(h) in ("dead", "blackhole"):
                    pass
            await asyncio.sleep(200)
            await vtime.settle(loop)
            self.observe()
        tr.final["connected"] = bool(self.p.is_connected)
        tr.final["held"] = len(self.held())
        tr.final["acc_open"] = len(self.acc_open())
        tr.final["connector_alive"] = tr.obs[-1]["connector_alive"] if tr.obs else False
        tr.final["last_run_exc"] = tr.runs[-1]["exc"] if tr.runs else None

    async def teardown(self):
        for t in self.tasks:
            t.cancel()
        try:
            await self.p.shutdown()
        except BaseException:  # noqa: BLE001
            pass
        await vtime.settle(self.loop)
        self.w.restore()


def run_history(case, judge, R, drain=True):
    """Runs the case; `judge(trace, world)` adds failures to R."""
    async def main(loop):
        rw = ReconWorld(loop, case)
        try:
            try:
                for op in case["ops"]:
                    await rw.do(tuple(op) if not isinstance(op, tuple) else op)
                await rw.finish(drain)
            except vtime.VBudget as e:
                rw.tr.problems.append(("busy-loop", f"{e}; attempts={len(rw.tr.attempts)} at t={loop.time():.1f}", {}))
            except vtime.VDeadlock as e:
                rw.tr.problems.append(("deadlock", str(e), {}))
            judge(rw.tr, rw)
        finally:
            try:
                await rw.teardown()
            except (vtime.VBudget, vtime.VDeadlock):
                pass
    vtime.run(main, max_iterations=case.get("max_iterations", 400_000))

"""Reference HAP primitives written from the specification (HAP R2, RFC 5054, RFC 5869,
RFC 8439).  Nothing here imports aiohomekit; the only third-party code is the `cryptography`
package (X25519, Ed25519, ChaCha20-Poly1305), which is the trusted base of the reference peer.
"""
from __future__ import annotations

import hashlib
import hmac
import struct

from cryptography.exceptions import InvalidSignature, InvalidTag
from cryptography.hazmat.primitives import serialization
from cryptography.hazmat.primitives.asymmetric import ed25519, x25519
from cryptography.hazmat.primitives.ciphers import Cipher, algorithms
from cryptography.hazmat.primitives.ciphers.aead import ChaCha20Poly1305

RAW_PUB = dict(encoding=serialization.Encoding.Raw, format=serialization.PublicFormat.Raw)

# TLV types (HAP table 5-6)
T_METHOD, T_ID, T_SALT, T_PK, T_PROOF, T_ENC, T_STATE, T_ERROR, T_DELAY, T_CERT, T_SIG, T_PERM = range(12)
T_FRAGDATA, T_FRAGLAST, T_SESSIONID = 12, 13, 14
T_SEP = 255


# ------------------------------------------------------------------ TLV8
def tlv_enc(items) -> bytes:
    """Canonical TLV8: maximal 255-byte fragments, `t 00` for an empty value."""
    out = bytearray()
    for t, v in items:
        v = bytes(v)
        if not v:
            out += bytes([t, 0])
            continue
        for i in range(0, len(v), 255):
            c = v[i:i + 255]
            out += bytes([t, len(c)]) + c
    return bytes(out)


class RefTlvError(Exception):
    pass


def tlv_walk(b: bytes):
    """Plain type,len,value walk; raises RefTlvError when the input runs short."""
    i = 0
    out = []
    while i < len(b):
        if i + 1 >= len(b):
            raise RefTlvError("missing length byte")
        t, l = b[i], b[i + 1]
        v = b[i + 2:i + 2 + l]
        if len(v) != l:
            raise RefTlvError("value shorter than declared")
        out.append((t, bytes(v)))
        i += 2 + l
    return out


def tlv_dec(b: bytes):
    """Spec decoder: a fragment continues the previous item iff same type and the previous
    fragment was full (255 bytes)."""
    items = []
    prev_full = False
    for t, v in tlv_walk(b):
        if items and items[-1][0] == t and prev_full:
            items[-1] = (t, items[-1][1] + v)
        else:
            items.append((t, v))
        prev_full = len(v) == 255
    return items


def tlv_runs(items):
    """Flatten an item list to runs of equal type with concatenated bytes (grouping-free view)."""
    runs = []
    for t, v in items:
        v = bytes(v)
        if runs and runs[-1][0] == t:
            runs[-1][1] += v
        else:
            runs.append([t, bytearray(v)])
    return [(t, bytes(v)) for t, v in runs]


# ------------------------------------------------------------------ HKDF / AEAD
def hkdf_sha512(ikm: bytes, salt: bytes, info: bytes, length: int = 32) -> bytes:
    prk = hmac.new(salt, ikm, hashlib.sha512).digest()
    okm = b""
    t = b""
    i = 1
    while len(okm) < length:
        t = hmac.new(prk, t + info + bytes([i]), hashlib.sha512).digest()
        okm += t
        i += 1
    return okm[:length]


def nonce(label8: bytes | None = None, ctr: int | None = None) -> bytes:
    return b"\x00" * 4 + (label8 if label8 is not None else struct.pack("<Q", ctr))


def aead_enc(key: bytes, n: bytes, pt: bytes, aad: bytes = b"") -> bytes:
    return ChaCha20Poly1305(key).encrypt(n, pt, aad)


def aead_dec(key: bytes, n: bytes, ct: bytes, aad: bytes = b"") -> bytes | None:
    try:
        return ChaCha20Poly1305(key).decrypt(n, ct, aad)
    except InvalidTag:
        return None


def chacha20_raw(key: bytes, n12: bytes, data: bytes, counter: int = 1) -> bytes:
    """Raw ChaCha20 keystream xor (RFC 8439 block counter starts at 1 for AEAD payloads)."""
    c = Cipher(algorithms.ChaCha20(key, struct.pack("<I", counter) + n12), mode=None).encryptor()
    return c.update(data)


def aead_open_partial_tag(key: bytes, n12: bytes, ct: bytes, tag4: bytes, aad: bytes) -> bytes | None:
    """Broadcast-notification AEAD with a truncated (4-byte) tag, built from the full AEAD:
    decrypt with the raw stream cipher, re-encrypt with the AEAD, compare the tag prefix."""
    pt = chacha20_raw(key, n12, ct)
    full = ChaCha20Poly1305(key).encrypt(n12, pt, aad)
    if full[:len(ct)] != ct:
        return None
    if not hmac.compare_digest(full[len(ct):len(ct) + len(tag4)], tag4):
        return None
    return pt


def ed_pub(sk: ed25519.Ed25519PrivateKey) -> bytes:
    return sk.public_key().public_bytes(**RAW_PUB)


def ed_from_seed(seed32: bytes) -> ed25519.Ed25519PrivateKey:
    return ed25519.Ed25519PrivateKey.from_private_bytes(seed32)


def ed_verify(pk: bytes, sig: bytes, msg: bytes) -> bool:
    try:
        ed25519.Ed25519PublicKey.from_public_bytes(pk).verify(sig, msg)
        return True
    except (InvalidSignature, ValueError):
        return False


def x_from_seed(seed32: bytes) -> x25519.X25519PrivateKey:
    return x25519.X25519PrivateKey.from_private_bytes(seed32)


def x_pub(sk: x25519.X25519PrivateKey) -> bytes:
    return sk.public_key().public_bytes(**RAW_PUB)


# ------------------------------------------------------------------ SRP-6a (RFC 5054 3072-bit group, SHA-512, HomeKit)
SRP_N = int(
    "FFFFFFFFFFFFFFFFC90FDAA22168C234C4C6628B80DC1CD129024E088A67CC74020BBEA63B139B22514A08798E3404DD"
    "EF9519B3CD3A431B302B0A6DF25F14374FE1356D6D51C245E485B576625E7EC6F44C42E9A637ED6B0BFF5CB6F406B7ED"
    "EE386BFB5A899FA5AE9F24117C4B1FE649286651ECE45B3DC2007CB8A163BF0598DA48361C55D39A69163FA8FD24CF5F"
    "83655D23DCA3AD961C62F356208552BB9ED529077096966D670C354E4ABC9804F1746C08CA18217C32905E462E36CE3B"
    "E39E772C180E86039B2783A2EC07A28FB5C55DF06F4C52C9DE2BCBF6955817183995497CEA956AE515D2261898FA0510"
    "15728E5A8AAAC42DAD33170D04507A33A85521ABDF1CBA64ECFB850458DBEF0A8AEA71575D060C7DB3970F85A6E1E4C7"
    "ABF5AE8CDB0933D71E8C94E04A25619DCEE3D2261AD2EE6BF12FFA06D98A0864D87602733EC86A64521F2B18177B200C"
    "BBE117577A615D6C770988C0BAD946E208E24FA074E5AB3143DB5BFCE0FD108E4B82D120A93AD2CAFFFFFFFFFFFFFFFF", 16)
SRP_G = 5


def H(*a: bytes) -> bytes:
    return hashlib.sha512(b"".join(a)).digest()


def PAD(x: int) -> bytes:
    return x.to_bytes(384, "big")


SRP_K = int.from_bytes(H(PAD(SRP_N), PAD(SRP_G)), "big")


def srp_x(user: str, code: str, salt: bytes) -> int:
    return int.from_bytes(H(salt, H((user + ":" + code).encode())), "big")


class SrpExchange:
    """All values of one SRP-6a exchange, computed on the accessory side from (code, salt, b)
    and the client's public value A."""

    def __init__(self, code: str, salt: bytes, b: int, user: str = "Pair-Setup"):
        self.user, self.code, self.salt, self.b = user, code, salt, b
        self.x = srp_x(user, code, salt)
        self.v = pow(SRP_G, self.x, SRP_N)
        self.B = (SRP_K * self.v + pow(SRP_G, b, SRP_N)) % SRP_N

    def client_public(self, a: int) -> int:
        return pow(SRP_G, a, SRP_N)

    def finish(self, A: int):
        self.A = A
        self.u = int.from_bytes(H(PAD(A), PAD(self.B)), "big")
        self.S = pow(A * pow(self.v, self.u, SRP_N) % SRP_N, self.b, SRP_N)
        self.K = H(PAD(self.S))
        hN = H(SRP_N.to_bytes(384, "big"))
        hg = H(b"\x05")
        self.M1 = H(bytes(p ^ q for p, q in zip(hN, hg)), H(self.user.encode()), self.salt, PAD(A), PAD(self.B), self.K)
        self.M2 = H(PAD(A), self.M1, self.K)
        return self


# ------------------------------------------------------------------ IP session frames
def frames_enc(key: bytes, ctr: int, data: bytes, sizes=None):
    """Encrypt `data` as HAP IP frames; `sizes` is an iterable of plaintext frame sizes
    (cycled; default 1024).  Returns (bytes, next counter)."""
    out = bytearray()
    i = 0
    k = 0
    sizes = list(sizes or [1024])
    while i < len(data):
        n = max(1, min(1024, sizes[k % len(sizes)]))
        k += 1
        c = data[i:i + n]
        i += n
        aad = struct.pack("<H", len(c))
        out += aad + aead_enc(key, nonce(ctr=ctr), c, aad)
        ctr += 1
    return bytes(out), ctr


class FrameError(Exception):
    pass


def frames_dec(key: bytes, ctr: int, stream: bytes):
    """Strict deframer: returns (list of plaintext frames, next counter, leftover)."""
    frames = []
    i = 0
    while len(stream) - i >= 2:
        n = struct.unpack("<H", stream[i:i + 2])[0]
        if n > 1024:
            raise FrameError(f"frame length {n} > 1024")
        if n == 0:
            raise FrameError("empty frame")
        if len(stream) - i < 2 + n + 16:
            break
        pt = aead_dec(key, nonce(ctr=ctr), stream[i + 2:i + 2 + n + 16], stream[i:i + 2])
        if pt is None:
            raise FrameError(f"frame with counter {ctr} does not authenticate")
        frames.append(pt)
        ctr += 1
        i += 2 + n + 16
    return frames, ctr, stream[i:]


# ------------------------------------------------------------------ structured TLV8 (HAP-BLE / CoAP / camera structs)
def enc_struct(items) -> bytes:
    """Generic reference encoder.  items: list of (type, v) with v = bytes | list-of-items
    (nested message) | ("list", [items, ...]) (list of messages, `00 00` between them).
    Values are split into maximal 255-byte fragments; a zero-length value is `t 00`."""
    out = bytearray()
    for t, v in items:
        if isinstance(v, tuple) and v[0] == "list":
            v = b"\x00\x00".join(enc_struct(x) for x in v[1])
        elif isinstance(v, list):
            v = enc_struct(v)
        v = bytes(v)
        if not v:
            out += bytes([t, 0])
            continue
        for i in range(0, len(v), 255):
            c = v[i:i + 255]
            out += bytes([t, len(c)]) + c
    return bytes(out)

"""Reference HAP primitives written from the specification (HAP R2, RFC 5054, RFC 5869,
RFC 8439).  Nothing here imports aiohomekit; the only third-party code is the `cryptography`
package (X25519, Ed25519, ChaCha20-Poly1305), which is the trusted base of the reference peer.
"""
from __future__ import annotations

import hashlib
import hmac
import struct

from cryptography.exceptions import InvalidSignature, InvalidTag
from cryptography.hazmat.primitives import serialization
from cryptography.hazmat.primitives.asymmetric import ed25519, x25519
from cryptography.hazmat.primitives.ciphers import Cipher, algorithms
from cryptography.hazmat.primitives.ciphers.aead import ChaCha20Poly1305

RAW_PUB = dict(encoding=serialization.Encoding.Raw, format=serialization.PublicFormat.Raw)

# TLV types (HAP table 5-6)
T_METHOD, T_ID, T_SALT, T_PK, T_PROOF, T_ENC, T_STATE, T_ERROR, T_DELAY, T_CERT, T_SIG, T_PERM = range(12)
T_FRAGDATA, T_FRAGLAST, T_SESSIONID = 12, 13, 14
T_SEP = 255


# ------------------------------------------------------------------ TLV8
def tlv_enc(items) -> bytes:
    """Canonical TLV8: maximal 255-byte fragments, `t 00` for an empty value."""
    out = bytearray()
    for t, v in items:
        v = bytes(v)
        if not v:
            out += bytes([t, 0])
            continue
        for i in range(0, len(v), 255):
            c = v[i:i + 255]
            out += bytes([t, len(c)]) + c
    return bytes(out)


class RefTlvError(Exception):
    pass


def tlv_walk(b: bytes):
    """Plain type,len,value walk; raises RefTlvError when the input runs short."""
    i = 0
    out = []
    while i < len(b):
        if i + 1 >= len(b):
            raise RefTlvError("missing length byte")
        t, l = b[i], b[i + 1]
        v = b[i + 2:i + 2 + l]
        if len(v) != l:
            raise RefTlvError("value shorter than declared")
        out.append((t, bytes(v)))
        i += 2 + l
    return out


def tlv_dec(b: bytes):
    """Spec decoder: a fragment continues the previous item iff same type and the previous
    fragment was full (255 bytes)."""
    items = []
    prev_full = False
    for t, v in tlv_walk(b):
        if items and items[-1][0] == t and prev_full:
            items[-1] = (t, items[-1][1] + v)
        else:
            items.append((t, v))
        prev_full = len(v) == 255
    return items


def tlv_runs(items):
    """Flatten an item list to runs of equal type with concatenated bytes (grouping-free view)."""
    runs = []
    for t, v in items:
        v = bytes(v)
        if runs and runs[-1][0] == t:
            runs[-1][1] += v
        else:
            runs.append([t, bytearray(v)])
    return [(t, bytes(v)) for t, v in runs]


# ------------------------------------------------------------------ HKDF / AEAD
def hkdf_sha512(ikm: bytes, salt: bytes, info: bytes, length: int = 32) -> bytes:
    prk = hmac.new(salt, ikm, hashlib.sha512).digest()
    okm = b""
    t = b""
    i = 1
    while len(okm) < length:
        t = hmac.new(prk, t + info + bytes([i]), hashlib.sha512).digest()
        okm += t
        i += 1
    return okm[:length]


def nonce(label8: bytes | None = None, ctr: int | None = None) -> bytes:
    return b"\x00" * 4 + (label8 if label8 is not None else struct.pack("<Q", ctr))


def aead_enc(key: bytes, n: bytes, pt: bytes, aad: bytes = b"") -> bytes:
    return ChaCha20Poly1305(key).encrypt(n, pt, aad)


def aead_dec(key: bytes, n: bytes, ct: bytes, aad: bytes = b"") -> bytes | None:
    try:
        return ChaCha20Poly1305(key).decrypt(n, ct, aad)
    except InvalidTag:
        return None


def chacha20_raw(key: bytes, n12: bytes, data: bytes, counter: int = 1) -> bytes:
    """Raw ChaCha20 keystream xor (RFC 8439 block counter starts at 1 for AEAD payloads)."""
    c = Cipher(algorithms.ChaCha20(key, struct.pack("<I", counter) + n12), mode=None).encryptor()
    return c.update(data)


def aead_open_partial_tag(key: bytes, n12: bytes, ct: bytes, tag4: bytes, aad: bytes) -> bytes | None:
    """Broadcast-notification AEAD with a truncated (4-byte) tag, built from the full AEAD:
    decrypt with the raw stream cipher, re-encrypt with the AEAD, compare the tag prefix."""
    pt = chacha20_raw(key, n12, ct)
    full = ChaCha20Poly1305(key).encrypt(n12, pt, aad)
    if full[:len(ct)] != ct:
        return None
    if not hmac.compare_digest(full[len(ct):len(ct) + len(tag4)], tag4):
        return None
    return pt


def ed_pub(sk: ed25519.Ed25519PrivateKey) -> bytes:
    return sk.public_key().public_bytes(**RAW_PUB)


def ed_from_seed(seed32: bytes) -> ed25519.Ed25519PrivateKey:
    return ed25519.Ed25519PrivateKey.from_private_bytes(seed32)


def ed_verify(pk: bytes, sig: bytes, msg: bytes) -> bool:
    try:
        ed25519.Ed25519PublicKey.from_public_bytes(pk).verify(sig, msg)
        return True
    except (InvalidSignature, ValueError):
        return False


def x_from_seed(seed32: bytes) -> x25519.X25519PrivateKey:
    return x25519.X25519PrivateKey.from_private_bytes(seed32)


def x_pub(sk: x25519.X25519PrivateKey) -> bytes:
    return sk.public_key().public_bytes(**RAW_PUB)


# ------------------------------------------------------------------ SRP-6a (RFC 5054 3072-bit group, SHA-512, HomeKit)
SRP_N = int(
    "FFFFFFFFFFFFFFFFC90FDAA22168C234C4C6628B80DC1CD129024E088A67CC74020BBEA63B139B22514A08798E3404DD"
    "EF9519B3CD3A431B302B0A6DF25F14374FE1356D6D51C245E485B576625E7EC6F44C42E9A637ED6B0BFF5CB6F406B7ED"
    "EE386BFB5A899FA5AE9F24117C4B1FE649286651ECE45B3DC2007CB8A163BF0598DA48361C55D39A69163FA8FD24CF5F"
    "83655D23DCA3AD961C62F356208552BB9ED529077096966D670C354E4ABC9804F1746C08CA18217C32905E462E36CE3B"
    "E39E772C180E86039B2783A2EC07A28FB5C55DF06F4C52C9DE2BCBF6955817183995497CEA956AE515D2261898FA0510"
    "15728E5A8AAAC42DAD33170D04507A33A85521ABDF1CBA64ECFB850458DBEF0A8AEA71575D060C7DB3970F85A6E1E4C7"
    "ABF5AE8CDB0933D71E8C94E04A25619DCEE3D2261AD2EE6BF12FFA06D98A0864D87602733EC86A64521F2B18177B200C"
    "BBE117577A615D6C770988C0BAD946E208E24FA074E5AB3143DB5BFCE0FD108E4B82D120A93AD2CAFFFFFFFFFFFFFFFF", 16)
SRP_G = 5


def H(*a: bytes) -> bytes:
    return hashlib.sha512(b"".join(a)).digest()


def PAD(x: int) -> bytes:
    return x.to_bytes(384, "big")


SRP_K = int.from_bytes(H(PAD(SRP_N), PAD(SRP_G)), "big")


def srp_x(user: str, code: str, salt: bytes) -> int:
    return int.from_bytes(H(salt, H((user + ":" + code).encode())), "big")


class SrpExchange:
    """All values of one SRP-6a exchange, computed on the accessory side from (code, salt, b)
    and the client's public value A."""

    def __init__(self, code: str, salt: bytes, b: int, user: str = "Pair-Setup"):
        self.user, self.code, self.salt, self.b = user, code, salt, b
        self.x = srp_x(user, code, salt)
        self.v = pow(SRP_G, self.x, SRP_N)
        self.B = (SRP_K * self.v + pow(SRP_G, b, SRP_N)) % SRP_N

    def client_public(self, a: int) -> int:
        return pow(SRP_G, a, SRP_N)

    def finish(self, A: int):
        self.A = A
        self.u = int.from_bytes(H(PAD(A), PAD(self.B)), "big")
        self.S = pow(A * pow(self.v, self.u, SRP_N) % SRP_N, self.b, SRP_N)
        self.K = H(PAD(self.S))
        hN = H(SRP_N.to_bytes(384, "big"))
        hg = H(b"\x05")
        self.M1 = H(bytes(p ^ q for p, q in zip(hN, hg)), H(self.user.encode()), self.salt, PAD(A), PAD(self.B), self.K)
        self.M2 = H(PAD(A), self.M1, self.K)
        return self


# ------------------------------------------------------------------ IP session frames
def frames_enc(key: bytes, ctr: int, data: bytes, sizes=None):
    """Encrypt `data` as HAP IP frames; `sizes` is an iterable of plaintext frame sizes
    (cycled; default 1024).  Returns (bytes, next counter)."""
    out = bytearray()
    i = 0
    k = 0
    sizes = list(sizes or [1024])
    while i < len(data):
        n = max(1, min(1024, sizes[k % len(sizes)]))
        k += 1
        c = data[i:i + n]
        i += n
        aad = struct.pack("<H", len(c))
        out += aad + aead_enc(key, nonce(ctr=ctr), c, aad)
        ctr += 1
    return bytes(out), ctr


class FrameError(Exception):
    pass


def frames_dec(key: bytes, ctr: int, stream: bytes):
    """Strict deframer: returns (list of plaintext frames, next counter, leftover)."""
    frames = []
    i = 0
    while len(stream) - i >= 2:
        n = struct.unpack("<H", stream[i:i + 2])[0]
        if n > 1024:
            raise FrameError(f"frame length {n} > 1024")
        if n == 0:
            raise FrameError("empty frame")
        if len(stream) - i < 2 + n + 16:
            break
        pt = aead_dec(key, nonce(ctr=ctr), stream[i + 2:i + 2 + n + 16], stream[i:i + 2])
        if pt is None:
            raise FrameError(f"frame with counter {ctr} does not authenticate")
        frames.append(pt)
        ctr += 1
        i += 2 + n + 16
    return frames, ctr, stream[i:]


# ------------------------------------------------------------------ structured TLV8 (HAP-BLE / CoAP / camera structs)
def enc_struct(items) -> bytes:
    """Generic reference encoder.  items: list of (type, v) with v = bytes | list-of-items
    (nested message) | ("list", [items, ...]) (list of messages, `00 00` between them).
    Values are split into maximal 255-byte fragments; a zero-length value is `t 00`."""
    out = bytearray()
    for t, v in items:
        if isinstance(v, tuple) and v[0] == "list":
            v = b"\x00\x00".join(enc_struct(x) for x in v[1])
        elif isinstance(v, list):
            v = enc_struct(v)
        v = bytes(v)
        if not v:
            out += bytes([t, 0])
            continue
        for i in range(0, len(v), 255):
            c = v[i:i + 255]
            out += bytes([t, len(c)]) + c
    return bytes(out)


# ------------------------------------------------------------------ reference accessory: identity, pair-verify, pair-setup
class RefIdentity:
    """Long-term identity of the reference accessory and the controllers it has paired with."""

    def __init__(self, pairing_id: bytes, ltsk_seed: bytes):
        self.pairing_id = bytes(pairing_id)
        self.ltsk = ed_from_seed(ltsk_seed)
        self.ltpk = ed_pub(self.ltsk)
        self.controllers: dict[bytes, bytes] = {}      # controller pairing id -> LTPK
        self.sessions: dict[bytes, bytes] = {}         # resume session id -> shared secret


PV_SALT, PV_INFO = b"Pair-Verify-Encrypt-Salt", b"Pair-Verify-Encrypt-Info"


class RefPairVerify:
    """Accessory side of one pair-verify exchange (HAP 5.7, resume: HAP-BLE 7.2.2 / table 6-27)."""

    def __init__(self, ident: RefIdentity, eph_seed: bytes, new_session_id: bytes | None = None, allow_resume: bool = True):
        self.ident = ident
        self.sk = x_from_seed(eph_seed)
        self.pk = x_pub(self.sk)
        self.new_session_id = new_session_id or hashlib.sha256(b"sid" + eph_seed).digest()[:8]
        self.allow_resume = allow_resume
        self.ios_pk = None
        self.shared = None
        self.session_key = None
        self.resumed = False
        self.verified = False          # controller proof (M3) accepted, or resume request authenticated
        self.m3_seen = False
        self.m3_error = None

    # --- M1 -> M2
    def handle_m1(self, items):
        d = dict(items)
        self.ios_pk = bytes(d[T_PK])
        if d.get(T_METHOD) == b"\x06" and self.allow_resume:
            sid = bytes(d.get(T_SESSIONID, b""))
            old = self.ident.sessions.get(sid)
            if old is not None:
                rk = hkdf_sha512(old, self.ios_pk + sid, b"Pair-Resume-Request-Info")
                if aead_dec(rk, nonce(b"PR-Msg01"), bytes(d.get(T_ENC, b"")), b"") == b"":
                    return self.resume_m2(old, sid)
        return self.full_m2()

    def resume_m2(self, old_shared, old_sid, *, response_secret=None, hkdf_sid=None, label=b"PR-Msg02", info=b"Pair-Resume-Response-Info", method=b"\x06"):
        new_sid = self.new_session_id
        rsp_key = hkdf_sha512(response_secret if response_secret is not None else old_shared,
                              self.ios_pk + (hkdf_sid if hkdf_sid is not None else new_sid), info)
        self.shared = hkdf_sha512(old_shared, self.ios_pk + new_sid, b"Pair-Resume-Shared-Secret-Info")
        self.ident.sessions.pop(old_sid, None)
        self.ident.sessions[new_sid] = self.shared
        self.resumed = True
        self.verified = True
        items = [(T_STATE, b"\x02")]
        if method is not None:
            items.append((T_METHOD, method))
        items += [(T_SESSIONID, new_sid), (T_ENC, aead_enc(rsp_key, nonce(label), b"", b""))]
        return items

    def derive_shared(self):
        self.shared = self.sk.exchange(x25519.X25519PublicKey.from_public_bytes(self.ios_pk))
        self.session_key = hkdf_sha512(self.shared, PV_SALT, PV_INFO)

    def inner_m2(self, *, sign_key=None, ident_id=None, transcript=None):
        idb = self.ident.pairing_id if ident_id is None else ident_id
        msg = transcript if transcript is not None else self.pk + idb + self.ios_pk
        sig = (sign_key or self.ident.ltsk).sign(msg)
        return [(T_ID, idb), (T_SIG, sig)]

    def full_m2(self, inner=None, *, enc_key=None, label=b"PV-Msg02"):
        self.derive_shared()
        inner = self.inner_m2() if inner is None else inner
        enc = aead_enc(enc_key or self.session_key, nonce(label), tlv_enc(inner), b"")
        return [(T_STATE, b"\x02"), (T_PK, self.pk), (T_ENC, enc)]

    # --- M3 -> M4
    def handle_m3(self, items):
        self.m3_seen = True
        d = dict(items)
        try:
            if d.get(T_STATE) != b"\x03":
                raise ValueError("state")
            pt = aead_dec(self.session_key, nonce(b"PV-Msg03"), bytes(d[T_ENC]), b"")
            if pt is None:
                raise ValueError("PV-Msg03 does not authenticate")
            sub = dict(tlv_dec(pt))
            ltpk = self.ident.controllers.get(sub[T_ID])
            if ltpk is None:
                raise ValueError("unknown controller")
            if not ed_verify(ltpk, sub[T_SIG], self.ios_pk + sub[T_ID] + self.pk):
                raise ValueError("controller signature")
        except (KeyError, ValueError, RefTlvError) as e:
            self.m3_error = str(e)
            return [(T_STATE, b"\x04"), (T_ERROR, b"\x02")]
        self.verified = True
        sid = hkdf_sha512(self.shared, b"Pair-Verify-ResumeSessionID-Salt", b"Pair-Verify-ResumeSessionID-Info", 8)
        self.ident.sessions[sid] = self.shared
        self.session_id = sid
        return [(T_STATE, b"\x04")]

    def key(self, salt: bytes, info: bytes, length: int = 32) -> bytes:
        return hkdf_sha512(self.shared, salt, info, length)


PS_ENC = (b"Pair-Setup-Encrypt-Salt", b"Pair-Setup-Encrypt-Info")
PS_CSIGN = (b"Pair-Setup-Controller-Sign-Salt", b"Pair-Setup-Controller-Sign-Info")
PS_ASIGN = (b"Pair-Setup-Accessory-Sign-Salt", b"Pair-Setup-Accessory-Sign-Info")


class RefPairSetup:
    """Accessory side of one pair-setup exchange (HAP 5.6)."""

    def __init__(self, ident: RefIdentity, code: str, salt: bytes, b: int):
        self.ident = ident
        self.srp = SrpExchange(code, salt, b)
        self.m3_ok = False
        self.m3_seen = False
        self.m5_ok = False
        self.m5_error = None
        self.controller_id = None
        self.controller_ltpk = None

    def m2(self):
        return [(T_STATE, b"\x02"), (T_PK, PAD(self.srp.B)), (T_SALT, self.srp.salt)]

    def handle_m3(self, items):
        self.m3_seen = True
        d = dict(items)
        A = int.from_bytes(bytes(d.get(T_PK, b"")), "big")
        if d.get(T_STATE) != b"\x03" or A % SRP_N == 0 or len(d.get(T_PK, b"")) != 384:
            return [(T_STATE, b"\x04"), (T_ERROR, b"\x02")]
        self.srp.finish(A)
        if bytes(d.get(T_PROOF, b"")) != self.srp.M1:
            return [(T_STATE, b"\x04"), (T_ERROR, b"\x02")]
        self.m3_ok = True
        self.enc_key = hkdf_sha512(self.srp.K, *PS_ENC)
        return [(T_STATE, b"\x04"), (T_PROOF, self.srp.M2)]

    def handle_m5(self, items):
        d = dict(items)
        try:
            if not self.m3_ok or d.get(T_STATE) != b"\x05":
                raise ValueError("state")
            pt = aead_dec(self.enc_key, nonce(b"PS-Msg05"), bytes(d[T_ENC]), b"")
            if pt is None:
                raise ValueError("PS-Msg05 does not authenticate")
            sub = dict(tlv_dec(pt))
            cx = hkdf_sha512(self.srp.K, *PS_CSIGN)
            if len(sub[T_PK]) != 32 or not ed_verify(sub[T_PK], sub[T_SIG], cx + sub[T_ID] + sub[T_PK]):
                raise ValueError("controller signature")
        except (KeyError, ValueError, RefTlvError) as e:
            self.m5_error = str(e)
            return [(T_STATE, b"\x06"), (T_ERROR, b"\x02")]
        self.m5_ok = True
        self.controller_id, self.controller_ltpk = sub[T_ID], sub[T_PK]
        self.ident.controllers[sub[T_ID]] = sub[T_PK]
        return self.m6()

    def inner_m6(self, *, sign_key=None, ident_id=None, ltpk=None, transcript=None):
        idb = self.ident.pairing_id if ident_id is None else ident_id
        pk = self.ident.ltpk if ltpk is None else ltpk
        ax = hkdf_sha512(self.srp.K, *PS_ASIGN)
        sig = (sign_key or self.ident.ltsk).sign(transcript(ax, idb, pk) if transcript else ax + idb + pk)
        return [(T_ID, idb), (T_PK, pk), (T_SIG, sig)]

    def m6(self, inner=None, *, enc_key=None, label=b"PS-Msg06"):
        inner = self.inner_m6() if inner is None else inner
        return [(T_STATE, b"\x06"), (T_ENC, aead_enc(enc_key or self.enc_key, nonce(label), tlv_enc(inner), b""))]

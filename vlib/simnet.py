"""Deterministic in-memory network and scripted reference HAP IP accessory (DESIGN 3.3).

Nothing in here imports aiohomekit.  The controller side gets a FakeTransport that mirrors the
observable contract of asyncio's _SelectorSocketTransport; the accessory side is the reference
peer of vlib/refhap.py behind a strict request parser."""
from __future__ import annotations

import asyncio
import json
import re
import struct

from vlib import refhap
from vlib.refhap import (T_ENC, T_ERROR, T_ID, T_METHOD, T_PERM, T_PK, T_SIG, T_STATE, RefIdentity, RefPairVerify, aead_dec, aead_enc, nonce,
                         tlv_dec, tlv_enc)


class FakeSocket:
    def __init__(self, net, host, port):
        self.net, self.host, self.port = net, host, port

    def getpeername(self):
        return (self.host, self.port, 0, 0) if ":" in self.host else (self.host, self.port)

    def setsockopt(self, *a):
        pass

    def close(self):
        self.net.log.append((self.net.loop.time(), "socket-closed-unused", self.host))


class FakeTransport(asyncio.Transport):
    """Controller-side transport.  `peer` is the accessory-side connection object."""

    def __init__(self, loop, sock, protocol):
        super().__init__()
        self._loop, self.sock, self._protocol = loop, sock, protocol
        self._closing = False
        self._eof = False
        self._conn_lost = 0
        self.write_calls = []      # (virtual time, kind, [bytes, ...]) one entry per write()/writelines() call
        self.peer = None
        self.lost_called = False
        self.fatal = None
        self.closed_by_controller_at = None
        self.stalled = False       # the peer does not read and the kernel buffers are full: what is written stays in the write buffer
        self._buffer = bytearray()
        self._buffer_calls = []
        self._high_water, self._low_water = 64 * 1024, 16 * 1024      # asyncio's defaults (transports._FlowControlMixin)
        self._protocol_paused = False

    def set_write_buffer_limits(self, high=None, low=None):
        if high is None:
            high = 64 * 1024 if low is None else 4 * low
        if low is None:
            low = high // 4
        if not high >= low >= 0:
            raise ValueError(f"high ({high!r}) must be >= low ({low!r}) must be >= 0")
        self._high_water, self._low_water = high, low
        self._maybe_pause_protocol()

    def get_write_buffer_limits(self):
        return (self._low_water, self._high_water)

    def _maybe_pause_protocol(self):
        # asyncio: called after every append to the write buffer; an exception of the protocol is reported, not raised
        if len(self._buffer) > self._high_water and not self._protocol_paused:
            self._protocol_paused = True
            try:
                self._protocol.pause_writing()
            except Exception:  # noqa: BLE001
                pass

    def _maybe_resume_protocol(self):
        if self._protocol_paused and len(self._buffer) <= self._low_water:
            self._protocol_paused = False
            try:
                self._protocol.resume_writing()
            except Exception:  # noqa: BLE001
                pass

    # ---- controller-facing API
    def get_extra_info(self, name, default=None):
        if name == "peername":
            return self.sock.getpeername()
        if name == "socket":
            return self.sock
        return default

    def set_protocol(self, protocol):
        self._protocol = protocol

    kernel_reset = False      # set by the simulated peer at the instant it resets the connection (before the loop tells the protocol)

    def get_protocol(self):
        return self._protocol

    def is_closing(self):
        return self._closing

    def can_write_eof(self):
        return True

    def write(self, data):
        if self._eof:
            raise RuntimeError("Cannot call write() after write_eof()")
        if not data:
            return
        self.write_calls.append((self._loop.time(), "write", [bytes(data)]))
        self._send(bytes(data))

    def writelines(self, lines):
        if self._eof:
            raise RuntimeError("Cannot call writelines() after write_eof()")
        lines = [bytes(x) for x in lines]
        if not lines:
            return
        self.write_calls.append((self._loop.time(), "writelines", lines))
        self._send(b"".join(lines))

    def _send(self, data):
        if self._conn_lost:
            self._conn_lost += 1
            return
        if self.stalled or self._buffer:
            self._buffer += data
            self._buffer_calls.append((len(self.write_calls) - 1, data))
            self._maybe_pause_protocol()
            return
        if self.peer is not None:
            self.peer.controller_wrote(data, len(self.write_calls) - 1)

    def get_write_buffer_size(self):
        return len(self._buffer)

    def drain(self):
        """The peer reads again: the write buffer is flushed; a close() that was waiting for it completes (asyncio: _write_ready)."""
        self.stalled = False
        if self._conn_lost:
            return
        calls, self._buffer_calls, self._buffer = self._buffer_calls, [], bytearray()
        for idx, data in calls:
            if self.peer is not None:
                self.peer.controller_wrote(data, idx)
        self._maybe_resume_protocol()
        if self._closing:
            self._conn_lost += 1
            self._loop.call_soon(self._call_connection_lost, None)
        elif self._eof and self.peer is not None:
            self.peer.controller_half_closed()

    def write_eof(self):
        if self._closing or self._eof:
            return
        self._eof = True
        if self.kernel_reset and not self._buffer:
            # the peer's RST has reached the kernel but the event loop has not polled the socket yet: shutdown(SHUT_WR) fails (asyncio lets it out)
            raise OSError(107, "Transport endpoint is not connected")
        if self.peer is not None and not self._buffer:
            self.peer.controller_half_closed()

    def close(self):
        if self._closing:
            return
        self._closing = True
        self.closed_by_controller_at = self._loop.time()
        if self.peer is not None:
            self.peer.controller_closing()
        if self._buffer:
            return          # asyncio: connection_lost is called once the buffer has been flushed (or the socket fails)
        self._conn_lost += 1
        self._loop.call_soon(self._call_connection_lost, None)

    def abort(self):
        self.closed_by_controller_at = self._loop.time()
        self._force_close(None)

    def _force_close(self, exc):
        if self._conn_lost:
            return
        self._buffer.clear()
        self._buffer_calls.clear()
        self._closing = True
        self._conn_lost += 1
        self._loop.call_soon(self._call_connection_lost, exc)

    def _call_connection_lost(self, exc):
        try:
            self.lost_called = True
            self._protocol.connection_lost(exc)
        finally:
            if self.peer is not None:
                self.peer.controller_closed()

    # ---- network-facing API (called by the simulated accessory)
    def feed(self, data):
        if self._conn_lost or self._closing:
            return
        try:
            self._protocol.data_received(data)
        except (SystemExit, KeyboardInterrupt):
            raise
        except BaseException as exc:  # noqa: BLE001  asyncio: "Fatal error: protocol.data_received() call failed."
            self.fatal = exc
            self._force_close(exc)

    def feed_eof(self):
        if self._conn_lost or self._closing:
            return
        try:
            keep = self._protocol.eof_received()
        except (SystemExit, KeyboardInterrupt):
            raise
        except BaseException as exc:  # noqa: BLE001
            self.fatal = exc
            self._force_close(exc)
            return
        if not keep:
            self.close()

    def feed_reset(self):
        if self._closing and self._buffer:
            # the reader is gone already; the reset is discovered by the pending write
            self._force_close(BrokenPipeError(32, "Broken pipe"))
            return
        self._force_close(ConnectionResetError(104, "Connection reset by peer"))


REQ_LINE = re.compile(rb"^([A-Z]+) (\S+) HTTP/1\.1$")


class RequestError(Exception):
    pass


class Request:
    def __init__(self, raw, method, target, headers, body, write_index, secure):
        self.raw, self.method, self.target, self.headers, self.body = raw, method, target, headers, body
        self.write_index, self.secure = write_index, secure
        self.strict_error = None


def parse_request_strict(buf: bytes):
    """Strict grammar of DESIGN 4/C09.  Returns (request fields, consumed, strict_error) or None if incomplete."""
    end = buf.find(b"\r\n\r\n")
    if end < 0:
        return None
    head = buf[:end]
    lines = head.split(b"\r\n")
    err = None
    m = REQ_LINE.match(lines[0])
    if not m:
        raise RequestError(f"malformed request line {lines[0]!r}")
    method, target = m.group(1).decode(), m.group(2).decode()
    headers = []
    for ln in lines[1:]:
        if b": " not in ln:
            raise RequestError(f"malformed header line {ln!r}")
        k, v = ln.split(b": ", 1)
        headers.append((k.decode(), v.decode()))
    names = [k for k, _ in headers]
    cl = 0
    if "Content-Length" in names:
        v = dict(headers)["Content-Length"]
        if not re.fullmatch(r"\d+", v):
            raise RequestError(f"Content-Length {v!r}")
        cl = int(v)
    else:
        for k, v in headers:
            if k.lower() == "content-length":
                cl = int(v)
                err = err or f"header {k!r} is not spelled 'Content-Length'"
    if len(buf) < end + 4 + cl:
        return None
    body = buf[end + 4:end + 4 + cl]
    # canonical form
    if b"\n" in head.replace(b"\r\n", b"") or b"\r" in head.replace(b"\r\n", b""):
        err = err or "bare CR or LF in the request head"
    if not names or names[0] != "Host":
        err = err or f"first header is {names[:1]}, not Host"
    if names == ["Host"]:
        pass
    elif names == ["Host", "Content-Length", "Content-Type"]:
        if cl == 0:
            err = err or "content headers without a body"
    else:
        err = err or f"headers {names} are neither [Host] nor [Host, Content-Length, Content-Type]"
    return (method, target, headers, body), end + 4 + cl, err


class AccConn:
    """One TCP connection as the accessory sees it."""

    def __init__(self, acc, transport, loop, index, host):
        self.acc, self.t, self.loop, self.index, self.host = acc, transport, loop, index, host
        self.open = True                 # the controller has not closed it (accessory's view of the TCP state)
        self.controller_closing_at = None
        self.peer_closed = False         # the accessory closed / reset it
        self.opened_at = loop.time()
        self.closed_at = None
        self.buf = bytearray()
        self.rx_plain = bytearray()
        self.secure = False              # encrypts what it sends
        self.secure_rx = False           # decrypts what it receives
        self.c2a = self.a2c = 0
        self.c2a_key = self.a2c_key = None
        self.verify = None
        self.requests: list[Request] = []
        self.subscribed: set[tuple[int, int]] = set()
        self.sent_frames = []            # ciphertext frames in send order (for replay injection)
        self.write_bounds = []           # (write_index, cumulative plaintext length) to attribute requests to write calls
        self.errors = []
        self.stalled = False
        self.verified_at = None
        self.frame_errors = []
        self.rx_frames = 0
        transport.peer = self
        acc.conns.append(self)

    # ---- events from the controller side
    def controller_closed(self):
        self.open = False
        self.closed_at = self.loop.time()

    def controller_closing(self):
        self.controller_closing_at = self.loop.time()

    def controller_half_closed(self):
        pass

    def controller_wrote(self, data, write_index):
        self.loop.call_soon(self._rx, data, write_index)

    def _rx(self, data, write_index):
        if not self.open or self.peer_closed:
            return
        if self.secure_rx:
            self.buf += data
            try:
                frames, self.c2a, rest = refhap.frames_dec(self.c2a_key, self.c2a, bytes(self.buf))
            except refhap.FrameError as e:
                self.frame_errors.append(str(e))
                self.errors.append(("frame", str(e)))
                self.close("fin")
                return
            self.buf = bytearray(rest)
            for f in frames:
                self.rx_frames += 1
                self.acc.frame_log.append((self.index, len(f)))
                self.rx_plain += f
        else:
            self.rx_plain += data
        self.write_bounds.append(write_index)
        self._parse(write_index)

    def _parse(self, write_index):
        while self.rx_plain and self.open and not self.peer_closed:
            try:
                parsed = parse_request_strict(bytes(self.rx_plain))
            except RequestError as e:
                self.errors.append(("request", str(e)))
                self.acc.request_errors.append((self.index, str(e), bytes(self.rx_plain[:200])))
                self.close("fin")
                return
            if parsed is None:
                return
            (method, target, headers, body), consumed, strict = parsed
            raw = bytes(self.rx_plain[:consumed])
            del self.rx_plain[:consumed]
            req = Request(raw, method, target, headers, body, write_index, self.secure_rx)
            req.strict_error = strict
            req.conn = self
            req.at = self.loop.time()
            self.requests.append(req)
            self.acc.all_requests.append(req)
            if self.stalled:
                continue
            self.acc.dispatch(self, req)

    # ---- sending
    def send_http(self, code, reason, body=None, ctype="application/hap+json", kind="HTTP/1.1", cuts=None, delay=0.0, ctype_name="Content-Type"):
        msg = f"{kind} {code} {reason}\r\n".encode()
        spell = {"title": str, "lower": str.lower, "upper": str.upper}[self.acc.header_names]     # HTTP header names are case-insensitive
        if body is not None:
            if ctype is not None:
                msg += f"{spell(ctype_name)}: {ctype}\r\n".encode()
            if self.acc.reply_chunked and body:
                # chunked transfer coding (legal for every HTTP/1.1 response): the body in two chunks
                cut = max(1, len(body) // 2)
                msg += f"{spell('Transfer-Encoding')}: chunked\r\n\r\n".encode()
                msg += b"".join(b"%x\r\n" % len(c) + c + b"\r\n" for c in (body[:cut], body[cut:]) if c) + b"0\r\n\r\n"
                body = None
            else:
                msg += f"{spell('Content-Length')}: {len(body)}\r\n".encode()
        if body is not None or not self.acc.reply_chunked or not msg.endswith(b"0\r\n\r\n"):
            msg += b"\r\n" + (body or b"")
        rc = self.acc.reply_cut
        if rc is not None and cuts is None:
            # the reply reaches the controller in two reads (plain connection) / two encrypted frames (secure session), cut at this offset
            # (negative: counted from the end)
            pos = rc if rc >= 0 else len(msg) + rc
            if 0 < pos < len(msg):
                if self.secure:
                    return self.send_plain(msg, delay=delay, sizes=[pos] + [1024] * 70)
                cuts = [pos]
        self.send_plain(msg, cuts=cuts, delay=delay)

    def encrypt(self, msg: bytes, sizes=None) -> bytes:
        out, self.a2c = refhap.frames_enc(self.a2c_key, self.a2c, msg, sizes or self.acc.frame_sizes)
        return out

    def send_plain(self, msg: bytes, cuts=None, delay=0.0, sizes=None):
        if self.secure:
            msg = self.encrypt(msg, sizes)
        self.send_wire(msg, cuts, delay)

    def send_wire(self, data: bytes, cuts=None, delay=0.0):
        pieces = []
        pos = 0
        for c in sorted(set(cuts or [])):
            if 0 < c < len(data) and c > pos:
                pieces.append(data[pos:c])
                pos = c
        pieces.append(data[pos:])
        for i, p in enumerate(pieces):
            if delay:
                self.loop.call_later(delay * (i + 1), self._deliver, p)
            else:
                self.loop.call_soon(self._deliver, p)

    def _deliver(self, data):
        if self.peer_closed:
            return
        self.t.feed(data)

    def send_event(self, changes, cuts=None):
        body = json.dumps({"characteristics": [{"aid": a, "iid": i, "value": v} for a, i, v in changes]}, separators=(",", ":")).encode()
        self.send_http(200, "OK", body, kind="EVENT/1.0", cuts=cuts)

    def close(self, how="fin"):
        """Accessory-initiated close."""
        if self.peer_closed:
            return
        self.peer_closed = True
        if how != "fin":
            self.t.kernel_reset = True
        self.loop.call_soon(self.t.feed_eof if how == "fin" else self.t.feed_reset)


DEFAULT_DB = {"accessories": [
    {"aid": 1, "services": [
        {"iid": 1, "type": "3E", "characteristics": [
            {"iid": 2, "type": "23", "perms": ["pr"], "format": "string", "value": "Sim"},
            {"iid": 3, "type": "14", "perms": ["pw"], "format": "bool"}]},
        {"iid": 8, "type": "43", "characteristics": [
            {"iid": 9, "type": "25", "perms": ["pr", "pw", "ev"], "format": "bool", "value": False},
            {"iid": 10, "type": "8", "perms": ["pr", "pw", "ev"], "format": "int", "value": 50, "minValue": 0, "maxValue": 100},
            {"iid": 11, "type": "13", "perms": ["pw"], "format": "float", "minValue": 0, "maxValue": 360},
            {"iid": 12, "type": "2F", "perms": ["pr", "pw", "tw", "ev"], "format": "float", "value": 0.0}]}]},
    {"aid": 2, "services": [
        {"iid": 1, "type": "3E", "characteristics": [
            {"iid": 2, "type": "23", "perms": ["pr"], "format": "string", "value": "Bridged"}]},
        {"iid": 8, "type": "8A", "characteristics": [
            {"iid": 9, "type": "11", "perms": ["pr", "ev"], "format": "float", "value": 21.5},
            {"iid": 10, "type": "25", "perms": ["pr", "pw", "ev"], "format": "bool", "value": True}]}]},
]}


class SimAccessory:
    """Reference IP accessory with a fault script.

    verify_policy(conn) -> one of: "ok", "close-after-m1", "reset-after-m1", "close-after-m3", "reset-after-m3", "hang-m1", "hang-m3",
    "http-4xx", "wrong-id", "bad-sig", "bad-tag", "error-m2:<code>", "error-m4:<code>", "garbage-m2", "garbage-m4", "unknown-controller"
    on_request(conn, req) -> True if the hook handled the request (no default handling)."""

    def __init__(self, loop, ident: RefIdentity, db=None):
        self.loop, self.ident = loop, ident
        self.db = json.loads(json.dumps(db or DEFAULT_DB))
        self.conns: list[AccConn] = []
        self.all_requests: list[Request] = []
        self.request_errors = []
        self.frame_log = []
        self.frame_sizes = [1024]
        self.verify_policy = lambda conn: "ok"
        self.on_request = None
        self.on_secure = None              # callback(conn) once a session is established on the accessory side
        self.setup_handler = None          # callable(request TLV items) -> raw reply bytes for POST /pair-setup (C03 end to end)
        self.error_http = (200, "OK", "application/pairing+tlv8", "Content-Type")    # status line and content type of the "error-m2/m4" policies
        self.verify_delay = 0.0            # the accessory takes this long to answer the last pair-verify message
        self.header_names = "title"        # spelling of the header names in everything this accessory sends: title | lower | upper
        self.tape_m2 = None                # raw M2 of the first honest pair-verify (verify policy "tape" replays it without holding any key)
        self.write_status = {}             # (aid, iid) -> HAP status for writes
        self.reply_chunked = False         # HTTP replies use chunked transfer coding
        self.reply_cut = None              # every HTTP reply is delivered in two pieces, cut at this offset (negative: from the end)
        self.subscribe_status = {}         # (aid, iid) -> HAP status for ev requests
        self.values = {}
        self.eph_counter = 0
        self.put_log = []                  # (conn index, payload list)
        for a in self.db["accessories"]:
            for s in a["services"]:
                for c in s["characteristics"]:
                    if "value" in c:
                        self.values[(a["aid"], c["iid"])] = c["value"]

    @property
    def open_conns(self):
        return [c for c in self.conns if c.open]

    # ---- request dispatch
    def dispatch(self, conn, req):
        if self.on_request is not None and self.on_request(conn, req):
            return
        self.default_dispatch(conn, req)

    def default_dispatch(self, conn, req):
        t = req.target
        if t == "/pair-verify":
            return self.pair_verify(conn, req)
        if t == "/pair-setup" and req.method == "POST" and self.setup_handler is not None:
            return conn.send_http(200, "OK", self.setup_handler(tlv_dec(req.body)), ctype="application/pairing+tlv8")
        if not conn.secure_rx:
            return conn.send_http(470, "Connection Authorization Required", b'{"status":-70401}')
        if t == "/accessories" and req.method == "GET":
            return conn.send_http(200, "OK", json.dumps(self.db, separators=(",", ":")).encode())
        if t.startswith("/characteristics?id=") and req.method == "GET":
            try:
                ids = [tuple(int(x) for x in p.split(".")) for p in t.split("=", 1)[1].split("&")[0].split(",")]
                assert all(len(i) == 2 for i in ids)
            except (ValueError, AssertionError):
                conn.errors.append(("read-url", t))
                return conn.send_http(400, "Bad Request", b'{"status":-70410}')
            chars = [{"aid": a, "iid": i, "value": self.values.get((a, i))} for a, i in ids]
            return conn.send_http(200, "OK", json.dumps({"characteristics": chars}, separators=(",", ":")).encode())
        if t == "/characteristics" and req.method == "PUT":
            return self.put_characteristics(conn, req)
        if t == "/pairings" and req.method == "POST":
            return self.pairings(conn, req)
        if t == "/resource":
            return conn.send_http(200, "OK", b"\xff\xd8jpeg", ctype="image/jpeg")
        return conn.send_http(404, "Not Found")

    def put_characteristics(self, conn, req):
        try:
            payload = json.loads(req.body)["characteristics"]
        except Exception as e:  # noqa: BLE001
            conn.errors.append(("json", str(e)))
            return conn.send_http(400, "Bad Request", b'{"status":-70410}')
        self.put_log.append((conn.index, payload))
        result = []
        failed = False
        for item in payload:
            key = (item["aid"], item["iid"])
            status = 0
            if "ev" in item:
                status = self.subscribe_status.get(key, 0)
                if status == 0:
                    (conn.subscribed.add if item["ev"] else conn.subscribed.discard)(key)
            if "value" in item:
                status = self.write_status.get(key, 0)
                if status == 0:
                    self.values[key] = item["value"]
            failed |= status != 0
            result.append({"aid": key[0], "iid": key[1], "status": status})
        if not failed:
            return conn.send_http(204, "No Content")
        return conn.send_http(207, "Multi-Status", json.dumps({"characteristics": result}, separators=(",", ":")).encode())

    def pairings(self, conn, req):
        d = dict(tlv_dec(req.body))
        method = d.get(T_METHOD)
        if method == b"\x03":      # add
            self.ident.controllers[d[T_ID]] = d[T_PK]
            return conn.send_http(200, "OK", tlv_enc([(T_STATE, b"\x02")]), ctype="application/pairing+tlv8")
        if method == b"\x04":      # remove
            self.ident.controllers.pop(d[T_ID], None)
            return conn.send_http(200, "OK", tlv_enc([(T_STATE, b"\x02")]), ctype="application/pairing+tlv8")
        if method == b"\x05":      # list
            items = [(T_STATE, b"\x02")]
            for i, (cid, pk) in enumerate(sorted(self.ident.controllers.items())):
                if i:
                    items.append((255, b""))
                items += [(T_ID, cid), (T_PK, pk), (T_PERM, b"\x01")]
            return conn.send_http(200, "OK", tlv_enc(items), ctype="application/pairing+tlv8")
        return conn.send_http(200, "OK", tlv_enc([(T_STATE, b"\x02"), (T_ERROR, b"\x01")]), ctype="application/pairing+tlv8")

    # ---- pair verify with fault policies
    def pair_verify(self, conn, req):
        TLVCT = "application/pairing+tlv8"
        policy = self.verify_policy(conn)
        try:
            d = dict(tlv_dec(req.body))
        except Exception as e:  # noqa: BLE001
            conn.errors.append(("tlv", str(e)))
            return conn.send_http(400, "Bad Request")
        state = d.get(T_STATE)
        if state == b"\x01":
            conn.verify_policy = policy
            if policy in ("close-after-m1", "reset-after-m1"):
                return conn.close("fin" if policy.startswith("close") else "reset")
            if policy == "hang-m1":
                return None
            if policy == "http-4xx":
                return conn.send_http(470, "Connection Authorization Required", tlv_enc([(T_STATE, b"\x02"), (T_ERROR, b"\x02")]), ctype=TLVCT)
            if policy.startswith("error-m2:"):
                return conn.send_http(*self.error_http[:2], tlv_enc([(T_STATE, b"\x02"), (T_ERROR, bytes([int(policy.split(":")[1])]))]), ctype=self.error_http[2],
                                      ctype_name=self.error_http[3])
            if policy == "garbage-m2":
                return conn.send_http(200, "OK", b"\x06\x01\x02\x03\x20\x01", ctype=TLVCT)
            if policy == "tape" and self.tape_m2 is not None:
                conn.verify = "tape"
                return conn.send_http(200, "OK", self.tape_m2, ctype=TLVCT)
            self.eph_counter += 1
            pv = RefPairVerify(self.ident, refhap.H(b"sim-eph", str(self.eph_counter).encode(), self.ident.pairing_id)[:32])
            conn.verify = pv
            honest = pv.handle_m1(list(d.items()))
            if policy in ("ok", "tape") and self.tape_m2 is None:
                self.tape_m2 = tlv_enc(honest)
            if policy == "wrong-id":
                honest = pv.full_m2(pv.inner_m2(ident_id=b"00:11:22:33:44:55"))
            elif policy == "bad-sig":
                honest = pv.full_m2(pv.inner_m2(sign_key=refhap.ed_from_seed(b"\x42" * 32)))
            elif policy == "bad-tag":
                honest = [(t, (v[:-1] + bytes([v[-1] ^ 1])) if t == T_ENC else v) for t, v in honest]
            return conn.send_http(200, "OK", tlv_enc(honest), ctype=TLVCT)
        if state == b"\x03":
            policy = getattr(conn, "verify_policy", policy)
            if conn.verify is None:
                return conn.send_http(200, "OK", tlv_enc([(T_STATE, b"\x04"), (T_ERROR, b"\x02")]), ctype=TLVCT)
            if conn.verify == "tape":
                # a peer without keys: it can only hope that the controller derives the recorded session again
                return conn.send_http(200, "OK", tlv_enc([(T_STATE, b"\x04")]), ctype=TLVCT)
            if policy in ("close-after-m3", "reset-after-m3"):
                return conn.close("fin" if policy.startswith("close") else "reset")
            if policy == "hang-m3":
                return None
            if policy.startswith("error-m4:"):
                return conn.send_http(*self.error_http[:2], tlv_enc([(T_STATE, b"\x04"), (T_ERROR, bytes([int(policy.split(":")[1])]))]), ctype=self.error_http[2],
                                      ctype_name=self.error_http[3])
            if policy == "garbage-m4":
                return conn.send_http(200, "OK", b"\x06\x05\x04", ctype=TLVCT)
            pv = conn.verify
            m4 = pv.handle_m3(list(d.items()))
            def install():
                conn.c2a_key = pv.key(b"Control-Salt", b"Control-Write-Encryption-Key")
                conn.a2c_key = pv.key(b"Control-Salt", b"Control-Read-Encryption-Key")
                conn.secure = conn.secure_rx = True
                conn.verified_at = self.loop.time()
                if self.on_secure:
                    self.on_secure(conn)
            if self.verify_delay:
                # a slow accessory: M4 leaves (and the session starts on its side) only after the delay
                if pv.verified:
                    self.loop.call_later(self.verify_delay, lambda: install() if conn.open and not conn.peer_closed else None)
                self.loop.call_later(self.verify_delay, lambda: conn.send_http(200, "OK", tlv_enc(m4), ctype=TLVCT) if conn.open and not conn.peer_closed and not conn.secure else
                                     (conn.send_wire(("HTTP/1.1 200 OK\r\nContent-Type: %s\r\nContent-Length: %d\r\n\r\n" % (TLVCT, len(tlv_enc(m4)))).encode() + tlv_enc(m4)) if conn.open and not conn.peer_closed else None))
                return None
            conn.send_http(200, "OK", tlv_enc(m4), ctype=TLVCT)
            if pv.verified:
                install()
            return None
        return conn.send_http(400, "Bad Request")


def canon_host(h):
    import ipaddress
    try:
        zone = ""
        if isinstance(h, str) and "%" in h:
            h, zone = h.split("%", 1)
            zone = "%" + zone
        return ipaddress.ip_address(h).compressed + zone
    except ValueError:
        return h


class _HostMap(dict):
    def __setitem__(self, k, v):
        super().__setitem__(canon_host(k), v)

    def __getitem__(self, k):
        return super().__getitem__(canon_host(k))

    def __contains__(self, k):
        return super().__contains__(canon_host(k))

    def get(self, k, d=None):
        return super().get(canon_host(k), d)


class Net:
    """Replaces aiohappyeyeballs.start_connection and loop.create_connection."""

    def __init__(self, loop):
        self.loop = loop
        self.accessories = _HostMap()    # host -> SimAccessory (any spelling of an address names the same host)
        self.connect_policy = lambda host, n: "accept"     # -> "accept" | "refuse" | "hang" | ("accept", latency)
        self.calls = []                  # (time, [hosts], outcome)
        self.log = []
        self.n_calls = 0
        self.active_calls = 0
        self.max_active_calls = 0
        loop.create_connection_hook = self.create_connection

    async def start_connection(self, addr_infos, *, local_addr_infos=None, happy_eyeballs_delay=None, interleave=None, loop=None, **kw):
        hosts = [ai[4][0] for ai in addr_infos]
        port = addr_infos[0][4][1] if addr_infos else 0
        self.n_calls += 1
        n = self.n_calls
        rec = [self.loop.time(), hosts, None, None]
        self.calls.append(rec)
        self.active_calls += 1
        self.max_active_calls = max(self.max_active_calls, self.active_calls)
        try:
            last = None
            hung = False
            for host in hosts:
                pol = self.connect_policy(host, n)
                lat = 0.0
                if isinstance(pol, tuple):
                    pol, lat = pol
                if pol == "accept" and host in self.accessories:
                    if lat:
                        await asyncio.sleep(lat)
                    rec[2], rec[3] = "connected:" + host, self.loop.time()
                    return FakeSocket(self, host, port)
                if pol == "hang":
                    hung = True
                    if happy_eyeballs_delay is None:
                        # without a stagger delay the addresses are tried strictly one after the other (aiohappyeyeballs / RFC 8305): a SYN that is
                        # never answered holds the whole call until the caller's timeout
                        rec[2] = "hang"
                        await self.loop.create_future()
                    await asyncio.sleep(happy_eyeballs_delay)
                    continue
                last = ConnectionRefusedError(111, f"Connect call failed ({host!r}, {port})")
            if hung:
                rec[2] = "hang"
                await self.loop.create_future()     # until the caller's timeout cancels us
            rec[2], rec[3] = "refused", self.loop.time()
            raise last or OSError("no addresses")
        except asyncio.CancelledError:
            rec[2], rec[3] = (rec[2] or "") + ":cancelled", self.loop.time()
            raise
        finally:
            self.active_calls -= 1

    async def create_connection(self, loop, protocol_factory, sock):
        assert isinstance(sock, FakeSocket)
        protocol = protocol_factory()
        transport = FakeTransport(loop, sock, protocol)
        waiter = loop.create_future()
        loop.call_soon(protocol.connection_made, transport)
        loop.call_soon(lambda: waiter.done() or waiter.set_result(None))
        acc = self.accessories[sock.host]
        AccConn(acc, transport, loop, len(acc.conns), sock.host)
        await waiter
        return transport, protocol


# ---------------------------------------------------------------- differential self-test of FakeTransport against asyncio's socket transport
def selftest():
    """Runs ten scenarios over a real TCP loopback connection and over FakeTransport and compares the callback sequences."""
    import socket

    class RecProto(asyncio.Protocol):
        def __init__(self, log, raise_on=None, keep_open=False):
            self.log, self.raise_on, self.keep_open = log, raise_on, keep_open

        def connection_made(self, t):
            self.t = t
            self.log.append("made")

        def data_received(self, d):
            self.log.append("data:" + bytes(d).decode())
            if self.raise_on and self.raise_on in bytes(d):
                raise RuntimeError("boom")

        def eof_received(self):
            self.log.append("eof")
            return self.keep_open

        def connection_lost(self, exc):
            self.log.append("lost:" + (type(exc).__name__ if exc else "None"))

    SCEN = ["peer-data-then-fin", "protocol-raises", "local-close-then-write", "peer-reset", "eof-keep-open", "stalled-fin-then-reset", "stalled-close-then-drain",
            "stalled-fin-then-drain", "reset-then-write-eof-before-poll", "fin-then-write-eof-before-poll"]

    async def real(scen):
        loop = asyncio.get_running_loop()
        srv = socket.socket()
        srv.bind(("127.0.0.1", 0))
        srv.listen(1)
        cli = socket.socket()
        cli.setblocking(False)
        try:
            cli.connect(srv.getsockname())
        except BlockingIOError:
            pass
        if scen.startswith("stalled"):
            srv.setsockopt(socket.SOL_SOCKET, socket.SO_RCVBUF, 4096)
            cli.setsockopt(socket.SOL_SOCKET, socket.SO_SNDBUF, 4096)
        peer, _ = srv.accept()
        srv.close()
        log = []
        proto = RecProto(log, raise_on=b"bad" if scen == "protocol-raises" else None, keep_open=scen == "eof-keep-open")
        t, _ = await loop.create_connection(lambda: proto, sock=cli)
        await asyncio.sleep(0.02)
        if scen.startswith("stalled"):
            # the peer does not read: most of this stays in the transport's write buffer
            t.write(b"x" * (8 * 1024 * 1024))
            await asyncio.sleep(0.05)
            log.append("buffered:" + str(t.get_write_buffer_size() > 0))
            if scen == "stalled-close-then-drain":
                t.close()
            else:
                peer.shutdown(socket.SHUT_WR)
            await asyncio.sleep(0.2)
            log.append("closing:" + str(t.is_closing()))
            if scen == "stalled-fin-then-reset":
                peer.setsockopt(socket.SOL_SOCKET, socket.SO_LINGER, struct.pack("ii", 1, 0))
                peer.close()
            else:
                peer.setblocking(False)
                got = 0
                for _ in range(4000):
                    try:
                        d = peer.recv(1 << 20)
                        if not d:
                            break
                        got += len(d)
                    except BlockingIOError:
                        await asyncio.sleep(0.001)
                    if got >= 8 * 1024 * 1024:
                        break
                log.append("peer-read-all:" + str(got == 8 * 1024 * 1024))
            await asyncio.sleep(0.2)
        if scen == "peer-data-then-fin":
            peer.sendall(b"hello")
            await asyncio.sleep(0.02)
            peer.shutdown(socket.SHUT_WR)
        elif scen == "protocol-raises":
            peer.sendall(b"bad")
        elif scen == "local-close-then-write":
            t.close()
            t.write(b"x")
            t.close()
        elif scen == "peer-reset":
            peer.setsockopt(socket.SOL_SOCKET, socket.SO_LINGER, struct.pack("ii", 1, 0))
            peer.close()
        elif scen == "eof-keep-open":
            peer.shutdown(socket.SHUT_WR)
            await asyncio.sleep(0.02)
            log.append("closing:" + str(t.is_closing()))
            t.close()
        elif scen.endswith("write-eof-before-poll"):
            import time
            if scen.startswith("reset"):
                peer.setsockopt(socket.SOL_SOCKET, socket.SO_LINGER, struct.pack("ii", 1, 0))
            peer.close()
            time.sleep(0.05)          # the segment reaches the kernel; the loop does not run meanwhile
            log.append("closing:" + str(t.is_closing()))
            try:
                t.write_eof()
                log.append("write_eof:ok")
            except Exception as e:  # noqa: BLE001
                log.append("write_eof:" + type(e).__name__)
            t.close()
        await asyncio.sleep(0.05)
        try:
            peer.close()
        except OSError:
            pass
        try:
            t.abort()
        except AttributeError:
            pass            # already torn down
        return log

    async def fake(scen):
        loop = asyncio.get_running_loop()
        log = []
        proto = RecProto(log, raise_on=b"bad" if scen == "protocol-raises" else None, keep_open=scen == "eof-keep-open")
        t = FakeTransport(loop, FakeSocket(None, "127.0.0.1", 1), proto)
        loop.call_soon(proto.connection_made, t)
        await asyncio.sleep(0.02)
        if scen.startswith("stalled"):
            t.stalled = True
            t.write(b"x" * (8 * 1024 * 1024))
            await asyncio.sleep(0.05)
            log.append("buffered:" + str(t.get_write_buffer_size() > 0))
            if scen == "stalled-close-then-drain":
                t.close()
            else:
                t.feed_eof()
            await asyncio.sleep(0.2)
            log.append("closing:" + str(t.is_closing()))
            if scen == "stalled-fin-then-reset":
                t.feed_reset()
            else:
                t.drain()
                await asyncio.sleep(0.01)
                log.append("peer-read-all:True")
            await asyncio.sleep(0.2)
        if scen == "peer-data-then-fin":
            t.feed(b"hello")
            await asyncio.sleep(0.02)
            t.feed_eof()
        elif scen == "protocol-raises":
            t.feed(b"bad")
        elif scen == "local-close-then-write":
            t.close()
            t.write(b"x")
            t.close()
        elif scen == "peer-reset":
            t.feed_reset()
        elif scen == "eof-keep-open":
            t.feed_eof()
            await asyncio.sleep(0.02)
            log.append("closing:" + str(t.is_closing()))
            t.close()
        elif scen.endswith("write-eof-before-poll"):
            if scen.startswith("reset"):
                t.kernel_reset = True
                loop.call_soon(t.feed_reset)
            else:
                loop.call_soon(t.feed_eof)
            log.append("closing:" + str(t.is_closing()))
            try:
                t.write_eof()
                log.append("write_eof:ok")
            except Exception as e:  # noqa: BLE001
                log.append("write_eof:" + type(e).__name__)
            t.close()
        await asyncio.sleep(0.05)
        return log

    async def both():
        import logging
        logging.getLogger("asyncio").setLevel(logging.CRITICAL)
        for s in SCEN:
            a, b = await real(s), await fake(s)
            if a != b:
                raise AssertionError(f"FakeTransport differs from asyncio's socket transport in scenario {s}: real {a} fake {b}")
    loop = asyncio.new_event_loop()
    try:
        loop.run_until_complete(both())
    finally:
        loop.close()

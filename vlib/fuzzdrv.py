"""Runs an atheris (libFuzzer) campaign as one case of a layer and turns a crash into an ordinary oracle failure."""
import json
import os
import shutil
import subprocess
import sys
import tempfile

from vlib.runner import VERIF, HarnessError


def run_campaign(R, modname, fname, runs, seed, corpus=(), max_len=600, replay_clause_layer=None):
    os.makedirs(os.path.join(VERIF, ".work"), exist_ok=True)
    work = tempfile.mkdtemp(prefix="fuzz-", dir=os.path.join(VERIF, ".work"))
    try:
        cdir = os.path.join(work, "corpus")
        os.makedirs(cdir)
        for i, b in enumerate(corpus):
            with open(os.path.join(cdir, f"seed{i}"), "wb") as fh:
                fh.write(b)
        out = os.path.join(work, "failure.json")
        env = dict(os.environ, PYTHONPATH=os.pathsep.join([os.path.join(VERIF, ".deps"), VERIF, os.environ.get("PYTHONPATH", "")]))
        cmd = [sys.executable, "-m", "vlib.fuzzchild", modname, fname, out, f"-runs={runs}", f"-seed={seed or 1}", f"-max_len={max_len}", "-print_final_stats=1",
               f"-artifact_prefix={work}/", cdir]
        r = subprocess.run(cmd, cwd=work, env=env, capture_output=True, text=True, timeout=3600)
        execs = 0
        for line in r.stderr.splitlines():
            if "stat::number_of_executed_units" in line:
                execs = int(line.split()[-1])
        if os.path.exists(out):
            doc = json.load(open(out))
            data = bytes.fromhex(doc["input"])
            return execs, data, doc["failures"]
        if r.returncode != 0:
            raise HarnessError(f"atheris campaign failed without an oracle failure (exit {r.returncode}): {r.stderr[-800:]}")
        return execs, None, None
    finally:
        shutil.rmtree(work, ignore_errors=True)

import sys
from vlib.runner import main
sys.exit(main())

"""Child process of an atheris campaign: python -m vlib.fuzzchild <module> <function> <outfile> [libFuzzer args...]
The target function has the signature f(data: bytes, R) and reports oracle failures through R (vlib.runner.Rec); the first
input with a failure is written to <outfile> and the process exits through an uncaught exception (libFuzzer 'crash')."""
import json
import logging
import os
import sys


def main():
    modname, fname, outfile = sys.argv[1:4]
    fargs = [sys.argv[0]] + sys.argv[4:]
    logging.disable(logging.CRITICAL)
    repo = os.path.realpath(os.environ.get("VERIF_REPO", "/repo"))
    sys.path.insert(0, repo)
    import atheris
    with atheris.instrument_imports(include=["aiohomekit"]):
        import importlib
        mod = importlib.import_module(modname)
    from vlib.runner import Rec
    func = getattr(mod, fname)
    count = [0]

    def one(data):
        count[0] += 1
        R = Rec()
        func(bytes(data), R)
        if R.failures:
            with open(outfile, "w") as fh:
                json.dump({"input": bytes(data).hex(), "failures": [[c, ctx, m] for c, ctx, m in R.failures]}, fh)
            raise RuntimeError("oracle failure: " + R.failures[0][0])
    atheris.Setup(fargs, one)
    atheris.Fuzz()


if __name__ == "__main__":
    main()

"""Virtual-time asyncio event loop (DESIGN 3.3).

`time()` is a counter.  The selector never blocks: when nothing is ready it adds the timeout the
loop asked for to the counter, so sleeps, timeouts and back-off delays cost nothing.  A select
with no timeout and nothing scheduled is a deadlock of the simulated world and raises."""
from __future__ import annotations

import asyncio
import selectors
import weakref


class VDeadlock(RuntimeError):
    """The loop would block forever: nothing scheduled and nothing ready."""


class VBudget(RuntimeError):
    """More loop iterations than the case allows (busy loop in the code under test)."""


class _VSelector(selectors.DefaultSelector):
    def __init__(self, loop_ref):
        super().__init__()
        self._loop_ref = loop_ref

    def select(self, timeout=None):
        ev = super().select(0)
        if ev:
            return ev
        loop = self._loop_ref()
        if timeout is None:
            raise VDeadlock("virtual loop deadlock: nothing scheduled, nothing ready")
        if timeout > 0:
            loop._vtime += timeout
        return []


class VLoop(asyncio.SelectorEventLoop):
    def __init__(self, max_iterations: int = 2_000_000):
        self._vtime = 0.0
        self._iterations = 0
        self._max_iterations = max_iterations
        self.create_connection_hook = None
        super().__init__(_VSelector(weakref.ref(self)))

    def time(self):
        return self._vtime

    def _run_once(self):
        self._iterations += 1
        if self._iterations > self._max_iterations:
            raise VBudget(f"more than {self._max_iterations} loop iterations")
        super()._run_once()

    async def create_connection(self, protocol_factory, host=None, port=None, *, sock=None, **kw):
        if self.create_connection_hook is None:
            raise RuntimeError("VLoop.create_connection without a simulated network")
        return await self.create_connection_hook(self, protocol_factory, sock)


def run(coro_fn, *args, max_iterations=2_000_000, **kw):
    """Run `coro_fn(loop, *args)` to completion on a fresh virtual-time loop and close it."""
    loop = VLoop(max_iterations)
    asyncio.set_event_loop(loop)
    try:
        return loop.run_until_complete(coro_fn(loop, *args, **kw))
    finally:
        try:
            pending = [t for t in asyncio.all_tasks(loop) if not t.done()]
            for t in pending:
                t.cancel()
            if pending:
                try:
                    loop.run_until_complete(asyncio.gather(*pending, return_exceptions=True))
                except (VDeadlock, VBudget):
                    pass
            loop.run_until_complete(loop.shutdown_asyncgens())
        finally:
            asyncio.set_event_loop(None)
            loop.close()


_SHARED = None


def shared_loop() -> VLoop:
    """One long-lived loop per process for cases that only need *a* running loop (pure codecs)."""
    global _SHARED
    if _SHARED is None or _SHARED.is_closed():
        _SHARED = VLoop(max_iterations=10**12)
    return _SHARED


def run_shared(coro):
    loop = shared_loop()
    asyncio.set_event_loop(loop)
    return loop.run_until_complete(coro)


async def settle(loop, rounds: int = 200):
    """Run until no callback is ready, without advancing the virtual clock."""
    for _ in range(rounds):
        await asyncio.sleep(0)
        if not loop._ready:
            return
    raise VBudget("world did not settle")

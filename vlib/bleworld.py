"""World builder for the BLE transport: real BleController + BlePairing against vlib.blesim."""
from __future__ import annotations

import struct

from bleak.backends.device import BLEDevice
from bleak.backends.scanner import AdvertisementData

import aiohomekit.controller.ble.pairing as ble_pairing_mod
from aiohomekit.characteristic_cache import CharacteristicCacheMemory
from aiohomekit.controller.ble.controller import BleController
from aiohomekit.controller.ble.manufacturer_data import HomeKitAdvertisement
from vlib import refhap
from vlib.blesim import CH_PAIR_SETUP, CH_PAIR_VERIFY, CH_PAIRING_FEATURES, CH_PAIRINGS, SVC_PAIRING, SVC_TEST, UUID_BASE, FakeBleClient, RefBleAccessory
from vlib.refhap import RefIdentity, ed_from_seed, ed_pub

FORMATS = {  # iid -> (format, struct code, perms)
    10: ("bool", "?", ["pr", "pw", "ev"]), 11: ("uint8", "B", ["pr", "pw", "ev"]), 12: ("uint16", "<H", ["pr", "pw"]), 13: ("uint32", "<I", ["pw"]),
    14: ("int", "<i", ["pr", "pw", "tw"]), 15: ("float", "<f", ["pr"]), 16: ("string", None, ["pr", "pw"]), 17: ("uint8", "B", ["pw"])}


# two characteristics of one type in one service (two outlets, two buttons ...): told apart by their instance ids only
TWINS = {20: 0x20, 21: 0x20, 22: 0x20}


def char_uuid(iid):
    return "0000FF%02X" % iid + UUID_BASE


SVC_PROTO = "000000A2" + UUID_BASE


def model_db(proto=False):
    extra = [{"iid": 30, "type": SVC_PROTO, "characteristics": [
        {"iid": 31, "type": "000000A5" + UUID_BASE, "perms": ["pr"], "format": "data"}, {"iid": 32, "type": "00000037" + UUID_BASE, "perms": ["pr"], "format": "string"}]}] if proto else []
    return [{"aid": 1, "services": extra + [
        {"iid": 1, "type": SVC_PAIRING, "characteristics": [
            {"iid": 2, "type": CH_PAIR_SETUP, "perms": ["pr", "pw"], "format": "tlv8"}, {"iid": 3, "type": CH_PAIR_VERIFY, "perms": ["pr", "pw"], "format": "tlv8"},
            {"iid": 5, "type": CH_PAIRING_FEATURES, "perms": ["pr"], "format": "uint8"}, {"iid": 4, "type": CH_PAIRINGS, "perms": ["pr", "pw"], "format": "tlv8"}]},
        {"iid": 8, "type": SVC_TEST, "characteristics": [
            {"iid": iid, "type": char_uuid(iid), "perms": perms, "format": fmt} for iid, (fmt, code, perms) in FORMATS.items()] + [
            {"iid": iid, "type": char_uuid(t), "perms": ["pr", "pw"], "format": "uint8"} for iid, t in TWINS.items()]}]}]


class BleWorld:
    def __init__(self, loop, k=0, acc_id="AA:BB:CC:DD:EE:FF", ios_id="ios-ble-controller", att_payload=155, cache=None, proto=False, disconnected_events=()):
        self.loop = loop
        seed = refhap.H(b"bleworld", str(k).encode())
        self.ident = RefIdentity(acc_id.encode(), seed[:32])
        self.ios_seed = seed[32:64]
        self.ios_ltpk = ed_pub(ed_from_seed(self.ios_seed))
        self.ident.controllers[ios_id.encode()] = self.ios_ltpk
        chars = {iid: {"uuid": char_uuid(iid), "format": fmt, "perms": list(perms), "value": (struct.pack(code, 0) if code else b"")} for iid, (fmt, code, perms) in FORMATS.items()}
        for iid, t in TWINS.items():
            chars[iid] = {"uuid": char_uuid(t), "format": "uint8", "perms": ["pr", "pw"], "value": b"\x00"}
        self.acc = RefBleAccessory(self.ident, chars)
        self.att_payload = att_payload
        self.clients = []
        self.on_client = None          # callable(client): configure every new link (faults of the stack)
        self.connect_fail = 0
        if proto:
            # a HAP Protocol Information service (service signature characteristic: the protocol-configuration requests go there)
            self.acc.service_iids[SVC_PROTO] = 30
        if cache is None:             # (a caller that brings its own cache decides what it holds)
            cache = CharacteristicCacheMemory()
            db = model_db(proto)
            for s_ in db[0]["services"]:
                for c_ in s_["characteristics"]:
                    if c_["iid"] in disconnected_events:
                        c_["disconnected_events"] = True
            cache.async_create_or_update_map(acc_id, 1, db, None, 1)
        self.controller = BleController(char_cache=cache)
        self.pairing_data = {"AccessoryPairingID": acc_id, "AccessoryLTPK": self.ident.ltpk.hex(), "iOSPairingId": ios_id, "iOSDeviceLTSK": self.ios_seed.hex(),
                             "iOSDeviceLTPK": self.ios_ltpk.hex(), "AccessoryAddress": "00:11:22:33:44:55", "Connection": "BLE"}
        self._orig = ble_pairing_mod.establish_connection
        world = self

        async def establish_connection(device, name, disconnected_callback, max_attempts=None, use_services_cache=False, ble_device_callback=None):
            if world.connect_fail:
                world.connect_fail -= 1
                from aiohomekit.exceptions import AccessoryDisconnectedError
                raise AccessoryDisconnectedError("simulated: connection failed")
            c = FakeBleClient(world.acc, disconnected_callback, world.att_payload)
            world.clients.append(c)
            if world.on_client is not None:
                world.on_client(c)
            return c
        ble_pairing_mod.establish_connection = establish_connection
        self.pairing = self.controller.load_pairing("alias", dict(self.pairing_data))
        self.pairing.device = BLEDevice("00:11:22:33:44:55", "Sim", None)
        self.pairing.description = HomeKitAdvertisement.from_cache("00:11:22:33:44:55", acc_id.lower(), 1, 1)

    @property
    def client(self):
        return self.clients[-1] if self.clients else None

    def restore(self):
        ble_pairing_mod.establish_connection = self._orig

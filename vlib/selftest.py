"""Smoke test of the harness itself (run by MANIFEST.setup_cmd); not a property check."""
import sys


def main():
    import hypothesis  # noqa: F401
    import aiohomekit  # noqa: F401
    from vlib import refhap
    assert refhap.tlv_dec(refhap.tlv_enc([(1, b"x" * 300), (2, b"")])) == [(1, b"x" * 300), (2, b"")]
    # RFC 5869-style sanity of the HKDF (length and determinism) and RFC 8439 AEAD round trip
    k = refhap.hkdf_sha512(b"a" * 32, b"salt", b"info")
    assert len(k) == 32 and k == refhap.hkdf_sha512(b"a" * 32, b"salt", b"info")
    ct = refhap.aead_enc(k, refhap.nonce(ctr=3), b"hello", b"ad")
    assert refhap.aead_dec(k, refhap.nonce(ctr=3), ct, b"ad") == b"hello"
    assert refhap.aead_open_partial_tag(k, refhap.nonce(ctr=3), ct[:5], ct[5:9], b"ad") == b"hello"
    assert refhap.aead_open_partial_tag(k, refhap.nonce(ctr=3), ct[:5], b"\0\0\0\0", b"ad") is None
    try:
        from vlib import simnet
    except ImportError:
        simnet = None
    if simnet is not None and hasattr(simnet, "selftest"):
        # the real-socket half of the differential waits fixed real-time intervals; on a heavily loaded machine one of them can be too
        # short, so a mismatch is retried before it counts
        for attempt in range(4):
            try:
                simnet.selftest()
                break
            except OSError as e:      # no loopback interface in this sandbox: the differential needs real sockets
                print(f"selftest: loopback sockets unavailable ({e}); transport differential skipped")
                break
            except AssertionError:
                if attempt == 3:
                    raise
    print("selftest ok")
    return 0

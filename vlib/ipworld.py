"""World builder for the IP transport: real IpPairing on a virtual-time loop against vlib.simnet."""
from __future__ import annotations

import types

import aiohappyeyeballs as real_aiohappyeyeballs

import aiohomekit.controller.ip.connection as conn_mod
from aiohomekit.characteristic_cache import CharacteristicCacheMemory
from aiohomekit.controller.ip.pairing import IpPairing
from vlib import refhap
from vlib.refhap import RefIdentity, ed_from_seed, ed_pub
from vlib.simnet import Net, SimAccessory


class FakeController:
    def __init__(self):
        self._char_cache = CharacteristicCacheMemory()
        self.aliases = {}          # the registries a transport controller keeps (Controller.remove_pairing edits them)
        self.pairings = {}


class IpWorld:
    def __init__(self, loop, hosts=("10.0.0.5",), port=51826, k=0, acc_id="AA:BB:CC:DD:EE:FF", ios_id="decc6fa3-de3e-41c9-adba-ef7409821bfc",
                 db=None, other_accessory_hosts=()):
        self.loop = loop
        self.net = Net(loop)
        seed = refhap.H(b"world", str(k).encode())
        self.ident = RefIdentity(acc_id.encode(), seed[:32])
        self.ios_seed = seed[32:64]
        self.ios_ltpk = ed_pub(ed_from_seed(self.ios_seed))
        self.ident.controllers[ios_id.encode()] = self.ios_ltpk
        self.acc = SimAccessory(loop, self.ident, db)
        for hst in hosts:
            self.net.accessories[hst] = self.acc
        # hosts that answer as a different accessory (same controller key registered, another identity)
        self.other = None
        if other_accessory_hosts:
            oid = RefIdentity(b"99:88:77:66:55:44", refhap.H(b"other", seed)[:32])
            oid.controllers[ios_id.encode()] = self.ios_ltpk
            self.other = SimAccessory(loop, oid, db)
            for hst in other_accessory_hosts:
                self.net.accessories[hst] = self.other
        self._orig = conn_mod.aiohappyeyeballs
        conn_mod.aiohappyeyeballs = types.SimpleNamespace(
            start_connection=self.net.start_connection,
            pop_addr_infos_interleave=real_aiohappyeyeballs.pop_addr_infos_interleave,
            AddrInfoType=real_aiohappyeyeballs.AddrInfoType)
        all_hosts = list(hosts) + [h for h in other_accessory_hosts if h not in hosts]
        self.pairing_data = {"AccessoryPairingID": acc_id, "AccessoryLTPK": self.ident.ltpk.hex(), "iOSPairingId": ios_id,
                             "iOSDeviceLTSK": self.ios_seed.hex(), "iOSDeviceLTPK": self.ios_ltpk.hex(),
                             "AccessoryIP": all_hosts[0], "AccessoryPort": port, "Connection": "IP"}
        if len(all_hosts) > 1:
            self.pairing_data["AccessoryIPs"] = all_hosts
        self.controller = FakeController()
        self.pairing = IpPairing(self.controller, self.pairing_data)

    def restore(self):
        conn_mod.aiohappyeyeballs = self._orig

    @property
    def conn(self):
        """The accessory-side view of the newest connection."""
        return self.acc.conns[-1] if self.acc.conns else None

"""Fake GATT client + reference HAP-BLE accessory (DESIGN 3.3).  The accessory side imports nothing from aiohomekit; the
client is duck-typed after AIOHomeKitBleakClient at the Python API boundary of bleak."""
from __future__ import annotations

import asyncio
import struct

from bleak.exc import BleakError

from vlib import refhap
from vlib.refhap import (T_ERROR, T_FRAGDATA, T_FRAGLAST, T_ID, T_METHOD, T_PERM, T_PK, T_STATE, RefIdentity, RefPairVerify, aead_dec, aead_enc, nonce, tlv_dec,
                         tlv_enc)

UUID_BASE = "-0000-1000-8000-0026BB765291"
SVC_PAIRING = "00000055" + UUID_BASE
CH_PAIR_SETUP = "0000004C" + UUID_BASE
CH_PAIR_VERIFY = "0000004E" + UUID_BASE
CH_PAIRING_FEATURES = "0000004F" + UUID_BASE
CH_PAIRINGS = "00000050" + UUID_BASE
SVC_TEST = "0000FF00" + UUID_BASE

OP_SIG, OP_WRITE, OP_READ, OP_TIMED_WRITE, OP_EXEC_WRITE, OP_SERV_SIG, OP_CONFIG, OP_PROTO = 1, 2, 3, 4, 5, 6, 7, 8


SERVICE_INSTANCE_ID = "E604E95D-A759-4817-87D3-AA005083A0D1"
SERVICE_SIGNATURE = "000000A5" + UUID_BASE
FMT_BYTE = {"bool": 0x01, "uint8": 0x04, "uint16": 0x06, "uint32": 0x08, "uint64": 0x0A, "int": 0x10, "float": 0x14, "string": 0x19, "data": 0x1B, "tlv8": 0x1B}
FMT_CODE = {"uint8": "B", "uint16": "H", "uint32": "I", "uint64": "Q", "int": "i", "float": "f"}
PERM_BITS = {"pr": 0x0010, "pw": 0x0020, "aa": 0x0004, "tw": 0x0008, "hd": 0x0040, "ev": 0x0080}


def uuid_le(u):
    import uuid as _uuid
    return _uuid.UUID(u).bytes[::-1]


def signature_items(c, iid, service_iid, service_uuid):
    """HAP-BLE characteristic signature (7.3.4.x) of a characteristic declared as dict(uuid, format, perms, min, max, step, broadcast, disconnected)."""
    fmt = c.get("format", "data")
    props = 0
    for p_ in c.get("perms", ["pr", "pw"]):
        props |= PERM_BITS.get(p_, 0)
    if c.get("disconnected"):
        props |= 0x0100
    if c.get("broadcast"):
        props |= 0x0200
    items = [(0x04, uuid_le(c["uuid"])), (0x07, struct.pack("<H", service_iid)), (0x06, uuid_le(service_uuid)), (0x0A, struct.pack("<H", props)),
             (0x0C, struct.pack("<BbHBH", FMT_BYTE[fmt], 0, c.get("unit", 0x2700), 1, 0))]
    code = FMT_CODE.get(fmt)
    if code and c.get("min") is not None and c.get("max") is not None:
        items.append((0x0D, struct.pack("<" + code * 2, c["min"], c["max"])))
    if code and c.get("step") is not None:
        items.append((0x0E, struct.pack("<" + code, c["step"])))
    return items


class GattCollection(list):
    """What BleakClient.services is to its users: iterable of services, plus the .services mapping."""

    @property
    def services(self):
        return dict(enumerate(self))


class GattService:
    def __init__(self, uuid, iid, characteristics):
        self.uuid, self.iid, self.characteristics = uuid, iid, characteristics

    def get_characteristic(self, uuid):
        for ch in self.characteristics:
            if ch.uuid.lower() == str(uuid).lower():
                return ch
        return None

    def __repr__(self):
        return f"GattService({self.uuid[:8]}, iid={self.iid})"


class GattChar:
    max_write_without_response_size = 0         # what bleak reports for the handle (0: unknown)

    def __init__(self, uuid, iid, service_uuid, kind="data"):
        self.uuid, self.iid, self.service_uuid, self.kind = uuid, iid, service_uuid, kind
        self.properties = ["read", "write"]
        self.max_write_without_response_size = 0
        self.handle = iid
        self.descriptors = []

    def get_descriptor(self, uuid):
        """The Characteristic Instance ID descriptor (HAP-BLE 7.4.4.5.1), as bleak presents it."""
        if self.iid is None:
            return None
        import types
        return types.SimpleNamespace(handle=("iid-descriptor", self))

    def __repr__(self):
        return f"GattChar({self.uuid[:8]}, iid={self.iid})"


class RefBleAccessory:
    """Reference HAP-BLE accessory: PDU reassembly, pair-verify (with resume), secure session, characteristic reads/writes,
    pairings, plus a fault hook consulted for every completed request."""

    def __init__(self, ident: RefIdentity, chars: dict[int, dict]):
        self.ident = ident
        self.chars = chars                      # iid -> dict(uuid, service, format, value: bytes, write_status, read_status)
        self.handles = [GattChar(CH_PAIR_VERIFY, 3, SVC_PAIRING, "verify"), GattChar(CH_PAIRINGS, 4, SVC_PAIRING, "pairings"),
                        GattChar(CH_PAIR_SETUP, 2, SVC_PAIRING, "setup"), GattChar(CH_PAIRING_FEATURES, 5, SVC_PAIRING, "features")]
        for iid, c in chars.items():
            self.handles.append(GattChar(c["uuid"], iid, c.get("service", SVC_TEST)))
        self.gsn = 1                            # global state number / configuration number (HAP-BLE 7.4.1.8)
        self.config_num = 1
        self.on_char_read = None                # callable(iid): called after a characteristic read was answered (something changes meanwhile)
        self.service_iids = {SVC_PAIRING: 1, SVC_TEST: 8}      # GATT database: service uuid -> instance id
        self.service_linked = {}                # service uuid -> list of linked service instance ids
        self.service_props = {}                 # service uuid -> HAP service properties (1 primary, 2 hidden, 4 configurable)
        self.session = None                     # dict(c2a, a2c) keys
        self.c2a = self.a2c = 0
        self.rx = {}
        self.pending = {}                       # handle iid -> list of response fragments (wire bytes)
        self.eph = 0
        self.pv = None
        self.requests = []                      # (handle iid, opcode, tid, iid, body) reassembled requests
        self.writes = []                        # (iid, value bytes) accepted writes
        self.sent = []                          # ciphertext fragments produced, in order, per session key: [(key, ct)]
        self.sessions_established = 0
        self.resumed_sessions = 0
        self.fault = None                       # callable(acc, handle, opcode, iid, body) -> None | dict(action=...)
        self.response_frag = 512
        self.verify_reply_pieces = None         # split pair-verify replies into FragmentData/FragmentLast pieces of this size
        self.frag_buffer = {}
        self.pairings_reply = None              # override for the pairings characteristic: list of TLV items
        self.timed = {}
        self.decrypt_errors = []
        self.empty_last_fragment = False        # all data travels in FragmentData items, the reply ends with a zero-length FragmentLast (0d 00)
        self.envelope_fault = None              # callable(stage, pairing TLV bytes) -> bytes of the HAP-Param envelope (instead of 01 <len> <tlv>)
        self.endless_fragments = {}             # "verify" | "setup" -> True: the last fragment of a fragmented reply is withheld for ever
        self.endless_sent = 0
        self.abort_fragments = {}               # "verify" | "setup" -> (fragments delivered before the abort, error reply items)
        self.frag_sent = {}
        self.aborted_steps = []
        self.abort_only_stage = None
        self.cur_stage = None
        self.unauth_garbage = []                # writes on a link without a session that are not plaintext HAP requests
        self.verify_fault = None                # callable(stage, honest_items) -> items (C01/C04 at transport level)
        self.setup_handler = None               # callable(request TLV items) -> raw reply bytes for the pair-setup characteristic
        self.feature_flags = 0
        self.setup_reply_pieces = None

    def reset_link(self):
        self.session = None
        self.c2a = self.a2c = 0
        self.rx = {}
        self.pending = {}
        self.frag_buffer = {}

    # ---- GATT entry points
    def on_write(self, h: GattChar, data: bytes):
        secure = self.session is not None and h.kind not in ("verify", "setup")
        if secure:
            pt = aead_dec(self.session["c2a"], nonce(ctr=self.c2a), data, b"")
            if pt is None:
                self.decrypt_errors.append((h.iid, self.c2a))
                raise BleakError("simulated accessory: write rejected (authentication failed)")
            self.c2a += 1
            data = pt
        st = self.rx.get(h.iid)
        if st is None:
            if len(data) < 5:
                raise BleakError("simulated accessory: short PDU")
            ctl, op, tid, iid = struct.unpack("<BBBH", data[:5])
            if not secure and (ctl != 0x00 or not 1 <= op <= 8):
                # on a link without a session only plaintext HAP requests make sense; this is neither (e.g. encrypted under keys of another session)
                self.unauth_garbage.append((h.iid, data[:8]))
                raise BleakError("simulated accessory: not a HAP request PDU")
            if ctl & 0x80:
                raise BleakError("simulated accessory: continuation without a request")
            if len(data) > 5:
                ln = struct.unpack("<H", data[5:7])[0]
                body = data[7:]
            else:
                ln, body = 0, b""
            st = {"op": op, "tid": tid, "iid": iid, "ln": ln, "body": bytearray(body)}
        else:
            if not data[0] & 0x80 or data[1] != st["tid"]:
                raise BleakError("simulated accessory: bad continuation fragment")
            st["body"] += data[2:]
        if len(st["body"]) < st["ln"]:
            self.rx[h.iid] = st
            return
        self.rx.pop(h.iid, None)
        body = bytes(st["body"])
        self.requests.append((h.iid, st["op"], st["tid"], st["iid"], body))
        action = self.fault(self, h, st["op"], st["iid"], body) if self.fault else None
        if action and action.get("action") == "no-response":
            return
        status, rbody = self.handle(h, st["op"], st["iid"], body)
        if action and "status" in action:
            status = action["status"]
        self.respond(h, st["tid"], status, rbody, secure, action or {})

    def respond(self, h, tid, status, body, secure, action):
        frag = self.response_frag
        if body:
            first = struct.pack("<BBBH", 0x02, tid, status, len(body)) + body[:frag - 5]
            rest = body[frag - 5:]
        else:
            first = struct.pack("<BBB", 0x02, tid, status)
            rest = b""
        frags = [first]
        while rest:
            frags.append(struct.pack("<BB", 0x82, tid) + rest[:frag - 2])
            rest = rest[frag - 2:]
        if action.get("wrong_tid"):
            f = bytearray(frags[0])
            f[1] = (f[1] + 1) & 0xFF
            frags[0] = bytes(f)
        out = []
        if secure:
            self.a2c += action.get("skip", 0)
            for f in frags:
                ct = aead_enc(self.session["a2c"], nonce(ctr=self.a2c), f, b"")
                self.a2c += 1
                self.sent.append((self.session["a2c"], ct))
                out.append(ct)
            if action.get("corrupt"):
                b = bytearray(out[0])
                b[len(b) // 2] ^= 1
                out[0] = bytes(b)
            if action.get("replay") is not None:
                mine = [ct for k, ct in self.sent[:-len(frags)] if k == self.session["a2c"]]
                if mine:
                    out = [mine[action["replay"] % len(mine)]]
        else:
            out = frags
        self.pending[h.iid] = out

    def on_read(self, h: GattChar):
        q = self.pending.get(h.iid)
        if not q:
            raise BleakError("simulated accessory: nothing to read")
        return q.pop(0)

    # ---- request handling
    def handle(self, h, op, iid, body):
        if op == OP_SERV_SIG:
            svc = next((u for u, i_ in self.service_iids.items() if i_ == iid), None)
            if svc is None:
                return 4, b""
            items = [(0x0F, struct.pack("<H", self.service_props.get(svc, 0)))]
            linked = self.service_linked.get(svc)
            if linked is not None:
                items.append((0x10, b"".join(struct.pack("<H", x) for x in linked)))
            return 0, tlv_enc(items)
        if op == OP_PROTO and h.kind == "svc-sig":
            # HAP-Protocol-Configuration on a service signature characteristic: the global state number, configuration number, advertising id
            return 0, tlv_enc([(1, struct.pack("<H", self.gsn & 0xFFFF)), (2, bytes([self.config_num & 0xFF])), (3, self.ident.pairing_id[:6])])
        if op == OP_SIG and h.kind in ("verify", "pairings", "setup", "features", "svc-sig"):
            decl = {"uuid": h.uuid, "format": "uint8" if h.kind == "features" else "data", "perms": ["pr"] if h.kind in ("features", "svc-sig") else ["pr", "pw"]}
            return 0, tlv_enc(signature_items(decl, h.iid, self.service_iids.get(h.service_uuid, 0), h.service_uuid))
        if h.kind == "verify":
            return self.pair_verify(body)
        if h.kind == "pairings":
            return self.pairings(body)
        if h.kind == "setup" and self.setup_handler is not None and op == OP_WRITE:
            req = tlv_dec(dict(tlv_dec(body))[1])
            if req == [(T_FRAGDATA, b"")]:
                return 0, self._next_piece("setup")
            raw = self.setup_handler(req)
            if self.setup_reply_pieces:
                n = self.setup_reply_pieces
                self.frag_buffer["setup"] = [raw[i:i + n] for i in range(0, len(raw), n)]
                self.frag_sent["setup"] = 0
                return 0, self._next_piece("setup")
            return 0, tlv_enc([(1, raw)])
        if h.kind == "features" and op == OP_READ:
            return 0, tlv_enc([(1, bytes([self.feature_flags]))])
        c = self.chars.get(iid)
        if c is None or (h.kind == "data" and h.iid != iid):
            return 4, b""           # Invalid Instance ID: unknown, or not the characteristic this GATT handle stands for
        if op == OP_SIG:
            svc = c.get("service", SVC_TEST)
            return 0, tlv_enc(c["signature"] if "signature" in c else signature_items(c, iid, self.service_iids.get(svc, 0), svc))
        if op == OP_WRITE:
            d = dict(tlv_dec(body))
            st = c.get("write_status", 0)
            if st == 0:
                c["value"] = d.get(1, b"")
                self.writes.append((iid, d.get(1, b"")))
            return st, b""
        if op == OP_TIMED_WRITE:
            st = c.get("write_status", 0)
            if st == 0:
                inner = dict(tlv_dec(body[2:]))
                self.timed[iid] = inner.get(1, b"")
            return st, b""
        if op == OP_EXEC_WRITE:
            st = c.get("exec_status", 0)
            if iid not in self.timed:
                return 6, b""
            v = self.timed.pop(iid)
            if st == 0:
                c["value"] = v
                self.writes.append((iid, v))
            return st, b""
        if op == OP_READ:
            st = c.get("read_status", 0)
            if st:
                return st, b""
            out = tlv_enc([(1, c.get("value", b"\x00"))])
            if self.on_char_read is not None:
                self.on_char_read(iid)
            return 0, out
        if op == OP_PROTO:
            return 0, tlv_enc([(1, struct.pack("<H", c.get("gsn", 1))), (2, b"\x01"), (3, self.ident.pairing_id[:6])])
        return 6, b""

    def pair_verify(self, body):
        outer = dict(tlv_dec(body))
        req = tlv_dec(outer[1])
        if req == [(T_FRAGDATA, b"")]:                   # the controller acknowledges a fragment: send the next piece
            return 0, self._next_piece("verify")
        d = dict(req)
        self.cur_stage = "m2" if d.get(T_STATE) == b"\x01" else "m4"
        if d.get(T_STATE) == b"\x01":
            self.eph += 1
            self.pv = RefPairVerify(self.ident, refhap.H(b"ble-eph", str(self.eph).encode(), self.ident.pairing_id)[:32])
            reply = self.pv.handle_m1(req)
            if self.verify_fault:
                reply = self.verify_fault("m2", reply, self.pv)
            if self.pv.resumed:
                self._install(self.pv)
                self.resumed_sessions += 1
        else:
            reply = self.pv.handle_m3(req)
            if self.verify_fault:
                reply = self.verify_fault("m4", reply, self.pv)
            if self.pv.verified and not any(t == T_ERROR for t, _ in reply):
                self._install(self.pv)
        raw = tlv_enc(reply)
        if self.verify_reply_pieces:
            n = self.verify_reply_pieces
            self.frag_buffer["verify"] = [raw[i:i + n] for i in range(0, len(raw), n)] + ([b""] if self.empty_last_fragment else [])
            self.frag_sent["verify"] = 0
            return 0, self._next_piece("verify")
        if self.envelope_fault is not None:
            return 0, self.envelope_fault(self.cur_stage, raw)
        return 0, tlv_enc([(1, raw)])

    def _next_piece(self, key):
        pieces = self.frag_buffer.get(key) or [b""]
        if self.endless_fragments.get(key) and len(pieces) == 1 and self.frag_buffer.get(key):
            # the last fragment never comes: the accessory keeps answering with empty FragmentData items
            self.endless_sent += 1
            return tlv_enc([(1, tlv_enc([(T_FRAGDATA, b"")]))])
        ab = self.abort_fragments.get(key)
        if ab is not None and self.abort_only_stage in (None, self.cur_stage):
            self.frag_sent[key] = self.frag_sent.get(key, 0) + 1
            if self.frag_sent[key] > ab[0] and len(pieces) >= 1:
                # instead of the next fragment the accessory gives up on the step with an ordinary (unfragmented) error reply
                self.frag_buffer[key] = []
                self.frag_sent[key] = 0
                self.aborted_steps.append(key)
                return tlv_enc([(1, tlv_enc(ab[1]))])
        p = pieces.pop(0)
        inner = tlv_enc([(T_FRAGLAST if not pieces else T_FRAGDATA, p)])
        return tlv_enc([(1, inner)])

    def _install(self, pv):
        # the pair-verify characteristic always travels in the clear, so the session can start right away
        self.session = {"c2a": pv.key(b"Control-Salt", b"Control-Write-Encryption-Key"), "a2c": pv.key(b"Control-Salt", b"Control-Read-Encryption-Key")}
        self.c2a = self.a2c = 0
        self.sessions_established += 1

    def after_response_read(self, h):
        pass

    def pairings(self, body):
        outer = dict(tlv_dec(body))
        req = dict(tlv_dec(outer.get(1, b"")))
        if self.pairings_reply is not None:
            return 0, tlv_enc([(1, tlv_enc(self.pairings_reply))])
        m = req.get(T_METHOD)
        if m == b"\x03":
            self.ident.controllers[req[T_ID]] = req[T_PK]
        elif m == b"\x04":
            self.ident.controllers.pop(req[T_ID], None)
        elif m == b"\x05":
            items = [(T_STATE, b"\x02")]
            for i, (cid, pk) in enumerate(sorted(self.ident.controllers.items())):
                if i:
                    items.append((255, b""))
                items += [(T_ID, cid), (T_PK, pk), (T_PERM, b"\x01")]
            return 0, tlv_enc([(1, tlv_enc(items))])
        return 0, tlv_enc([(1, tlv_enc([(T_STATE, b"\x02")]))])


class FakeBleClient:
    """What BlePairing / ble.client use of AIOHomeKitBleakClient."""

    def __init__(self, acc: RefBleAccessory, disconnected_callback=None, att_payload=155, address="00:11:22:33:44:55"):
        self.acc = acc
        self.att_payload = att_payload
        self.address = address
        self.is_connected = True
        self._cb = disconnected_callback
        self.log = []                 # ("w"|"r", handle iid, bytes)
        self.gatt_error_at = None     # raise BleakError at the n-th GATT operation from now
        self.disconnect_delay = 0.0
        self.disconnect_fails = False
        self._char_cache = {}
        self._iid_cache = {}
        self._AIOHomeKitBleakClient__name = address
        self.notify_fail = {}         # iid -> "once" | "always"
        self.notify_calls = []
        self._extra = {}
        self.oversize = []
        self.ops = 0
        self.notify = {}
        acc.reset_link()

    def _maybe_fail(self):
        self.ops += 1
        if self.gatt_error_at is not None and self.ops >= self.gatt_error_at:
            self.gatt_error_at = None
            raise BleakError("simulated GATT error")
        if not self.is_connected:
            raise BleakError("simulated: not connected")

    @property
    def services(self):
        """The GATT table as bleak presents it: per service its characteristics plus the Service Instance ID and Service Signature ones."""
        out = []
        for svc_uuid, svc_iid in self.acc.service_iids.items():
            chars = [h for h in self.acc.handles if h.service_uuid.lower() == svc_uuid.lower()]
            extra = self._extra.get(svc_uuid)
            if extra is None:
                sid = GattChar(SERVICE_INSTANCE_ID, None, svc_uuid, "svc-iid")
                sid.handle = 10000 + svc_iid
                sid.value = struct.pack("<H", svc_iid)
                sig = GattChar(SERVICE_SIGNATURE, 0x7000 + svc_iid, svc_uuid, "svc-sig")
                extra = self._extra[svc_uuid] = [sid, sig]
                self.acc.handles.extend(x for x in extra if x.iid is not None and not any(y.iid == x.iid for y in self.acc.handles))
            out.append(GattService(svc_uuid, svc_iid, [extra[0]] + [c for c in chars if c.kind != "svc-sig"] + [extra[1]]))
        return GattCollection(out)

    def _by_handle(self, h):
        if isinstance(h, int):
            for svc in self.services:
                for ch in svc.characteristics:
                    if ch.handle == h:
                        return ch
            raise BleakError(f"fake client: no characteristic with handle {h}")
        return h

    async def get_characteristic(self, service_uuid, char_uuid, iid=None):
        # the tree's own lookup (aiohomekit/controller/ble/bleak.py: search, disambiguation by instance id, caches) over this link's GATT table
        from aiohomekit.controller.ble.bleak import AIOHomeKitBleakClient
        return await AIOHomeKitBleakClient.get_characteristic(self, service_uuid, char_uuid, iid)

    async def get_characteristic_iid(self, h):
        from aiohomekit.controller.ble.bleak import AIOHomeKitBleakClient
        return await AIOHomeKitBleakClient.get_characteristic_iid(self, h)

    async def read_gatt_descriptor(self, handle):
        kind, ch = handle
        return bytearray(struct.pack("<H", ch.iid))

    @property
    def mtu_size(self):
        return self.att_payload + 3

    def determine_fragment_size(self, overhead, handle):
        # the tree's own size rule (aiohomekit/controller/ble/bleak.py) on this link's MTU and the handle's reported write size
        from aiohomekit.controller.ble.bleak import AIOHomeKitBleakClient
        return AIOHomeKitBleakClient.determine_fragment_size(self, overhead, handle)

    def carried(self, h):
        """Largest GATT write this link carries for the handle."""
        return max(h.max_write_without_response_size or 0, self.att_payload)

    async def write_gatt_char(self, h, data, response):
        await asyncio.sleep(0)
        self._maybe_fail()
        data = bytes(data)
        self.log.append(("w", h.iid, data))
        if len(data) > self.carried(h):
            self.oversize.append((h.iid, len(data), self.carried(h)))
            raise BleakError(f"simulated link: a write of {len(data)} bytes does not fit ({self.carried(h)})")
        self.acc.on_write(h, data)

    async def read_gatt_char(self, h):
        await asyncio.sleep(0)
        self._maybe_fail()
        h = self._by_handle(h)
        if h.kind == "svc-iid":
            return bytearray(h.value)
        d = self.acc.on_read(h)
        self.acc.after_response_read(h)
        self.log.append(("r", h.iid, d))
        return bytearray(d)

    async def start_notify(self, h, cb):
        await asyncio.sleep(0)
        if not self.is_connected:
            raise BleakError("simulated: not connected")
        self.notify_calls.append(h.iid)
        if h.iid in self.notify_fail:
            # the stack refuses this one subscription (CCCD write failed ...); the link stays up
            if self.notify_fail[h.iid] == "once":
                del self.notify_fail[h.iid]
            raise BleakError(f"simulated: start_notify failed for {h.iid}")
        self.notify[h.iid] = cb

    async def disconnect(self):
        if not self.is_connected:
            return
        if self.disconnect_fails:
            # the stack itself is gone (dead D-Bus socket ...): the call fails and no disconnected callback is ever delivered.
            # disconnect_fails may name the exception the stack raises (any member of bleak-retry-connector's retry set) and say
            # whether the link still reports connected afterwards (a disconnect that timed out)
            exc, alive = self.disconnect_fails if isinstance(self.disconnect_fails, tuple) else (BleakError, False)
            if not alive:
                self.is_connected = False
                self.acc.reset_link()
            raise exc("simulated: disconnect failed")
        if self.disconnect_delay:
            await asyncio.sleep(self.disconnect_delay)      # a real disconnect takes a while; GATT operations in flight still complete
            if not self.is_connected:
                return
        self.is_connected = False
        self.acc.reset_link()
        if self._cb:
            self._cb(self)

    def drop(self):
        """The accessory / link drops the connection."""
        if self.is_connected:
            self.is_connected = False
            self.acc.reset_link()
            if self._cb:
                self._cb(self)

    async def clear_cache(self):
        pass

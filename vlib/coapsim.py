"""Fake aiocoap Context + reference HAP-CoAP accessory (DESIGN 3.3).  Replies are real aiocoap Messages; the accessory side
imports nothing from aiohomekit."""
from __future__ import annotations

import asyncio
import struct

from aiocoap import Message
from aiocoap.error import NetworkError
from aiocoap.numbers.codes import Code

import aiohomekit.controller.coap.connection as coap_conn_mod
from aiohomekit.characteristic_cache import CharacteristicCacheMemory
from aiohomekit.controller.coap.pairing import CoAPPairing
from vlib import refhap
from vlib.refhap import (T_ERROR, T_ID, T_METHOD, T_PERM, T_PK, T_STATE, RefIdentity, RefPairVerify, aead_dec, aead_enc, ed_from_seed, ed_pub, enc_struct, nonce,
                         tlv_dec, tlv_enc)

# iid -> (type, format byte, struct code, props bits)   props: 0x10 secure read, 0x20 secure write, 0x80 notify, 0x08 timed write
CHARS = {10: (0x25, 0x01, "?", 0x10 | 0x20 | 0x80), 11: (0x08, 0x04, "B", 0x10 | 0x20 | 0x80), 12: (0xFF12, 0x06, "<H", 0x10 | 0x20), 13: (0xFF13, 0x08, "<I", 0x20),
         14: (0xFF14, 0x10, "<i", 0x10 | 0x20), 15: (0x11, 0x14, "<f", 0x10), 16: (0x23, 0x19, None, 0x10 | 0x20)}
PAIRINGS_IID = 4


def char_items(iid, chars=None):
    typ, fmt, code, props = (chars or CHARS)[iid]
    return [(0x04, typ.to_bytes(16, "little")), (0x05, struct.pack("<H", iid)), (0x0A, struct.pack("<H", props)), (0x0C, struct.pack("<BbHBH", fmt, 0, 0x2700, 1, 0))]


def database(chars=None):
    chars = chars or CHARS
    pairing_chars = [[(0x13, [(0x04, (0x50).to_bytes(16, "little")), (0x05, struct.pack("<H", PAIRINGS_IID)), (0x0A, struct.pack("<H", 0x30)),
                              (0x0C, struct.pack("<BbHBH", 0x1B, 0, 0x2700, 1, 0))])]]
    svc_pair = [(0x15, [(0x06, (0x55).to_bytes(16, "little")), (0x07, struct.pack("<H", 1)), (0x14, ("list", pairing_chars))])]
    svc_test = [(0x15, [(0x06, (0x43).to_bytes(16, "little")), (0x07, struct.pack("<H", 8)), (0x14, ("list", [[(0x13, char_items(i, chars))] for i in sorted(chars)])),
                        (0x0F, struct.pack("<H", 1))])]
    return enc_struct([(0x18, ("list", [[(0x19, [(0x1A, struct.pack("<H", 1)), (0x16, ("list", [svc_pair, svc_test]))])]]))])


class RefCoapAccessory:
    def __init__(self, ident: RefIdentity):
        self.ident = ident
        self.sess = None
        self.pv = None
        self.eph = 0
        self.chars = dict(CHARS)           # instance database (a world may add characteristics before the first contact)
        self.values = {iid: (struct.pack(c, 0) if c else b"") for iid, (_, _, c, _) in CHARS.items()}
        self.write_status = {}
        self.read_status = {}
        self.sub_status = {}
        self.subscribed = set()
        self.requests = []            # decoded request PDUs (op, tid, iid, body)
        self.sent = []                # (key, ciphertext) responses/events produced in order
        self.fault = None             # callable(acc, pdus) -> None | dict
        self.verify_fault = None
        self.item_fault = None        # callable(index, op, iid) -> dict(tid=..., ctl=...) per-item PDU faults
        self.decrypt_errors = []
        self.sessions_established = 0
        self.pairings_status = 0
        self.setup_handler = None     # callable(request TLV items) -> raw reply bytes for POST /1 (pair-setup)

    def handle(self, msg):
        payload = bytes(msg.payload)
        path = tuple(msg.opt.uri_path)
        if path == ("2",):
            return self.pair_verify(payload)
        if path == ("1",) and self.setup_handler is not None:
            return Message(code=Code.CHANGED, payload=self.setup_handler(tlv_dec(payload)))
        if path in (("0",), ("1",)):
            return Message(code=Code.NOT_FOUND)
        s = self.sess
        if s is None:
            return Message(code=Code.NOT_FOUND)
        pt = aead_dec(s["rx"], nonce(ctr=s["rxc"]), payload, b"")
        if pt is None:
            self.decrypt_errors.append(s["rxc"])
            return Message(code=Code.NOT_FOUND)
        s["rxc"] += 1
        pdus = []
        off = 0
        while off < len(pt):
            ctl, op, tid, iid, ln = struct.unpack("<BBBHH", pt[off:off + 7])
            body = pt[off + 7:off + 7 + ln]
            off += 7 + ln
            pdus.append((op, tid, iid, body))
        self.requests.extend(pdus)
        action = self.fault(self, pdus) if self.fault else None
        if action and action.get("action") == "no-response":
            return None
        if action and action.get("action") == "network-error":
            raise NetworkError("simulated network error")
        if action and action.get("action") == "error-empty":
            # the accessory's CoAP stack refuses the request with an error class code and no payload (5.03 while busy, 4.00, 4.13 ...)
            return Message(code=getattr(Code, action.get("code", "SERVICE_UNAVAILABLE")))
        out = b""
        for i, (op, tid, iid, body) in enumerate(pdus):
            st, rb = self.handle_pdu(op, iid, body)
            ctl = 0x02
            f = self.item_fault(i, op, iid) if self.item_fault else None
            if f:
                tid = f.get("tid", tid)
                ctl = f.get("ctl", ctl)
                st = f.get("status", st)
                rb = f.get("body", rb)
            out += struct.pack("<BBBH", ctl, tid, st, len(rb)) + rb
        if action and "skip" in action:
            s["txc"] += action["skip"]
        ct = aead_enc(s["tx"], nonce(ctr=s["txc"]), out, b"")
        s["txc"] += 1
        self.sent.append((s["tx"], ct))
        if action and action.get("corrupt"):
            b = bytearray(ct)
            b[len(b) // 2] ^= 1
            ct = bytes(b)
        if action and action.get("replay") is not None:
            mine = [c for k, c in self.sent[:-1] if k == s["tx"]]
            if mine:
                ct = mine[action["replay"] % len(mine)] if action["replay"] >= 0 else mine[max(0, len(mine) + action["replay"])]
        return Message(code=Code.CHANGED, payload=ct)

    def handle_pdu(self, op, iid, body):
        if op == 0x09:
            return 0, database(self.chars)
        if iid == PAIRINGS_IID:
            if op == 0x02:
                self.pairings_req = dict(tlv_dec(dict(tlv_dec(body)).get(1, b"")))
                m = self.pairings_req.get(T_METHOD)
                if self.pairings_status:
                    return self.pairings_status, b""
                if m == b"\x04":
                    self.ident.controllers.pop(self.pairings_req.get(T_ID), None)
                return 0, b""
            if op == 0x03:
                items = [(T_STATE, b"\x02")]
                for i, (cid, pk) in enumerate(sorted(self.ident.controllers.items())):
                    if i:
                        items.append((255, b""))
                    items += [(T_ID, cid), (T_PK, pk), (T_PERM, b"\x01")]
                return 0, tlv_enc([(1, tlv_enc(items))])
        if iid not in self.chars:
            return 4, b""
        if op == 0x03:
            st = self.read_status.get(iid, 0) or (0 if self.chars[iid][3] & 0x10 else 6)      # no read permission: Invalid Request
            return (st, b"") if st else (0, tlv_enc([(1, self.values[iid])]))
        if op == 0x02:
            st = self.write_status.get(iid, 0)
            if st == 0:
                self.values[iid] = dict(tlv_dec(body)).get(1, b"")
            return st, b""
        if op in (0x0B, 0x0C):
            st = self.sub_status.get(iid, 0)
            if st == 0:
                (self.subscribed.add if op == 0x0B else self.subscribed.discard)(iid)
            return st, b""
        return 1, b""

    def pair_verify(self, payload):
        req = tlv_dec(payload)
        d = dict(req)
        if d.get(T_STATE) == b"\x01":
            self.eph += 1
            self.pv = RefPairVerify(self.ident, refhap.H(b"coap-eph", str(self.eph).encode())[:32], allow_resume=False)
            reply = self.pv.handle_m1(req)
            if self.verify_fault:
                reply = self.verify_fault("m2", reply, self.pv)
            if reply is None:
                return None          # a sleepy / out-of-range device: no answer to M1
        else:
            reply = self.pv.handle_m3(req)
            if self.verify_fault:
                reply = self.verify_fault("m4", reply, self.pv)
            if reply is None:
                return None
            if self.pv.verified and not any(t == T_ERROR for t, _ in reply):
                pv = self.pv
                self.sess = {"rx": pv.key(b"Control-Salt", b"Control-Write-Encryption-Key"), "tx": pv.key(b"Control-Salt", b"Control-Read-Encryption-Key"),
                             "ev": pv.key(b"Event-Salt", b"Event-Read-Encryption-Key"), "rxc": 0, "txc": 0, "evc": 0}
                self.sessions_established += 1
        return Message(code=Code.CHANGED, payload=tlv_enc(reply))

    def event_ciphertext(self, items, skip=0):
        """items: list of (iid, value bytes)"""
        s = self.sess
        pt = b""
        for iid, v in items:
            body = tlv_enc([(1, v)])
            pt += struct.pack("<BHH", 0, iid, len(body)) + body
        s["evc"] += skip
        ct = aead_enc(s["ev"], nonce(ctr=s["evc"]), pt, b"")
        s["evc"] += 1
        self.sent.append((s["ev"], ct))
        return ct


class _Req:
    def __init__(self, coro):
        self.response = coro


class FakeCtx:
    def __init__(self, world, root=None):
        self.world, self.root = world, root
        self.shut = False

    def request(self, msg):
        async def run():
            if self.world.reply_latencies:
                # the request reaches the accessory at once, its reply takes this long: two replies in flight can overtake each other
                lat = self.world.reply_latencies.pop(0)
                r = self.world.acc.handle(msg)
                await asyncio.sleep(lat)
                if self.shut:
                    raise NetworkError("context shut down")
                if r is None:
                    await asyncio.get_running_loop().create_future()
                return r
            await asyncio.sleep(self.world.latency)
            if self.shut:
                raise NetworkError("context shut down")
            r = self.world.acc.handle(msg)
            if r is None:
                await asyncio.get_running_loop().create_future()     # no reply: the caller's timeout fires
            return r
        return _Req(run())

    async def shutdown(self):
        self.shut = True


class CoapWorld:
    def __init__(self, loop, k=0, acc_id="AA:BB:CC:DD:EE:FF", ios_id="ios-coap"):
        self.loop = loop
        seed = refhap.H(b"coapworld", str(k).encode())
        self.ident = RefIdentity(acc_id.encode(), seed[:32])
        self.ios_seed = seed[32:64]
        self.ios_ltpk = ed_pub(ed_from_seed(self.ios_seed))
        self.ident.controllers[ios_id.encode()] = self.ios_ltpk
        self.acc = RefCoapAccessory(self.ident)
        self.latency = 0.01
        self.reply_latencies = []
        self.contexts = []
        world = self

        class Factory:
            @classmethod
            async def create_server_context(cls, root, bind=None):
                c = FakeCtx(world, root)
                world.contexts.append(c)
                return c

            @classmethod
            async def create_client_context(cls):
                c = FakeCtx(world)
                world.contexts.append(c)
                return c
        self._orig = coap_conn_mod.Context
        coap_conn_mod.Context = Factory
        self.pairing_data = {"AccessoryPairingID": acc_id, "AccessoryLTPK": self.ident.ltpk.hex(), "iOSPairingId": ios_id, "iOSDeviceLTSK": self.ios_seed.hex(),
                             "iOSDeviceLTPK": self.ios_ltpk.hex(), "AccessoryIP": "fd00::1", "AccessoryPort": 5683, "Connection": "CoAP"}

        class Ctl:
            def __init__(self):
                self._char_cache = CharacteristicCacheMemory()
        self.pairing = CoAPPairing(Ctl(), dict(self.pairing_data))

    def event_resource(self):
        root = next(c.root for c in reversed(self.contexts) if c.root is not None)
        return next(iter(root._resources.values()))

    async def push_event(self, ct):
        return await self.event_resource().render_put(Message(code=Code.PUT, payload=ct))

    def restore(self):
        coap_conn_mod.Context = self._orig

"""Common runner for every property check.

A property module (props/cNN.py) exposes SPEC = Property(...), a list of layers.  A layer
is either generated (a Hypothesis strategy producing JSON-able *cases*) or enumerated (an
iterator of cases over a finite space).  `run_case(case, R)` executes the real code on the
case and reports oracle failures through the recorder R; it never raises for an oracle
failure.  Everything else - sharding over 16 processes, seeding, counting distinct
non-trivial cases, samples, failure bucketing by (clause, context), known findings,
shrinking, replay files, evidence, exit codes - lives here (DESIGN.md section 2).
"""
from __future__ import annotations

import argparse
import hashlib
import importlib
import json
import multiprocessing as mp
import os
import random
import sys
import time
import traceback
from collections import Counter

VERIF = os.path.dirname(os.path.dirname(os.path.abspath(__file__)))
REPO = os.path.realpath(os.environ.get("VERIF_REPO", "/repo"))
NPROC = int(os.environ.get("VERIF_NPROC", "16"))

LEVELS = {"exploration", "fault_enumeration"}


# --------------------------------------------------------------------------- case codec
def enc(o):
    """Python value -> JSON-able value (bytes as {"$b": hex}); used for replay files,
    samples and the canonical hash of a case."""
    if isinstance(o, (bytes, bytearray)):
        return {"$b": bytes(o).hex()}
    if isinstance(o, dict):
        return {str(k): enc(v) for k, v in o.items()}
    if isinstance(o, (list, tuple)):
        return [enc(x) for x in o]
    if isinstance(o, (set, frozenset)):
        return sorted((enc(x) for x in o), key=lambda x: json.dumps(x, sort_keys=True))
    if isinstance(o, float):
        if o != o or o in (float("inf"), float("-inf")):
            return {"$f": repr(o)}
        return o
    if isinstance(o, (str, int, bool)) or o is None:
        return o
    return {"$r": repr(o)}


def dec(o):
    if isinstance(o, dict):
        if set(o) == {"$b"}:
            return bytes.fromhex(o["$b"])
        if set(o) == {"$f"}:
            return float(o["$f"])
        return {k: dec(v) for k, v in o.items()}
    if isinstance(o, list):
        return [dec(x) for x in o]
    return o


def canon(case) -> str:
    return json.dumps(enc(case), sort_keys=True, separators=(",", ":"))


def h64(s: str) -> int:
    return int.from_bytes(hashlib.blake2b(s.encode(), digest_size=8).digest(), "big")


def subseed(seed: int, *parts) -> int:
    return h64(json.dumps([seed, *parts])) & 0x7FFFFFFF


# --------------------------------------------------------------------------- declarations
class Layer:
    def __init__(self, name, run_case, *, strategy=None, enumerate=None, n=None,
                 exhaustive=False, space=None, tiers=("quick", "thorough"), serial=False,
                 min_nontrivial=0):
        self.name = name
        self.run_case = run_case
        self.strategy = strategy        # callable () -> hypothesis strategy   (generated layer)
        self.enumerate = enumerate      # callable (tier) -> iterable of cases (enumerated layer)
        self.n = n or {}                # {"quick": examples, "thorough": examples} for generated layers
        self.exhaustive = exhaustive
        self.space = space              # text describing the enumerated space
        self.tiers = tiers
        self.serial = serial            # run in one process (layer shares global state)
        self.min_nontrivial = min_nontrivial


class Property:
    def __init__(self, pid, level, rule, layers, assumptions=(), min_nontrivial=2, setup=None):
        assert level in LEVELS
        self.id, self.level, self.rule = pid, level, rule
        self.layers = layers
        self.assumptions = list(assumptions)
        self.min_nontrivial = min_nontrivial
        self.setup = setup

    def layer(self, name):
        for l in self.layers:
            if l.name == name:
                return l
        raise KeyError(name)


class HarnessError(Exception):
    """The harness itself malfunctioned (exit 2, never a violation)."""


class _Found(Exception):
    """Raised inside a Hypothesis test during the shrink pass for the targeted bucket."""


class _StopShrink(BaseException):
    pass


class Rec:
    """Per-case recorder handed to run_case."""
    __slots__ = ("failures", "nontrivial", "classes", "excluded", "note", "sub")

    def __init__(self):
        self.failures = []
        self.nontrivial = False
        self.classes = []
        self.excluded = []
        self.note = None
        self.sub = 0      # extra evaluations performed inside this case (batched enumerations)

    def fail(self, clause, msg, **ctx):
        # a NameError / ImportError raised by the harness's own code is a bug of the harness, never a verdict about the tree
        exc = sys.exc_info()[1]
        if isinstance(exc, (NameError, ImportError)) and exc.__traceback__ is not None:
            tb = exc.__traceback__
            while tb.tb_next is not None:
                tb = tb.tb_next
            if os.path.realpath(tb.tb_frame.f_code.co_filename).startswith(VERIF + os.sep):
                raise HarnessError(f"{type(exc).__name__} in the harness ({tb.tb_frame.f_code.co_filename}:{tb.tb_lineno}): {exc}") from exc
        self.failures.append((clause, ctx, str(msg)[:2000]))

    def nt(self, flag=True):
        if flag:
            self.nontrivial = True

    def cls(self, *names):
        self.classes.extend(names)

    def exclude(self, why):
        self.excluded.append(why)


def bucket_key(clause, ctx):
    return clause + "|" + json.dumps(ctx, sort_keys=True, default=str)


class Stats:
    def __init__(self):
        self.evaluations = 0
        self.nt = set()
        self.classes = Counter()
        self.excluded = Counter()
        self.samples = []
        self.failures = {}      # bucket -> dict(clause, ctx, msg, case, layer, count, size)
        self.harness_errors = []
        self.truncated = False
        self.per_layer = {}
        self._seen = 0

    def merge(self, o: "Stats"):
        self.evaluations += o.evaluations
        self.nt |= o.nt
        self.classes.update(o.classes)
        self.excluded.update(o.excluded)
        self.samples.extend(o.samples)
        for k, f in o.failures.items():
            mine = self.failures.get(k)
            if mine is None:
                self.failures[k] = f
            else:
                cnt = mine["count"] + f["count"]
                if f["size"] < mine["size"]:
                    self.failures[k] = f
                self.failures[k]["count"] = cnt
        self.harness_errors.extend(o.harness_errors)
        self.truncated |= o.truncated
        for k, v in o.per_layer.items():
            d = self.per_layer.setdefault(k, {"evaluations": 0, "nontrivial": 0, "complete": True})
            d["evaluations"] += v["evaluations"]
            d["nontrivial"] += v["nontrivial"]
            d["complete"] &= v["complete"]


def _repo_frame(tb) -> bool:
    """True when the innermost frames of a traceback are inside the code under test."""
    frames = traceback.extract_tb(tb)
    for fr in reversed(frames):
        fn = os.path.realpath(fr.filename)
        if fn.startswith(VERIF + os.sep):
            return False
        if fn.startswith(REPO + os.sep):
            return True
    return False


def execute(prop: Property, layer: Layer, case, stats: Stats, rng: random.Random | None,
            target_bucket=None, keep=None):
    R = Rec()
    try:
        layer.run_case(case, R)
    except (_Found, _StopShrink):
        raise
    except HarnessError as e:
        stats.harness_errors.append(f"{layer.name}: {e}")
        return R
    except Exception as e:  # noqa: BLE001
        tb = traceback.format_exc()
        if _repo_frame(e.__traceback__):
            R.fail(f"{prop.id}.unexpected-exception", tb[-1500:], exc=type(e).__name__, layer=layer.name)
        else:
            stats.harness_errors.append(f"{layer.name}: {tb[-3000:]}")
            return R
    stats.evaluations += 1 + R.sub
    pl = stats.per_layer.setdefault(layer.name, {"evaluations": 0, "nontrivial": 0, "complete": True})
    pl["evaluations"] += 1 + R.sub
    c = None
    if R.nontrivial:
        c = canon(case)
        hv = h64(layer.name + c)
        if hv not in stats.nt:
            stats.nt.add(hv)
            pl["nontrivial"] += 1
    for n in R.classes:
        stats.classes[n] += 1
    for n in R.excluded:
        stats.excluded[n] += 1
    # samples: first two of each layer, then reservoir of 4
    if rng is not None:
        stats._seen += 1
        if pl["evaluations"] <= 1 or (R.nontrivial and len(stats.samples) < 3):
            stats.samples.append({"layer": layer.name, "case": _clip(enc(case)), "nontrivial": R.nontrivial})
        elif R.nontrivial and rng.random() < 3.0 / stats._seen and len(stats.samples) < 8:
            stats.samples.append({"layer": layer.name, "case": _clip(enc(case)), "nontrivial": R.nontrivial})
    for clause, ctx, msg in R.failures:
        bk = bucket_key(clause, ctx)
        c = c or canon(case)
        f = stats.failures.get(bk)
        if f is None or len(c) < f["size"]:
            cnt = (f["count"] if f else 0)
            stats.failures[bk] = {"clause": clause, "ctx": ctx, "msg": msg, "case": enc(case),
                                  "layer": layer.name, "count": cnt, "size": len(c)}
        stats.failures[bk]["count"] += 1
        if target_bucket is not None and bk == target_bucket:
            if keep is not None and (keep.get("size") is None or len(c) < keep["size"]):
                keep.update(size=len(c), case=enc(case), msg=msg)
            raise _Found(bk)
    return R


def _clip(o, limit=1500):
    s = json.dumps(o, sort_keys=True)
    if len(s) <= limit:
        return o
    return {"$clipped": s[:limit] + "...", "$len": len(s)}


# --------------------------------------------------------------------------- shard workers
_PROP = None


def _hyp_settings(n, shrink):
    from hypothesis import HealthCheck, Phase, Verbosity, settings
    return settings(max_examples=max(1, n), database=None, deadline=None, derandomize=False,
                    report_multiple_bugs=False, verbosity=Verbosity.quiet,
                    phases=(Phase.generate, Phase.shrink) if shrink else (Phase.generate,),
                    suppress_health_check=[HealthCheck.too_slow, HealthCheck.data_too_large,
                                           HealthCheck.large_base_example],
                    stateful_step_count=50)


def run_hyp_layer(prop, layer, n, seed, stats, rng, target_bucket=None, keep=None, stop_at=None):
    import hypothesis
    from hypothesis import given

    strat = layer.strategy()

    @hypothesis.seed(seed)
    @_hyp_settings(n, shrink=target_bucket is not None)
    @given(strat)
    def test(case):
        if stop_at is not None and time.monotonic() > stop_at:
            raise _StopShrink()
        execute(prop, layer, case, stats, rng, target_bucket, keep)

    try:
        test()
    except _Found:
        return True
    except _StopShrink:
        return True
    except hypothesis.errors.FailedHealthCheck as e:
        stats.harness_errors.append(f"{layer.name}: health check: {e}")
    except hypothesis.errors.Unsatisfiable as e:
        stats.harness_errors.append(f"{layer.name}: unsatisfiable: {e}")
    return False


def _shard(args):
    pid, lname, tier, seed, shard, nshards, soft_deadline = args
    prop = _PROP
    layer = prop.layer(lname)
    stats = Stats()
    rng = random.Random(subseed(seed, pid, lname, shard, "samples"))
    try:
        if layer.strategy is not None:
            n_total = layer.n.get(tier, layer.n.get("quick", 100))
            n = n_total // nshards + (1 if shard < n_total % nshards else 0)
            if n > 0:
                run_hyp_layer(prop, layer, n, subseed(seed, pid, lname, shard), stats, rng)
        else:
            complete = True
            for i, case in enumerate(layer.enumerate(tier)):
                if i % nshards != shard:
                    continue
                if (i // nshards) % 64 == 0 and time.time() > soft_deadline:
                    complete = False
                    stats.truncated = True
                    break
                execute(prop, layer, case, stats, rng)
            stats.per_layer.setdefault(layer.name, {"evaluations": 0, "nontrivial": 0, "complete": True})["complete"] = complete
    except Exception:  # noqa: BLE001
        stats.harness_errors.append(f"{lname} shard {shard}: {traceback.format_exc()[-3000:]}")
    return stats


# --------------------------------------------------------------------------- known findings
def load_known(pid):
    path = os.path.join(VERIF, "known_findings.json")
    if not os.path.exists(path):
        return []
    with open(path) as f:
        return [e for e in json.load(f) if e.get("property") == pid]


def match_known(entry, clause, ctx):
    if entry.get("status") != "open" or entry.get("clause") != clause:
        return False
    return all(ctx.get(k) == v for k, v in entry.get("match", {}).items())


# --------------------------------------------------------------------------- main
def _import_prop(pid):
    global _PROP
    mod = importlib.import_module(f"props.{pid.lower()}")
    _PROP = mod.SPEC
    return _PROP


def _check_tree():
    import aiohomekit
    root = os.path.realpath(os.path.dirname(os.path.dirname(aiohomekit.__file__)))
    if root != REPO:
        print(f"HARNESS-ERROR: aiohomekit imported from {root}, expected {REPO}")
        sys.exit(2)


def run_replay_file(prop, path, stats):
    with open(path) as f:
        doc = json.load(f)
    layer = prop.layer(doc["layer"])
    before = set(stats.failures)
    execute(prop, layer, dec(doc["case"]), stats, None)
    new = [stats.failures[k] for k in stats.failures if k not in before]
    # a replay case may also hit a bucket that was already present: report those with the same case
    hit = [f for k, f in stats.failures.items() if f["case"] == doc["case"] or k not in before]
    return doc, (new or hit)


def write_replay(prop, f, shrunk=False):
    d = os.path.join(VERIF, "replays", prop.id, "found")
    os.makedirs(d, exist_ok=True)
    name = hashlib.blake2b(bucket_key(f["clause"], f["ctx"]).encode(), digest_size=5).hexdigest()
    path = os.path.join(d, f"{f['clause'].replace('/', '_')}-{name}.json")
    with open(path, "w") as fh:
        json.dump({"property": prop.id, "layer": f["layer"], "clause": f["clause"], "ctx": f["ctx"],
                   "msg": f["msg"], "shrunk": shrunk, "case": f["case"]}, fh, indent=1, sort_keys=True)
    return path


def main(argv=None):
    ap = argparse.ArgumentParser()
    ap.add_argument("pid")
    ap.add_argument("--tier", default=os.environ.get("VERIF_TIER") or "quick", choices=["quick", "thorough"])
    ap.add_argument("--replay")
    ap.add_argument("--layer", action="append")
    ap.add_argument("--no-evidence", action="store_true")
    args = ap.parse_args(argv)
    if os.environ.get("PYTHONHASHSEED") != "0":
        os.environ["PYTHONHASHSEED"] = "0"
        os.execv(sys.executable, [sys.executable, "-m", "vlib", *(argv or sys.argv[1:])])
    seed = int(os.environ.get("VERIF_SEED") or "1")
    t0 = time.time()
    sys.path.insert(0, REPO)
    import logging
    logging.disable(logging.CRITICAL)
    _check_tree()
    pid = args.pid.upper()
    if pid == "SELFTEST":
        from vlib import selftest
        return selftest.main()
    prop = _import_prop(pid)
    if prop.setup:
        prop.setup()
    known = load_known(pid)
    total = Stats()
    out_lines = []
    violations = []   # (failure dict, replay path)

    if args.replay:
        doc, fails = run_replay_file(prop, args.replay, total)
        if total.harness_errors:
            print("HARNESS-ERROR:", total.harness_errors[0])
            return 2
        bad = 0
        for f in fails:
            ent = next((e for e in known if match_known(e, f["clause"], f["ctx"])), None)
            if ent:
                print(f"KNOWN-FINDING: property={pid} {ent['what']}")
            else:
                bad += 1
                print(f"clause={f['clause']} ctx={json.dumps(f['ctx'], sort_keys=True)}\n{f['msg']}")
                print(f"VIOLATION property={pid} replay={args.replay}")
        if not fails:
            print(f"replay {args.replay}: property held")
        return 1 if bad else 0

    # 1. regression / witness tier
    import shutil
    shutil.rmtree(os.path.join(VERIF, "replays", pid, "found"), ignore_errors=True)
    rdir = os.path.join(VERIF, "replays", pid)
    witness_hits = set()
    if os.path.isdir(rdir):
        for fn in sorted(os.listdir(rdir)):
            if not fn.endswith(".json"):
                continue
            path = os.path.join(rdir, fn)
            st = Stats()
            doc, fails = run_replay_file(prop, path, st)
            total.harness_errors.extend(st.harness_errors)
            total.evaluations += st.evaluations
            total.nt |= st.nt
            total.classes["replay-tier"] += 1
            for f in fails:
                ent = next((e for e in known if match_known(e, f["clause"], f["ctx"])), None)
                if ent:
                    witness_hits.add(id(ent))
                    total.excluded["known:" + ent["clause"]] += 1
                else:
                    violations.append((f, os.path.relpath(path, VERIF)))

    # 2. layers
    layers = [l for l in prop.layers if args.tier in l.tiers and (not args.layer or l.name in args.layer)]
    budget = float(os.environ.get("VERIF_BUDGET_S") or (150 if args.tier == "quick" else 1500))
    soft_deadline = t0 + budget
    tasks = []
    for l in layers:
        ns = 1 if l.serial else NPROC
        for s in range(ns):
            tasks.append((pid, l.name, args.tier, seed, s, ns, soft_deadline))
    if NPROC > 1 and len(tasks) > 1:
        ctx = mp.get_context("fork")
        with ctx.Pool(min(NPROC, len(tasks))) as pool:
            for st in pool.imap_unordered(_shard, tasks, chunksize=1):
                total.merge(st)
    else:
        for t in tasks:
            total.merge(_shard(t))

    # 3. classify failures
    unlisted = []
    for bk, f in sorted(total.failures.items()):
        ent = next((e for e in known if match_known(e, f["clause"], f["ctx"])), None)
        if ent:
            witness_hits.add(id(ent))
            total.excluded["known:" + ent["clause"]] += f["count"]
        else:
            unlisted.append((bk, f))
    # 4. shrink unlisted buckets found by generated layers (bounded), write replay files
    shrink_budget = 20 if args.tier == "quick" else 120
    for i, (bk, f) in enumerate(unlisted):
        layer = prop.layer(f["layer"])
        shrunk = False
        if layer.strategy is not None and i < 3 and not os.environ.get("VERIF_NO_SHRINK"):
            keep = {"size": f["size"], "case": f["case"], "msg": f["msg"]}
            n_total = layer.n.get(args.tier, layer.n.get("quick", 100))
            ns = 1 if layer.serial else NPROC
            stop_at = time.monotonic() + shrink_budget
            for s in range(ns):
                if time.monotonic() > stop_at:
                    break
                n = n_total // ns + (1 if s < n_total % ns else 0)
                st = Stats()
                try:
                    found = run_hyp_layer(prop, layer, n, subseed(seed, pid, layer.name, s), st, None,
                                          target_bucket=bk, keep=keep, stop_at=stop_at)
                except Exception:  # noqa: BLE001
                    found = False
                if found:
                    break
            if keep["size"] < f["size"]:
                f = dict(f, case=keep["case"], msg=keep["msg"], size=keep["size"])
                shrunk = True
        path = write_replay(prop, f, shrunk)
        violations.append((f, os.path.relpath(path, VERIF)))

    for ent in known:
        if ent.get("status") == "open" and id(ent) in witness_hits:
            out_lines.append(f"KNOWN-FINDING: property={pid} {ent['what']}")
    for f, path in violations:
        out_lines.append(f"clause={f['clause']} ctx={json.dumps(f['ctx'], sort_keys=True)} count={f.get('count', 1)}\n  {f['msg'][:600]}")
        out_lines.append(f"VIOLATION property={pid} replay={path}")

    wall = time.time() - t0
    nontriv = len(total.nt)
    starved = not violations and not total.harness_errors and not args.layer and (
        nontriv < prop.min_nontrivial or any(
            total.per_layer.get(l.name, {}).get("nontrivial", 0) < l.min_nontrivial for l in layers if not args.layer))
    # 5. evidence
    if not args.no_evidence and not args.layer:
        samples = total.samples[:]
        rnd = random.Random(seed)
        by_layer = {}
        for s in samples:
            by_layer.setdefault(s["layer"], []).append(s)
        picked = []
        for ln in sorted(by_layer):
            ss = by_layer[ln]
            ss.sort(key=lambda s: json.dumps(s, sort_keys=True))
            nts = [s for s in ss if s["nontrivial"]] or ss
            picked.append(nts[rnd.randrange(len(nts))])
            if len(nts) > 1:
                picked.append(nts[rnd.randrange(len(nts))])
        ev = {
            "property_id": pid, "tier": args.tier, "seed": seed, "level": prop.level,
            "coverage": {
                "evaluations": total.evaluations,
                "distinct_nontrivial": nontriv,
                "rule": prop.rule,
                "samples": picked[:12] or [{"note": "no cases"}],
                "exhaustive": bool(layers) and all(l.exhaustive and total.per_layer.get(l.name, {}).get("complete", False) for l in layers),
                "layers": {l.name: dict(total.per_layer.get(l.name, {"evaluations": 0, "nontrivial": 0, "complete": False}),
                                        kind="enumerated" if l.enumerate else "generated (hypothesis)",
                                        exhaustive=bool(l.exhaustive and total.per_layer.get(l.name, {}).get("complete", False)),
                                        **({"space": l.space} if l.space else {})) for l in layers},
                "classes": dict(sorted(total.classes.items())),
                "excluded": dict(sorted(total.excluded.items())),
                "budget_truncated": total.truncated,
                "known_findings_reported": [e["clause"] for e in known if e.get("status") == "open" and id(e) in witness_hits],
                "violation_buckets": [{"clause": f["clause"], "ctx": f["ctx"], "count": f.get("count", 1), "replay": p} for f, p in violations],
                "harness_errors": total.harness_errors[:5],
            },
            "assumptions": prop.assumptions,
            "wall_s": round(wall, 2),
            "violations": len(violations),
        }
        os.makedirs(os.path.join(VERIF, "evidence"), exist_ok=True)
        with open(os.path.join(VERIF, "evidence", f"{pid}.json"), "w") as fh:
            json.dump(ev, fh, indent=1, sort_keys=True)
            fh.write("\n")

    for l in out_lines:
        print(l)
    print(f"{pid} tier={args.tier} seed={seed} evaluations={total.evaluations} distinct_nontrivial={nontriv} "
          f"violations={len(violations)} known={sum(1 for e in known if id(e) in witness_hits)} wall={wall:.1f}s"
          + (" budget_truncated" if total.truncated else ""))
    if os.environ.get("VERIF_VERBOSE"):
        print(json.dumps(dict(total.classes), indent=1, sort_keys=True))
        print(json.dumps(total.per_layer, indent=1, sort_keys=True))
    if total.harness_errors:
        print(f"HARNESS-ERROR ({len(total.harness_errors)}):", total.harness_errors[0])
    if violations:
        return 1
    if total.harness_errors:
        return 2
    if starved:
        print(f"HARNESS-ERROR: generator starved: distinct_nontrivial={nontriv} < {prop.min_nontrivial} or a layer below its minimum: "
              + json.dumps(total.per_layer))
        return 2
    return 0



#!/usr/bin/env python3
"""Regenerates /verif/MANIFEST.json from the table below; a property is claimed iff props/cNN.py exists."""
import json
import os

V = os.path.dirname(os.path.dirname(os.path.abspath(__file__)))

T = {
    "C01": ("fault_enumeration", "4/C01", "enumerated and generated reply faults vs a reference accessory (exhaustive bit flips, recorded-handshake replay between two real exchanges, truncated replies), also through the simulated IP/BLE/CoAP transports (incl. resumes refused by a peer that proved nothing)",
            "The real get_session_keys generator and the three transports' verify drivers are run against a reference accessory written from the HAP text; every single-bit flip of M2 and an enumerated family of structural/key/identifier/transcript/replay faults must end in an exception, honest runs must be accepted by the reference and yield HKDF outputs equal to the reference's.",
            "Trusts `cryptography` primitives and the reference peer in vlib/refhap.py; arbitrary adversaries beyond the enumerated fault families are not covered."),
    "C02": ("exploration", "4/C02", "differential vs independent SRP-6a integer arithmetic, directed leading-zero mining; mined exchanges run as complete pair-setups against a reference accessory",
            "SrpClient outputs are compared byte-for-byte with Python-integer SRP-6a written from RFC 5054/HAP for generated codes, salts and secrets, with seeds stepped until A, B, S, K, M1 or M2 start with 0x00; all 512 single-bit flips of M2 must be rejected.",
            "Reference arithmetic in vlib/refhap.py (k computed, not copied); SHA-512 from hashlib."),
    "C03": ("fault_enumeration", "4/C03", "enumerated and generated M2/M4/M6 faults vs a reference pair-setup accessory, at generator level and end to end through the Discovery classes on simulated IP/BLE/CoAP transports; unknown items around every reply, second attempts on the same discovery / alias, replies chunked and in two segments",
            "perform_pair_setup_part1/2 run against a reference accessory; proof-breaking faults must raise and return nothing, honest runs must be accepted (M3 proof, M5 signature) by the reference and return a self-consistent record.",
            "Trusts `cryptography` primitives and the reference accessory."),
    "C04": ("fault_enumeration", "4/C04", "exhaustive decision table over step x state encoding x error x field subsets; add/remove-pairing and pair-verify cells through the simulated IP (HTTP status / content-type variants) and BLE transports",
            "Every cell of the finite table is executed against the real protocol generators / add- and remove-pairing calls and compared with the documented exception class; control cells must succeed.",
            "Fields not defined for a step are placed after State/Error (the suite pins the filter as stop-at-first-unexpected)."),
    "C05": ("exploration", "4/C05", "reference framer/deframer differential, exhaustive 1- and 2-cut segmentations, bit flips, exhaustive length-prefix bit grid over power-of-two frame sizes",
            "SecureHomeKitProtocol is fed reference-encrypted streams under generated frame sizes and all single/double cuts of small streams; outbound writes are deframed and decrypted by the reference.",
            "Reference AEAD framing in vlib/refhap.py; in-memory transport emulates asyncio's socket transport (self-tested against a socketpair)."),
    "C06": ("fault_enumeration", "4/C06", "history invariants over recorded AEAD calls (DFS + Hypothesis op lists)",
            "Every (key, nonce) used for encryption and every ciphertext accepted is logged by recording AEAD classes rebound from the harness; invariants: no nonce reuse per key, accepted messages genuine, distinct and in send order.",
            "Virtual-time loop; fake transports at the Python API boundary of asyncio/bleak/aiocoap."),
    "C07": ("exploration", "4/C07", "metamorphic segmentation invariance + generated message list as reference (abandoned waiters, the connection's own event handling)",
            "Generated HTTP/EVENT sequences are fed through the real feed loop under every single and double cut (small streams) and random multi-cuts; delivered messages must equal the generated list.",
            "Only well-formed messages are generated (no chunk extensions/trailers)."),
    "C08": ("exploration", "4/C08", "schedule exploration on a virtual-time loop with tagged responses (bounded DFS + Hypothesis histories), incl. a peer that stops reading and resets the loop has not polled yet (transport model checked against real TCP); enumerated BLE (failing disconnects) and CoAP (unanswered requests) histories",
            "Interleavings of requests, partial responses, events, cancels, timeouts, FIN/reset are executed on the real connection; each caller must get its own tagged response or a disconnection error, promptly.",
            "Event-loop-callback granularity on an in-memory network."),
    "C09": ("exploration", "4/C09", "strict independent request parser over generated API calls",
            "Every request-issuing API is called with generated arguments; the bytes handed to the transport are parsed by a strict grammar on the accessory side and compared semantically with the arguments.",
            "In-memory transport logs each write call separately."),
    "C10": ("fault_enumeration", "4/C10", "schedule model over attempt logs on a simulated network (DFS + Hypothesis); connect call with real stagger semantics, stored addresses in non-canonical spellings",
            "Per-attempt outcomes and harness events are enumerated/generated; the attempt log is checked for single connector, growing capped back-off, persistence, termination, waiter outcomes and fair exclusion.",
            "Bounded liveness on the virtual clock; statement-level back-off bounds (not the tree's constants)."),
    "C11": ("fault_enumeration", "4/C11", "fault enumeration over per-attempt outcomes (incl. damaged stored keys) and generated histories; open-connection count on the simulated accessory after every step; CoAP contexts per attempt; removal through the aggregate controller",
            "Histories of failed/successful secure setups, retries, peer closes of old and new connections and close() are executed; the accessory-side set of connections not closed by the controller must stay <= 1 and reach 0 after close.",
            "In-memory network (transport model compared with real TCP in SELFTEST); close() of an idle loop is observed after running to idle."),
    "C12": ("exploration", "4/C12", "model-based histories (Hypothesis op lists) vs subscription/listener model on the simulated IP transport; generated CoAP event notifications; enumerated and generated BLE subscription cases with refused start_notify calls",
            "Subscribe/unsubscribe/listener/drop/reconnect/event-burst histories run against the simulated accessory; registry on the accessory and per-listener call logs are compared with the model.",
            "Polling fallback exemption as written in the statement."),
    "C13": ("exploration", "4/C13", "decision table over status vectors (exhaustive n<=3) on IP, CoAP and BLE fakes (writes and reads), whole-request refusals",
            "Scripted accessory replies for every status vector; return values and listener notifications are compared with the table.",
            "Conformant reply shape (a 207 write reply lists every written characteristic)."),
    "C14": ("exploration", "4/C14", "differential vs exact rational model (fractions.Fraction) over generated and enumerated (format, range, step, input) cells, metadata through every construction path incl. the tree's own BLE GATT fetch against a simulated accessory",
            "Service.build_update / check_convert_value over generated formats, ranges, steps and inputs compared with exact arithmetic on the decimal reading of the inputs; garbage must raise FormatError only.",
            "Decimal reading of floats via repr; tolerance regime as stated in the property."),
    "C15": ("exploration", "4/C15", "reference codec differential, exhaustive short byte strings, Hypothesis + atheris; pairing TLV replies through the IP connection cut at every offset",
            "encode/decode compared with an independent TLV8 codec on a boundary grid and generated lists; every byte string of length <=2 (<=3 thorough) and generated/mutated strings must decode or raise TlvParseException with content equal to a plain walk.",
            "Reference codec in vlib/refhap.py."),
    "C16": ("exploration", "4/C16", "reflection-driven round trip + reference struct encoder",
            "Every TLVStruct subclass found by reflection gets type-directed generated values; decode(encode(x)) == x and encode(x) equals the reference encoder; reference-encoded signatures and CoAP databases are decoded and compared.",
            "Reference struct encoder in vlib/refhap.py; float-annotated fields left unset."),
    "C17": ("exploration", "4/C17", "exhaustive fragment-size x length grid, reference reassembly, CoAP outcome vectors, CoAP first-contact reads of generated services, BLE requests after abandoned ones",
            "BLE encode_pdu / _write_pdu / _read_pdu and CoAP encode/decode_all_pdus are compared with a reference reassembler over the full 8..64 x 0..200 grid, realistic sizes, all compositions of small responses and all outcome vectors for k<=4.",
            "Fake GATT client at the bleak API boundary."),
    "C18": ("exploration", "4/C18", "history exploration vs freshness model (window + high-water mark) with independent partial-tag AEAD; several listeners, repeated deliveries, stale plain advertisements, reloaded pairing",
            "Histories of broadcast advertisements (genuine at +1/+k/0/-k/beyond, wrong key, wrong id, bit flips, inner-counter mismatch) are fed to the BLE controller callback; listener calls and state_num are compared with the model.",
            "Authenticity decided by an independent implementation of the truncated-tag AEAD."),
    "C19": ("exploration", "4/C19", "schedule exploration of waiters on a virtual clock (incl. same-iteration orderings at the deadline) + generated/fuzzed advertisement contents",
            "Waiter/advertisement schedules on the mDNS, BLE and aggregate controllers; completion instants and parsed descriptions compared with an independent parse; callbacks must never raise.",
            "zeroconf cache fed directly; scanner not started."),
    "C20": ("fault_enumeration", "4/C20", "crash-point enumeration (every effect, every write prefix) + generated round trips; restart after every step of generated IP / BLE configuration- and state-number histories on a file cache; loading with subsets of transports; the real Controller on an empty file cache",
            "Controller.save_data is aborted at every file-system effect and byte prefix and the file re-read by a fresh Controller; pairing sets and accessory databases round-trip through save/load and the cache file; every prefix of a cache file loads as empty.",
            "Process-crash model with surviving OS; rename atomic."),
}


def main():
    checks = []
    na = []
    for pid in sorted(T):
        level, ref, tech, text, note = T[pid]
        if not os.path.exists(os.path.join(V, "props", pid.lower() + ".py")):
            na.append({"property_id": pid, "reason": "check not built yet (planned in DESIGN.md section " + ref + "); nothing is claimed for it at this commit"})
            continue
        checks.append({
            "property_id": pid,
            "quick_cmd": f"./check {pid} --tier quick",
            "thorough_cmd": f"./check {pid} --tier thorough",
            "evidence_file": f"/verif/evidence/{pid}.json",
            "replay_cmd_template": f"./check {pid} --replay {{path}}",
            "engine": "pbt",
            "level_claimed": {"category": level, "text": text, "design_ref": "DESIGN.md section " + ref},
            "level_note": note,
            "technique": tech,
        })
    m = {
        "version": 1,
        "setup_cmd": "/venv/bin/pip install -q --no-index --find-links /opt/veriftools/wheels --target /verif/.deps hypothesis atheris && ./check SELFTEST",
        "hooks": {
            "guard": "AIOHOMEKIT_VERIF",
            "enable": "no source hooks: the harness rebinds module-level names and wraps methods from outside (DESIGN.md 2.3); checks import /repo's working tree directly",
            "baseline_off_cmd": "cd /repo && /venv/bin/python -m pytest -ra -q -p no:cacheprovider --timeout=900 --continue-on-collection-errors",
            "source_commits": [],
            "add_only": True,
        },
        "engines": [{"name": "pbt", "path": "vlib/runner.py", "serves_properties": [c["property_id"] for c in checks],
                     "kind_free_text": "Hypothesis-generated and exhaustively enumerated cases against independent reference models on a virtual-time simulation; atheris for byte decoders"}],
        "checks": checks,
        "not_applicable": na,
        "notes": "All checks: ./check <ID> --tier quick|thorough; VERIF_SEED selects the seed; replay with ./check <ID> --replay <file>. known_findings.json lists recorded findings and fixed defects.",
    }
    with open(os.path.join(V, "MANIFEST.json"), "w") as f:
        json.dump(m, f, indent=1)
        f.write("\n")


if __name__ == "__main__":
    main()

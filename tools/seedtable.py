#!/usr/bin/env python3
"""Rewrites the table of independently seeded changes in DESIGN.md (between the SEEDED-TABLE markers) from seeded/*/meta.json."""
import glob, json, os, re
V = os.path.dirname(os.path.dirname(os.path.abspath(__file__)))
rows = ["| change | what it does (author's summary, shortened) | needs | caught by (quick tier) |", "|---|---|---|---|"]
for f in sorted(glob.glob(os.path.join(V, "seeded", "*", "meta.json"))):
    m = json.load(open(f))
    name = os.path.basename(os.path.dirname(f))
    def short(t, n):
        t = re.sub(r"\s+", " ", str(t or "")).replace("|", "/")
        return t if len(t) <= n else t[:n - 1] + "…"
    verdicts = []
    for c, v in sorted(m.get("our_checks", {}).items()):
        clause = ""
        for l in v.get("first_lines", []):
            mm = re.match(r"clause=(\S+)", l)
            if mm:
                clause = " `" + mm.group(1) + "`"
                break
        e = f" (first {v['earlier_verdict'].lower()}, caught after the check was strengthened)" if v.get("earlier_verdict") and v["earlier_verdict"] != v["verdict"] else ""
        verdicts.append(f"{c}: {v['verdict'].lower()}{clause}{e}")
    note = f" **Note:** {short(m['note'], 600)}" if m.get("note") else ""
    rows.append(f"| `seeded/{name}` | {short(m.get('summary'), 260)} | {short(m.get('needs'), 200)} | {'; '.join(verdicts)}{note} |")
p = os.path.join(V, "DESIGN.md")
s = open(p).read()
block = "<!-- SEEDED-TABLE-BEGIN -->\n" + "\n".join(rows) + "\n<!-- SEEDED-TABLE-END -->"
if "<!-- SEEDED-TABLE-BEGIN -->" in s:
    s = re.sub(r"<!-- SEEDED-TABLE-BEGIN -->.*?<!-- SEEDED-TABLE-END -->", lambda _: block, s, flags=re.S)
else:
    s = s.replace("SEEDED-TABLE", block, 1)
open(p, "w").write(s)
print(len(rows) - 2, "rows")

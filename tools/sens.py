#!/usr/bin/env python3
"""Sensitivity helper: apply one textual mutation (or a patch file) to a scratch copy of /repo,
run a check against it with VERIF_REPO, print the verdict, remove the copy.

  tools/sens.py C07 aiohomekit/http/response.py 'pos + 2 :' 'pos + 1 :'   [--count N] [--tier quick] [--tests]
  tools/sens.py C07 --patch seeded/C07-x/patch.diff
"""
import argparse
import os
import shutil
import subprocess
import sys
import tempfile

ap = argparse.ArgumentParser()
ap.add_argument("pid")
ap.add_argument("file", nargs="?")
ap.add_argument("old", nargs="?")
ap.add_argument("new", nargs="?")
ap.add_argument("--patch")
ap.add_argument("--count", type=int, default=1, help="which occurrence (1-based); 0 = all")
ap.add_argument("--tier", default="quick")
ap.add_argument("--tests", action="store_true", help="also run the repository's test suite on the mutant")
ap.add_argument("--seed", default="1")
ap.add_argument("--layer", action="append")
a = ap.parse_args()

V = os.path.dirname(os.path.dirname(os.path.abspath(__file__)))
d = tempfile.mkdtemp(prefix="sens-", dir="/tmp")
try:
    subprocess.check_call(["rsync", "-a", "--exclude", ".git", "--exclude", "__pycache__", "/repo/", d + "/"])
    if a.patch:
        subprocess.check_call(["patch", "-s", "-p1", "-d", d, "-i", os.path.abspath(a.patch)])
    else:
        p = os.path.join(d, a.file)
        s = open(p).read()
        n = s.count(a.old)
        if n == 0:
            print("MUTATION-NOT-APPLICABLE: pattern not found")
            sys.exit(3)
        if a.count == 0:
            s = s.replace(a.old, a.new)
        else:
            idx = -1
            for _ in range(a.count):
                idx = s.index(a.old, idx + 1)
            s = s[:idx] + a.new + s[idx + len(a.old):]
        open(p, "w").write(s)
    if a.tests:
        r = subprocess.run(["/venv/bin/python", "-m", "pytest", "-q", "-x", "-p", "no:cacheprovider", "--timeout=900"], cwd=d,
                           capture_output=True, text=True, env=dict(os.environ, PYTHONPATH=d))
        print("TESTS:", r.stdout.strip().splitlines()[-1] if r.stdout.strip() else r.stderr[-300:])
    env = dict(os.environ, VERIF_REPO=d, VERIF_SEED=a.seed)
    cmd = [os.path.join(V, "check"), a.pid, "--tier", a.tier, "--no-evidence"]
    for l in a.layer or []:
        cmd += ["--layer", l]
    r = subprocess.run(cmd, env=env, capture_output=True, text=True)
    lines = [l for l in r.stdout.splitlines() if l.startswith(("VIOLATION", "clause=", "HARNESS", "KNOWN")) or "tier=" in l]
    print("\n".join(l[:300] for l in lines[:12]))
    print("EXIT", r.returncode, "=>", "CAUGHT" if r.returncode == 1 else "MISSED" if r.returncode == 0 else "HARNESS-ERROR")
    if r.returncode == 2:
        print(r.stdout[-1500:], r.stderr[-1500:])
finally:
    shutil.rmtree(d, ignore_errors=True)

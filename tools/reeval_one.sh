#!/bin/bash
cd /verif
d=$1; b=$(basename $d); id=${b%-*}; k=${b#*-}
out=$(python3 tools/seedcheck.py $id $k --no-tests --src /verif/$d 2>&1 | grep "^check\|CONFIRMED\|PATCH" | tr '\n' ' ')
echo "$b: $out"

#!/bin/bash
id=$1
for d in /verif/seeded/$id-*; do /verif/tools/reeval_one.sh seeded/$(basename $d); done

#!/usr/bin/env python3
"""Mines SRP exchanges whose A, B, S, K, M1 or M2 start with 0x00 (reference arithmetic only) and
writes them to data/c02_corpus.json.  Run:  PYTHONPATH=/verif:/repo /venv/bin/python tools/mine_c02.py [per_target]"""
import hashlib, json, multiprocessing as mp, os, sys
sys.path.insert(0, os.path.dirname(os.path.dirname(os.path.abspath(__file__))))
from props.c02 import mine
from vlib.refhap import PAD

def job(args):
    t, k = args
    code = "%03d-%02d-%03d" % ((k * 37 + 5) % 1000, (k * 11) % 100, (k * 53 + len(t)) % 1000)
    salt = (b"\x00" * (k % 3) + hashlib.sha256(f"corpus{t}{k}".encode()).digest())[:16]
    r = mine(code, salt, 7000 + k, 9000 + k * 3, t, limit=20000)
    if r is None:
        return None
    a, b, ex, tries = r
    hits = [n for n, v in (("A0", PAD(ex.A)[0] == 0), ("B0", PAD(ex.B)[0] == 0), ("S0", PAD(ex.S)[0] == 0), ("K0", ex.K[0] == 0), ("M10", ex.M1[0] == 0), ("M20", ex.M2[0] == 0)) if v]
    return {"code": code, "salt": salt.hex(), "a": a, "b": b, "target": t, "hits": hits, "tries": tries}

if __name__ == "__main__":
    per = int(sys.argv[1]) if len(sys.argv) > 1 else 12
    jobs = [(t, k) for t in ("A0", "B0", "S0", "K0", "M10", "M20", "A0+B0") for k in range(per)]
    with mp.Pool(16) as pool:
        out = [r for r in pool.map(job, jobs, chunksize=1) if r]
    out.sort(key=lambda e: (e["target"], e["code"]))
    json.dump(out, open(os.path.join(os.path.dirname(os.path.dirname(os.path.abspath(__file__))), "data", "c02_corpus.json"), "w"), indent=0)
    print(len(out), "entries")

#!/bin/bash
# tools/seedbatch.sh <ID> [extra seedcheck args]: evaluates /tmp/s3-<ID>-out/{1,2,3} as seeded/<ID>-{3,4,5}
id=$1; shift
for k in 1 2 3; do
  [ -f /tmp/${SB:-s3}-$id-out/$k/patch.diff ] || continue
  echo "##### $id-$((k+${OFF:-2}))"
  python3 /verif/tools/seedcheck.py $id $((k+${OFF:-2})) --src /tmp/${SB:-s3}-$id-out/$k "$@" 2>&1 | grep -v "^    \|^  File" | cut -c1-260
done

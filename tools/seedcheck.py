#!/usr/bin/env python3
"""Confirms an independently written breaking change and runs our checks against it.

  tools/seedcheck.py C07 1 [--checks C07,C08] [--tier quick] [--no-tests]

Reads /tmp/seed-<ID>-out/<k>/{patch.diff,demo.py,meta.json}.  In a scratch copy of /repo (removed afterwards):
  1. the patch applies; the repository's test suite still passes with it;
  2. demo.py exits 0 on the clean copy and non-zero on the patched copy;
  3. each named check (default: the property's own) is run against the patched copy (VERIF_REPO).
Keeps the change as /verif/seeded/<ID>-<k>/ with the verdicts added to meta.json when 1 and 2 hold."""
import argparse
import json
import os
import shutil
import subprocess
import sys
import tempfile

V = os.path.dirname(os.path.dirname(os.path.abspath(__file__)))
ap = argparse.ArgumentParser()
ap.add_argument("pid")
ap.add_argument("k")
ap.add_argument("--checks")
ap.add_argument("--tier", default="quick")
ap.add_argument("--no-tests", action="store_true")
ap.add_argument("--src")
a = ap.parse_args()
src = a.src or f"/tmp/seed-{a.pid}-out/{a.k}"
patch = os.path.join(src, "patch.diff")
demo = os.path.join(src, "demo.py")
meta = json.load(open(os.path.join(src, "meta.json"))) if os.path.exists(os.path.join(src, "meta.json")) else {}
clean = tempfile.mkdtemp(prefix="seedclean-", dir="/tmp")
mut = tempfile.mkdtemp(prefix="seedmut-", dir="/tmp")
res = {"applies": False, "tests_pass_with_change": None, "demo_passes_clean": None, "demo_fails_changed": None, "checks": {}}
try:
    for d in (clean, mut):
        subprocess.check_call(["rsync", "-a", "--exclude", ".git", "--exclude", "__pycache__", "/repo/", d + "/"])
    r = subprocess.run(["patch", "-s", "-p1", "-d", mut, "-i", patch], capture_output=True, text=True)
    res["applies"] = r.returncode == 0
    if not res["applies"]:
        print("PATCH DOES NOT APPLY", r.stdout, r.stderr)
        sys.exit(3)
    if not a.no_tests:
        r = subprocess.run(["/venv/bin/python", "-m", "pytest", "-q", "-p", "no:cacheprovider", "--timeout=900", "-x"], cwd=mut, capture_output=True, text=True,
                           env=dict(os.environ, PYTHONPATH=mut))
        tail = r.stdout.strip().splitlines()[-1] if r.stdout.strip() else r.stderr[-200:]
        res["tests_pass_with_change"] = r.returncode == 0 and "229 passed" in tail
        print("tests with change:", tail)

    def run_demo(tree):
        d2 = tempfile.mkdtemp(prefix="demo-", dir="/tmp")
        try:
            shutil.copy(demo, d2)
            r = subprocess.run(["/venv/bin/python", "demo.py"], cwd=d2, capture_output=True, text=True, timeout=300, env=dict(os.environ, PYTHONPATH=tree))
            return r.returncode, (r.stdout + r.stderr)[-300:]
        finally:
            shutil.rmtree(d2, ignore_errors=True)
    rc, out = run_demo(clean)
    res["demo_passes_clean"] = rc == 0
    print("demo on clean tree: exit", rc, "" if rc == 0 else out)
    rc, out = run_demo(mut)
    res["demo_fails_changed"] = rc != 0
    print("demo on changed tree: exit", rc)
    checks = (a.checks or a.pid).split(",")
    for c in checks:
        r = subprocess.run([os.path.join(V, "check"), c, "--tier", a.tier, "--no-evidence"], capture_output=True, text=True, env=dict(os.environ, VERIF_REPO=mut))
        lines = [l for l in r.stdout.splitlines() if l.startswith(("VIOLATION", "clause=", "HARNESS"))]
        verdict = "CAUGHT" if r.returncode == 1 else ("MISSED" if r.returncode == 0 else "HARNESS-ERROR")
        res["checks"][c] = {"verdict": verdict, "tier": a.tier, "first_lines": [l[:240] for l in lines[:4]]}
        print(f"check {c} ({a.tier}): {verdict}")
        for l in lines[:4]:
            print("   ", l[:240])
    ok = res["applies"] and res["demo_passes_clean"] and res["demo_fails_changed"] and (a.no_tests or res["tests_pass_with_change"])
    print("CONFIRMED" if ok else "NOT CONFIRMED", json.dumps({k: v for k, v in res.items() if k != "checks"}))
    if ok:
        dst = os.path.join(V, "seeded", f"{a.pid}-{a.k}")
        os.makedirs(dst, exist_ok=True)
        if os.path.realpath(src) != os.path.realpath(dst):
            shutil.copy(patch, os.path.join(dst, "patch.diff"))
            shutil.copy(demo, os.path.join(dst, "demo.py"))
        old = {}
        if os.path.exists(os.path.join(dst, "meta.json")):
            old = json.load(open(os.path.join(dst, "meta.json")))
        m = {"property": a.pid, "summary": meta.get("summary") or old.get("summary"), "needs": meta.get("needs") or old.get("needs"),
             "files_touched": meta.get("files_touched") or old.get("files_touched"),
             "author": "independent sub-agent given only the property text and its own worktree",
             "confirmed": {"repository tests with the change": "229 passed" if res["tests_pass_with_change"] else "not run", "demo.py on the clean tree": "exit 0",
                           "demo.py on the changed tree": "non-zero exit", "how": "tools/seedcheck.py on scratch copies of /repo (removed afterwards)"},
             "our_checks": dict(old.get("our_checks", {}), **res["checks"])}
        if a.no_tests and old.get("confirmed"):
            m["confirmed"] = old["confirmed"]
        if old.get("note"):
            m["note"] = old["note"]
        # keep the history of verdicts: a change first missed and caught after a check was strengthened is recorded as such
        for c, v in res["checks"].items():
            prev = old.get("our_checks", {}).get(c)
            if prev and prev.get("earlier_verdict"):
                m["our_checks"][c]["earlier_verdict"] = prev["earlier_verdict"]
            elif prev and prev.get("verdict") != v["verdict"]:
                m["our_checks"][c]["earlier_verdict"] = prev["verdict"]
        json.dump(m, open(os.path.join(dst, "meta.json"), "w"), indent=1)
finally:
    shutil.rmtree(clean, ignore_errors=True)
    shutil.rmtree(mut, ignore_errors=True)
